#!/bin/sh
# usage: tools/tryseed.sh <dir with patch.diff> <PROP> [more props]  -- apply the patch in a scratch worktree and run the named checks (no confirmation)
D="$1"; shift
WT=$(mktemp -d /tmp/tryseed-XXXXXX); rmdir "$WT"
git -C /repo worktree add -q --detach "$WT" HEAD || exit 2
trap 'git -C /repo worktree remove --force "$WT" >/dev/null 2>&1; rm -rf "$WT"' EXIT
git -C "$WT" apply "$D/patch.diff" || git -C "$WT" apply --3way "$D/patch.diff" || { echo PATCH-CONFLICT; exit 2; }
for P in "$@"; do
  OUT=$(cd /verif && ./check "$P" --repo "$WT" --no-evidence 2>&1); RC=$?
  echo "== $P exit=$RC"
  echo "$OUT" | grep -A4 "^VIOLATION\|^ANALYSIS" | grep -v "replay=" | cut -c1-400 | head -30
done
