#!/usr/bin/env python3
"""Breaking changes made ON TOP OF a behaviour-preserving refactoring (refactors/MUTANTS.json): the generalisations that made
the checks silent on the refactored shape (helper summaries, inlining, normal forms, folded constants) must not have made
them blind to it. Each entry: apply refactors/<refactor>/patch.diff to a scratch worktree of /repo HEAD, replace `old` by
`new` (exactly one occurrence) in `file`, run the check of `prop`: it must exit 1 with a VIOLATION of one of `expect`.
The changed file must still compile. Writes refactors/MUTANTS_RESULTS.json. usage: tools/refmut.py [ID ...]"""
import json
import os
import subprocess
import sys
import tempfile

HERE = os.path.dirname(os.path.dirname(os.path.abspath(__file__)))


def sh(*a, **k):
    return subprocess.run(a, capture_output=True, text=True, **k)


def main():
    muts = json.load(open(os.path.join(HERE, "refactors", "MUTANTS.json")))
    want = set(sys.argv[1:])
    wt = tempfile.mkdtemp(prefix="octacheck-refmut-")
    os.rmdir(wt)
    assert sh("git", "-C", "/repo", "worktree", "add", "-q", "--detach", wt, "HEAD").returncode == 0
    results = {}
    try:
        for m in muts:
            if want and m["id"] not in want:
                continue
            sh("git", "-C", wt, "reset", "-q", "--hard", "HEAD")
            sh("git", "-C", wt, "clean", "-fdq")
            patch = os.path.join(HERE, "refactors", m["refactor"], "patch.diff")
            if sh("git", "-C", wt, "apply", patch).returncode != 0 and sh("git", "-C", wt, "apply", "--3way", patch).returncode != 0:
                results[m["id"]] = "PATCH-CONFLICT"
                print(f"{m['id']:45s} PATCH-CONFLICT")
                continue
            path = os.path.join(wt, m["file"])
            src = open(path, encoding="utf-8").read()
            if src.count(m["old"]) != 1:
                results[m["id"]] = f"ANCHOR x{src.count(m['old'])}"
                print(f"{m['id']:45s} ANCHOR found {src.count(m['old'])} times")
                continue
            new = src.replace(m["old"], m["new"])
            try:
                compile(new, path, "exec")
            except SyntaxError as e:
                results[m["id"]] = f"SYNTAX {e}"
                print(f"{m['id']:45s} SYNTAX-ERROR {e}")
                continue
            open(path, "w", encoding="utf-8").write(new)
            c = sh(os.path.join(HERE, "check"), m["prop"], "--repo", wt, "--no-evidence", cwd=HERE)
            out = c.stdout + c.stderr
            rules = sorted({l.split("rule=")[1].split()[0] for l in out.splitlines() if " rule=" in l and not l.startswith("KNOWN")})
            ok = c.returncode == 1 and bool(set(rules) & set(m["expect"]))
            results[m["id"]] = {"status": "CAUGHT" if ok else "MISSED", "rc": c.returncode, "rules": rules, "expect": m["expect"]}
            print(f"{m['id']:45s} {'CAUGHT' if ok else 'MISSED'} rc={c.returncode} fired={rules} expect={m['expect']}")
    finally:
        sh("git", "-C", "/repo", "worktree", "remove", "--force", wt)
    if not want:
        json.dump(results, open(os.path.join(HERE, "refactors", "MUTANTS_RESULTS.json"), "w"), indent=1)
    n = sum(1 for v in results.values() if isinstance(v, dict) and v["status"] == "CAUGHT")
    print(f"{n}/{len(results)} breaking changes on refactored code caught")
    return 0 if n == len(results) else 1


if __name__ == "__main__":
    sys.exit(main())
