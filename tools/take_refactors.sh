#!/bin/sh
# usage: tools/take_refactors.sh <AREA e.g. RG1> -- confirm each refactoring a sub-agent left in /tmp/wt/out/<AREA>/<k>/ in a fresh
# scratch worktree of /repo HEAD (patch applies, package imports, the unedited suite passes as before, the agent's own differential
# script says `compare` exit 0) and copy patch.diff + meta.json to /verif/refactors/<AREA>-<k>/. The worktree is removed afterwards.
A="$1"
WT=$(mktemp -d /tmp/confirm-ref-XXXXXX); rmdir "$WT"
git -C /repo worktree add -q --detach "$WT" HEAD || exit 2
trap 'git -C /repo worktree remove --force "$WT" >/dev/null 2>&1; rm -rf "$WT"' EXIT
for d in /tmp/wt/out/$A/*/; do
  k=$(basename "$d"); [ -f "$d/patch.diff" ] || continue
  git -C "$WT" reset -q --hard HEAD; git -C "$WT" clean -fdq
  if ! git -C "$WT" apply "$d/patch.diff" 2>/dev/null; then echo "$A-$k: PATCH does not apply"; continue; fi
  DC="skipped"
  if [ -f "$d/diffcheck.py" ] && [ -f "$d/expected.json" ]; then
    # the agent's recording may contain its own worktree path (error messages): compare there, on the agent's clean worktree
    AW=/tmp/wt/$A
    if [ -d "$AW" ] && [ -z "$(git -C "$AW" status --porcelain)" ] && git -C "$AW" apply "$d/patch.diff" 2>/dev/null; then
      (cd "$d" && PYTHONPATH="$AW/src" timeout 900 /venv/bin/python diffcheck.py compare >/dev/null 2>&1); DC="exit $?"
      git -C "$AW" checkout -q -- .; git -C "$AW" clean -fdq
    fi
  fi
  S=$(/tmp/wt/suite.sh "$WT" 2>&1)
  PASSED=$(echo "$S" | grep -oE "[0-9]+ passed" | head -1)
  NEW=$(echo "$S" | sed -n '/failures not in baseline/,/(end)/p' | grep -vE "^---" | wc -l)
  echo "$A-$k: diffcheck compare $DC; suite '$PASSED' new_failures=$NEW"
  if [ "$PASSED" = "2382 passed" ] && [ "$NEW" = 0 ] && [ "$DC" != "exit 1" ]; then
    mkdir -p "/verif/refactors/$A-$k"; cp "$d/patch.diff" "$d/meta.json" "/verif/refactors/$A-$k/"
  else
    echo "   NOT taken"
  fi
done
