#!/bin/sh
# usage: tools/suite.sh <worktree>   -- the pinned suite (BASELINE cmd, parallel, no coverage) on a worktree; lists failures not in the baseline list
WT="$1"
cd "$WT" || exit 2
OUT=$(mktemp /tmp/suite-XXXXXX.xml)
PYTHONPATH="$WT/src" /venv/bin/python -m pytest -q -p no:cacheprovider --timeout=900 --continue-on-collection-errors -n 6 --no-cov --junitxml="$OUT" 2>&1 | tail -3
/venv/bin/python - "$OUT" /verif/tools/suite_baseline_fail.txt <<'PY'
import sys, xml.etree.ElementTree as ET
base = set(open(sys.argv[2]).read().split("\n"))
bad = []
for tc in ET.parse(sys.argv[1]).getroot().iter("testcase"):
    if any(c.tag in ("failure", "error") for c in tc):
        cls = tc.get("classname", ""); name = tc.get("name", "")
        mod, _, c = cls.rpartition(".")
        ids = {f"{cls}::{name}", f"{mod}.{c}::{name}", f"{mod}::{c}::{name}"}
        # baseline ids look like tests.integration.test_e2e.TestX::test_y
        if not any(i in base or i.split("[")[0] in base for i in ids):
            bad.append(f"{cls}::{name}")
print("--- failures not in baseline")
for b in sorted(set(bad)): print(b)
print("--- (end)")
PY
rm -f "$OUT"
