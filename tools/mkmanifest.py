#!/usr/bin/env python3
"""Regenerate /verif/MANIFEST.json from tools/manifest_data.py (claimed checks) ; every property that is
not claimed is listed under not_applicable with its reason."""
import json
import os
import sys

HERE = os.path.dirname(os.path.dirname(os.path.abspath(__file__)))
sys.path.insert(0, os.path.join(HERE, "tools"))
import manifest_data as md  # noqa: E402

ids = [json.loads(l)["id"] for l in open(os.path.join(HERE, "properties.jsonl"))]
checks = []
na = []
for pid in ids:
    c = md.CHECKS.get(pid)
    if c is None:
        na.append({"property_id": pid, "reason": md.NOT_APPLICABLE.get(pid, "check not built yet (work in progress; see DESIGN.md)")})
        continue
    checks.append({
        "property_id": pid,
        "quick_cmd": f"./check {pid} --tier quick",
        "thorough_cmd": f"./check {pid} --tier thorough",
        "evidence_file": f"/verif/evidence/{pid}.json",
        "replay_cmd_template": f"./check {pid} --replay {{path}}",
        "engine": "octacheck",
        "level_claimed": {"category": "other", "text": c["text"], "design_ref": c.get("design_ref", f"DESIGN.md section 4, {pid}")},
        "level_note": c["note"],
        "technique": c["technique"],
    })
m = {
    "version": 1,
    "setup_cmd": "./check --setup",
    "hooks": {
        "guard": "ELEVANALTD_OCTAVE_MCP_VERIF",
        "enable": "none needed: every check is static analysis of /repo/src as it is on disk (nothing is instrumented; no hook commits exist)",
        "baseline_off_cmd": "cd /repo && /venv/bin/python -m pytest -ra -q -p no:cacheprovider --timeout=900 --continue-on-collection-errors",
        "source_commits": [],
        "add_only": True,
    },
    "engines": [
        {"name": "octacheck", "path": "/verif/octacheck", "serves_properties": [c["property_id"] for c in checks],
         "kind_free_text": "repository-specific static analysis in pure Python (ast): source model with constant folding, callee resolution and call graph, statement-level CFG with exception edges, dominators / must-pass-through / control dependence, effect classification, regex-to-automata inclusion checks; path-sensitive abstract interpreters (envelope typestate, token-type sets, exception escape); and a normalising front end applied to its own parsed copy only (helpers introduced after the pinned tree are read in place, `match` is read as its if/elif chain, new record classes as their fields / tuples, consumed generator helpers as their loops, locals read by name get their expected names) so that behaviour-preserving refactorings do not change what the rules see; decides structural necessary conditions of each property on /repo's current source, never runs repository code"},
    ],
    "checks": checks,
    "notes": md.NOTES,
    "not_applicable": na,
}
json.dump(m, open(os.path.join(HERE, "MANIFEST.json"), "w"), indent=1)
print(f"MANIFEST.json: {len(checks)} checks, {len(na)} not_applicable")
