#!/bin/sh
# usage: tools/tryref.sh <dir with patch.diff>  -- apply in a scratch worktree, run all 20 checks, print the ones that are not silent
D="$1"
WT=$(mktemp -d /tmp/tryref-XXXXXX); rmdir "$WT"
git -C /repo worktree add -q --detach "$WT" HEAD || exit 2
trap 'git -C /repo worktree remove --force "$WT" >/dev/null 2>&1; rm -rf "$WT"' EXIT
git -C "$WT" apply "$D/patch.diff" || git -C "$WT" apply --3way "$D/patch.diff" || { echo PATCH-CONFLICT; exit 2; }
for i in 01 02 03 04 05 06 07 08 09 10 11 12 13 14 15 16 17 18 19 20; do
  ( cd /verif && ./check C$i --repo "$WT" --no-evidence > "$WT/.o_$i" 2>&1; echo $? > "$WT/.rc_$i" ) &
done
wait
N=0
for i in 01 02 03 04 05 06 07 08 09 10 11 12 13 14 15 16 17 18 19 20; do
  RC=$(cat "$WT/.rc_$i")
  if [ "$RC" != 0 ]; then N=$((N+1)); echo "-- C$i exit=$RC"; grep -A3 "^VIOLATION\|^ANALYSIS" "$WT/.o_$i" | grep -v "replay=" | cut -c1-330 | head -8; fi
done
echo "== $D: $N check(s) not silent"
