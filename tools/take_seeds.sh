#!/bin/sh
# usage: tools/take_seeds.sh <PROP> <first-new-index>   -- confirm /tmp/wt/out/<PROP>b/{1,2} as seeds <PROP>-<n>, <PROP>-<n+1>, fix their property id, run the check
P="$1"; N="$2"
for k in 1 2; do
  /verif/tools/confirm_seed.sh /tmp/wt/out/${P}b/$k ${P}-$((N+k-1)) 2>&1 | tail -1
done
python3 - <<PY
import json,glob
for d in glob.glob('/verif/seeded/C*'):
    p=d+'/meta.json'; m=json.load(open(p))
    if m['property'].endswith('b'):
        m['property']=m['property'][:-1]; m['round']=2; json.dump(m,open(p,'w'),indent=1)
PY
python3 /verif/tools/seedrun.py ${P}-${N} ${P}-$((N+1)) | tail -3
