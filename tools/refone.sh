#!/bin/sh
# usage: tools/refone.sh <refactor-name> <PROP> [more check args]  -- apply the refactoring in a kept scratch worktree /tmp/refwt/<name> and run one check on it
N="$1"; P="$2"; shift 2
WT=/tmp/refwt/$N
if [ ! -d "$WT" ]; then mkdir -p /tmp/refwt; git -C /repo worktree add -q --detach "$WT" HEAD || exit 2; git -C "$WT" apply /verif/refactors/$N/patch.diff || git -C "$WT" apply --3way /verif/refactors/$N/patch.diff || exit 2; fi
cd /verif && ./check "$P" --repo "$WT" --no-evidence "$@" 2>&1 | grep -A7 "^VIOLATION\|^ANALYSIS" | grep -v "replay=" | cut -c1-330
