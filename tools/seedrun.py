#!/usr/bin/env python3
"""Run the registered checks against every confirmed seeded change in /verif/seeded/.

Each change is applied (git apply --3way) in ONE scratch worktree of /repo's HEAD under /tmp (never in /repo),
the check of the property it breaks is run with --repo <worktree> --no-evidence, and the worktree is reset.
usage: tools/seedrun.py [name ...] [--all-props]
"""
import json
import os
import subprocess
import sys
import tempfile

VERIF = os.path.dirname(os.path.dirname(os.path.abspath(__file__)))
SEEDED = os.path.join(VERIF, "seeded")


def sh(*a, **kw):
    return subprocess.run(a, capture_output=True, text=True, **kw)


def main(argv):
    all_props = "--all-props" in argv
    names = [a for a in argv if not a.startswith("--")] or sorted(os.listdir(SEEDED))
    wt = tempfile.mkdtemp(prefix="octaseed-")
    os.rmdir(wt)
    r = sh("git", "-C", "/repo", "worktree", "add", "-q", "--detach", wt, "HEAD")
    if r.returncode:
        print(r.stderr)
        return 2
    results = {}
    try:
        for name in names:
            d = os.path.join(SEEDED, name)
            if not os.path.isfile(os.path.join(d, "patch.diff")):
                continue
            meta = json.load(open(os.path.join(d, "meta.json")))
            prop = meta["property"]
            if meta.get("status") == "neutralised":
                print(f"{name:<12} {prop} NEUTRALISED (a later fix: commit in /repo makes this change harmless; not counted)")
                continue
            r = sh("git", "apply", "--3way", os.path.join(d, "patch.diff"), cwd=wt)
            if r.returncode:
                results[name] = {"status": "PATCH-CONFLICT"}
                print(f"{name:<12} {prop} PATCH-CONFLICT {r.stderr.strip().splitlines()[-1:]}")
                sh("git", "reset", "-q", "--hard", "HEAD", cwd=wt)
                continue
            props = [f"C{n:02d}" for n in range(1, 21)] if all_props else [prop]
            fired = {}
            for p in props:
                c = sh(os.path.join(VERIF, "check"), p, "--repo", wt, "--no-evidence", cwd=VERIF)
                rules = sorted({l.split("rule=")[1].split()[0] for l in c.stdout.splitlines() if " rule=" in l and l.startswith("  ")})
                viol = [l for l in c.stdout.splitlines() if l.startswith("VIOLATION")]
                if c.returncode == 1 and viol:
                    fired[p] = rules
                elif c.returncode == 2:
                    fired[p] = ["ANALYSIS-ERROR"] + [l for l in c.stdout.splitlines() if l.startswith("ANALYSIS-ERROR")][:1]
            status = "CAUGHT" if prop in fired and fired[prop] and fired[prop][0] != "ANALYSIS-ERROR" else ("ANALYSIS-ERROR" if prop in fired else "MISSED")
            results[name] = {"status": status, "fired": fired}
            print(f"{name:<12} {prop} {status:<8} {fired}")
            sh("git", "reset", "-q", "--hard", "HEAD", cwd=wt)
            sh("git", "clean", "-qfd", cwd=wt)
    finally:
        sh("git", "-C", "/repo", "worktree", "remove", "--force", wt)
    # (a run over selected seeds does not replace the table of the last full run)
    full = not [a for a in argv if not a.startswith("--")]
    json.dump(results, open(os.path.join(VERIF, "seeded", "RESULTS.json" if full else "RESULTS.partial.json"), "w"), indent=1, sort_keys=True)
    n = len(results)
    c = sum(1 for v in results.values() if v["status"] == "CAUGHT")
    print(f"{c}/{n} seeded changes caught by the check of their own property")
    return 0


if __name__ == "__main__":
    sys.exit(main(sys.argv[1:]))
