NOTES = ("Technique family: static analysis only. Every check parses /repo/src/octave_mcp on each run and decides "
         "repository-specific structural rules (necessary conditions of the property); what is not decided is stated "
         "per property in level_note and DESIGN.md. Genuine defects found are either repaired by fix: commits in /repo "
         "or listed in /verif/known_findings.json.")

NOT_APPLICABLE: dict[str, str] = {}

CHECKS = {
    "C16": {
        "technique": "static analysis: CFG must-pass-through + who-may-call (filesystem effect classification) + exceptional-edge cleanup rule on the temp-file install protocol",
        "text": ("Decides on every path of every function that installs a file (those containing mkstemp/os.replace; today WriteTool.execute and "
                 "atomic_write_octave, which all CLI writers call): only os.replace(temp,target) ever writes a target and every other mutating filesystem "
                 "call in the whole package is one of the protocol's roles; write->flush->fsync->close precede the replace on all paths; every exceptional "
                 "edge and early return between mkstemp and replace unlinks the temp file; temp is created in the target's directory; permission bits are "
                 "copied before the replace; path/XOR/emit validation dominates the first mutation; canonical_hash is the hash of the name written with the "
                 "same encoding. With POSIX rename atomicity these give all-or-nothing at every kill point; the kill points themselves are not executed."),
        "note": ("Assumes POSIX rename atomicity and that statements without a call/raise/await do not raise. Does not run fault injection: behaviour "
                 "under concrete errno values beyond 'exception => cleanup handler => error envelope' is not decided. Trusted base: Python ast, the "
                 "checker's CFG construction (cross-checked by the both-ways variants in octacheck/variants/c16.py)."),
    },
    "C17": {
        "technique": "static analysis: path rules over the CFG (compare-before-mutate, recompare-before-replace), guard-strength rule, dominance of the dry-run return, lock-discipline rule",
        "text": ("Decides on every install function: every path from entry to the first mutating call passes a compare of hash(read(target)) with base_hash "
                 "whose mismatch edge ends in an error return; every path mkstemp->replace passes a second compare on content re-read after mkstemp, after "
                 "fsync, with no call between it and os.replace; base_hash guards are not weakened by conjuncts (unless the complementary case is rejected); "
                 "corrections_only return dominates all mutating calls; no error envelope is reachable after os.replace; no await is reachable; "
                 "compare->replace must sit in an inter-process critical section (none exists: recorded known finding); no error return after an un-undone "
                 "mutation (parent mkdir: recorded known finding). The register-model histories are not executed."),
        "note": ("Histories and interleavings are not enumerated; the rules are necessary conditions visible in the code's shape. The lost-update window between two "
                 "processes is reported from the absence of any lock (known finding), not explored."),
    },
}
