NOTES = ("Technique family: static analysis only. Every check parses /repo/src/octave_mcp on each run and decides "
         "repository-specific structural rules (necessary conditions of the property); what is not decided is stated "
         "per property in level_note and DESIGN.md. Genuine defects found are either repaired by fix: commits in /repo "
         "or listed in /verif/known_findings.json.")

NOT_APPLICABLE: dict[str, str] = {}

CHECKS = {
    "C16": {
        "technique": "static analysis: CFG must-pass-through + who-may-call (filesystem effect classification) + exceptional-edge cleanup rule on the temp-file install protocol",
        "text": ("Decides on every path of every function that installs a file (those containing mkstemp/os.replace; today WriteTool.execute and "
                 "atomic_write_octave, which all CLI writers call): only os.replace(temp,target) ever writes a target and every other mutating filesystem "
                 "call in the whole package is one of the protocol's roles; write->flush->fsync->close precede the replace on all paths; every exceptional "
                 "edge and early return between mkstemp and replace unlinks the temp file; temp is created in the target's directory; permission bits are "
                 "copied before the replace; path/XOR/emit validation dominates the first mutation; canonical_hash is the hash of the name written with the "
                 "same encoding. With POSIX rename atomicity these give all-or-nothing at every kill point; the kill points themselves are not executed."),
        "note": ("Assumes POSIX rename atomicity and that statements without a call/raise/await do not raise. Does not run fault injection: behaviour "
                 "under concrete errno values beyond 'exception => cleanup handler => error envelope' is not decided. Trusted base: Python ast, the "
                 "checker's CFG construction (cross-checked by the both-ways variants in octacheck/variants/c16.py)."),
    },
    "C17": {
        "technique": "static analysis: path rules over the CFG (compare-before-mutate, recompare-before-replace), guard-strength rule, dominance of the dry-run return, lock-discipline rule",
        "text": ("Decides on every install function: every path from entry to the first mutating call passes a compare of hash(read(target)) with base_hash "
                 "whose mismatch edge ends in an error return; every path mkstemp->replace passes a second compare on content re-read after mkstemp, after "
                 "fsync, with no call between it and os.replace; base_hash guards are not weakened by conjuncts (unless the complementary case is rejected); "
                 "corrections_only return dominates all mutating calls; no error envelope is reachable after os.replace; no await is reachable; "
                 "compare->replace must sit in an inter-process critical section (none exists: recorded known finding); no error return after an un-undone "
                 "mutation (parent mkdir: recorded known finding); every exit reachable from mkstemp that does not complete os.replace (exception edges "
                 "included) passes os.unlink(temp) (R17.10). A compare that lives in a helper returning (content, error|None) is followed by a callee summary. "
                 "The register-model histories are not executed."),
        "note": ("Histories and interleavings are not enumerated; the rules are necessary conditions visible in the code's shape. The lost-update window between two "
                 "processes is reported from the absence of any lock (known finding), not explored."),
    },
}

CHECKS["C19"] = {
    "technique": "static analysis: taint of user-supplied paths + dominance by the validator's success, sibling agreement of the three validator copies, regex-alphabet analysis of name/digest patterns, who-may-call rule for load_schema",
    "text": ("Decides: every filesystem access (including stat-level) on target_path / file_path / CLI output paths and their aliases is dominated by the path "
             "validator having accepted that value (interprocedurally for callees with read/write effects); the three validator copies all contain the '..' "
             "component test, the per-component symlink walk with the identical exemption and the documented suffix set, return success only after all three and "
             "turn every exception into rejection; no symlink test is weakened by exists(); schema names are matched against an anchored pattern whose alphabet "
             "has no path characters before any join and load_schema has only vetted callers; the frozen@ cache file name derives only from a 64-hex capture and is "
             "returned only after the digest comparison; SOURCE_URI-derived files are touched only after relative_to(root) succeeded and the root must not derive "
             "from the document (one recorded known finding in the CLI); the final-component symlink re-check dominates mkstemp."),
    "note": ("Behaviour on concrete directory layouts (races between check and use, bind mounts) is not decided. Taint is flow-insensitive inside a function and follows "
             "callees to depth 3. The `$` of the schema-name pattern also admits a trailing newline; this cannot cross a directory and is recorded in the evidence only."),
}

CHECKS["C10"] = {
    "technique": "static analysis: path-sensitive abstract interpretation (typestate) of every tool's execute over its CFG; finite fact domain per path state, infeasible edges pruned",
    "text": ("For ValidateTool/WriteTool/EjectTool/CompileGrammarTool.execute, their envelope helpers and the CLI validate/write commands, an abstract interpreter "
             "propagates sets of path states (schema-lookup nullness, validator schema, emptiness of the validator's error list, LENIENT/ULTRA branch, abstract "
             "response dict) through the CFG and decides at every store and every return: validation_status present; value one of the three literals; VALIDATED only "
             "where a schema lookup is known non-None and the error list known empty (or downgraded by profile); INVALID only with known non-empty errors, "
             "with validation_errors (or their count) and schema name/version at the return; valid <=> VALIDATED; helpers hard-code UNVALIDATED; the validator "
             "summary used for the CLI (schema-less validation reports nothing) is itself checked on validator.py. All flag combinations are covered because all "
             "CFG paths are, not because inputs are run."),
    "note": ("Not decided: that canonical text returned as VALIDATED validates again (rests on C01/C09 behaviour); severity of the entries in the error list "
             "(warning-only lists making INVALID is reported under C08). Facts about values computed by callees other than the schema lookups and "
             "Validator.validate are unknown (top). Lookup purity is an assumption discharged by C06 R06.3."),
}

CHECKS["C06"] = {
    "technique": "static analysis: effect analysis over the call graph (ambient reads), set-order-leak lint with local set typing, module/class state write analysis incl. accessor aliases, statelessness of tool classes, await reachability",
    "text": ("Decides over every function reachable from the pipeline entry points and every function of the pure modules: no read of environment, cwd, home, clock, "
             "random, locale, id()/hash(), or unsorted directory listings except a frozen, reasoned allow-list (routing timestamp, cwd-relative schema directories "
             "ordered after the packaged ones, ~/.octave standards cache); no set-typed expression is iterated/joined/listed without an order-insensitive "
             "wrapper; no module-level or class-level binding is written after import (stores, mutating calls, global rebinding, cross-module writes, writes "
             "through the alias returned by get_builtin_schema); tool classes store nothing on self outside __init__; the schema search order starts with "
             "the __file__-derived directory; no await is reachable from any execute. These are the only ways, visible in the code, for a result to depend "
             "on anything but the arguments and the named schema's text."),
    "note": ("Byte equality across processes, hash seeds and locales is not executed. Receiver types are inferred locally (annotations, constructor calls); calls on "
             "untyped receivers with generic method names are not followed, which is why whole pure modules are in scope regardless of reachability. Text-mode open() "
             "without encoding= (3 sites) is recorded, not armed: all locales the property names decode UTF-8 under CPython 3.12."),
}

CHECKS["C11"] = {
    "technique": "static analysis: effect analysis of the repair engine over the call graph (who may write which AST field), dominance of log-before-change, guard dominance, interval reasoning over len(matches), must-pass-through for isfinite, gating by control dependence",
    "text": ("Decides on repair.py, everything repair() reaches, and the repair call sites in the tools/CLI: the only document store is `<Assignment>.value = <value returned "
             "by repair_value under was_repaired>`; no store to key/children/sections/meta/target, no container mutators, no node constructions; every `(x, True)` "
             "return of an _attempt_* function is dominated by repair_log.add(before=<original parameter>, after=<x|str(x)>, tier=REPAIR); the zone / not-fix / "
             "missing-definition / None guards dominate the repair loop; the case-fold return is reachable only when the guards on len(matches) leave [1,1] and the "
             "candidates are the case-insensitive equals; the float branch passes math.isfinite and conversion errors are handled; repair(fix=True) is control-dependent "
             "on the caller's fix/lenient flag (default False) and the unconditional helpers have no other callers; tools copy the whole log; the inline META case-fold in "
             "octave_write stores only into an existing string key on a unique match under lenient and records before/after."),
    "note": ("Not decided (value semantics): losslessness of int()/float() on exotic numerals (underscores, Unicode digits), that the new value satisfies the constraint, "
             "idempotence of repair on repaired documents."),
}

CHECKS["C09"] = {
    "technique": "static analysis: AST-write effect analysis over the call graph (incl. container aliases through parameters), control-dependence gating of repair, attribute-read lint for spelling-carrying fields, def-use of the emitted document in octave_validate",
    "text": ("Decides: no function reachable from Validator.validate, validate_frontmatter, _count_literal_zones, emit, project, verify_seal (nor any function of the validator, "
             "constraints, emitter, projector, routing, holographic modules) stores into or calls a mutator on a document AST object, directly or through a parameter/local "
             "that aliases a node container; repair(fix=True) is control-dependent on the caller's fix/lenient flag; the validation layer reads no attribute that records "
             "spelling (.tokens, .raw, .normalized_from, .column, .raw_pattern, .fence_marker); octave_validate binds `doc` only from parse_with_warnings and gated repair, "
             "writes no AST field itself and sets canonical from emit(doc) without options; _to_python_value is element-wise identity. Together: with fix off validation "
             "cannot alter what is emitted, and the verdict is a function of the AST alone."),
    "note": ("Not decided: that two respellings produce the same AST (C02/C04 behaviour), hence equal verdicts for respellings; value equality canonical == emit(parse(x)). "
             "Receivers are typed only locally; an AST object reached through an untyped container of another class would not be recognised."),
}

CHECKS["C18"] = {
    "technique": "static analysis: dominance of is_absent guards over every emission call site, shape rules on the tri-state dispatch (DELETE test / wrap / key equality) via control dependence, effect analysis (frame) and sibling agreement of the CLI",
    "text": ("Decides: every emit_value/emit_assignment call in the emitter on an element of children/items/pairs/meta is control-dependent on is_absent(...) being false (emit_assignment's own "
             "parameter is discharged at every call site); emit_value refuses Absent first and returns the constant \"null\" exactly under `value is None`; emit_meta emits no empty header; in "
             "_apply_changes/_apply_mutations every stored request value is wrapped by _normalize_value_for_ast on a path where _is_delete_sentinel was false, every removal is under the "
             "sentinel and keyed by the request key, META{...} merges, `.value` is stored only where node.key == request key and the only append is Assignment(key=request key); "
             "_normalize_value_for_ast is identity on scalars/None/zones and element-wise on lists/dicts; the CLI delegates to the same implementation (it did not: fixed in /repo)."),
    "note": ("Not decided: that untouched nodes re-emit to the same lines (C01 behaviour) and that null, \"\" and [] are told apart by the reader (values). Duplicate keys: only the first match is "
             "updated, which the property allows ('sets exactly that value')."),
}

CHECKS["C15"] = {
    "technique": "static analysis: def-use expansion of the digest expression in seal and verify (structural equality of the two chains), control dependence of each verdict on the digest equality, field-completeness of document copies, predicate agreement",
    "text": ("Decides on sealer.py and the two CLI commands: after inlining single-assignment locals and compute_seal, sealing and verification hash the identical expression "
             "sha256(emit(_remove_seal_section(doc)).encode('utf-8')).hexdigest() (default emit options); VERIFIED is returned only under full equality of the recomputed digest with "
             "the stored HASH (read through at most strip of quotes), NO_SEAL only when extract_seal returned None, INVALID otherwise; every Document copy built while sealing "
             "takes each content field from the same field of its source (trailing_comments is missing in both copies: recorded known findings); SEAL sections are recognised by "
             "one predicate in removal and extraction and nothing else is filtered; the stored HASH is the computed digest; the CLI seals and verifies the document exactly as "
             "parsed by parse()."),
    "note": ("Not decided: that a sealed document still verifies after being written and read back (rests on canonicalisation being a fixed point: C01), and that every single-site "
             "content mutation changes the digest (a property of SHA-256 and of the emitter's injectivity)."),
}

CHECKS["C14"] = {
    "technique": "static analysis: exhaustiveness of isinstance dispatch in every format converter over the node/value kinds the parser constructs, sibling agreement MCP vs CLI (wrapper idiom resolved), shape rules on project() and effect analysis of the projector",
    "text": ("Decides: every JSON/YAML/Markdown converter (MCP and CLI) has a branch for each node kind that carries keys/values (Assignment, Block, Section) and each value kind "
             "(ListValue, InlineMap, LiteralZoneValue, HolographicValue) - the kinds are read from what parser.py constructs; CLI converters are the MCP ones (pure wrappers are "
             "resolved) or dispatch identically; in project() a result whose document is not the input itself has lossy=True constant and non-empty fields_omitted, and the full views "
             "return the input document and emit(doc); the projector writes no field, constructs no node, only replace(node, children=<filter result>) and appends existing nodes, and "
             "keeps by `node.key in keep_set`; the eject tool/CLI pass the caller's mode, feed every content format from result.filtered_doc and report the projection's own lossy / "
             "fields_omitted. The 13 converter gaps found on the pinned tree were repaired by a fix: commit."),
    "note": ("Not decided: leaf-set equality between formats on concrete documents (duplicate keys collapse in dict-based formats; block targets are not rendered outside OCTAVE); "
             "what a converter does inside a branch beyond having it."),
}

CHECKS["C04"] = {
    "technique": "static analysis: automata inclusion/emptiness between the emitter's bare-value regexes and a tokenizer model extracted from the source (regex->NFA over a symbolic alphabet, abstract evaluation of the identifier predicates), table inversion of escape/unescape, isinstance-order and exception-edge rules",
    "text": ("On every run the quoting decision of needs_quotes is extracted as an ordered decision list, TOKEN_PATTERNS / aliases / operator set as tables, and the lexer's identifier "
             "predicates are evaluated on one representative per alphabet class; automata then decide for every string the emitter would leave bare (IDENTIFIER, ANNOTATION, EXPRESSION, "
             "VARIABLE patterns minus the exclusions tested before them): no token regex matches at a token start (start of value, or after an operator inside an expression), and the "
             "intended reader consumes the string whole, each with a shortest witness. The escape chain copies are compared, and decoder(encoder(s)) == s is decided on the extracted "
             "tables for all strings up to the cascade bound. bool-before-int order, total+finite number conversion (failure => LexerError), str(int|float) inside L(NUMBER) and not stolen "
             "by an earlier token regex, and identity of _normalize_value_for_ast on scalars complete the rule set. Found and repaired on the pinned tree: sequential unescape chain, reserved "
             "words as prefixes (true.x, A->null), unbounded int / inf literals; recorded: ANNOTATION_PATTERN vs scanner (A<>, NEVER<A,B>)."),
    "note": ("The exhaustive sweep of concrete values through emit+parse is not run. The tokenizer model (pattern order, '+' special case, identifier scanner shape) is bound to the code by shape "
             "checks that fail closed (exit 2). Not decided: NFC interaction, PATTERN/REGEX force-quoting, how the parser groups the tokens of multi-word values."),
}

CHECKS["C08"] = {
    "technique": "static analysis: shape rules on the chain evaluator and each member (CFG dominance, return classification, comparator normal forms, interval reasoning), purity (effect) analysis of members, registry exhaustiveness, policy dispatch table, severity dataflow to the INVALID decision",
    "text": ("Decides: ConstraintChain.evaluate checks conflicts first and rejects on any; its loop evaluates every member on the chain's own unmodified (value, path) as the first step of every "
             "iteration, returns the first failing result, and the only accepting return follows the completed loop; no member's evaluate writes self or the value (members commute, so the verdict is "
             "order-independent); RANGE rejects exactly v<min or v>max, MAX/MIN_LENGTH reject len>max / len<min after rejecting non str|list, REQ rejects exactly None and \"\", CONST rejects by !=; bool tests "
             "precede numeric tests; every Constraint subclass is constructible from parse and unknown keywords raise; detect_conflicts reports the three documented conflicts from order-free existence tests; "
             "ENUM accepts exact members first, candidates are startswith-prefixes, 0 -> E005, >1 -> E006, 1 accepts; unknown-field policy dispatch has the documented severities, names the field, reports "
             "every unknown field, falls back/defaults to REJECT; REQ-missing is `has_req and value is None` -> E003 naming the field; all chain errors are reported; severity-warning entries are "
             "filtered before any INVALID decision (violated on the pinned tree: repaired by a fix: commit)."),
    "note": ("Not decided (value computations): REGEX match semantics and anchoring, DATE/ISO8601 calendar validity, CONST equality across types, _parse_atom. The rules fix the present shape of the evaluators; "
             "a behaviour-preserving rewrite into another idiom is reported as a violation of the shape rule rather than silently accepted - the accepted idioms are listed in each rule's message."),
}

CHECKS["C12"] = {
    "technique": "static analysis of the grammar generator: context-sensitive taint analysis of every string template that becomes grammar text (literal / comment / rule position), abstract classification of dynamic parts, automata inclusion for the regex shape tests, CFG rules on the constant rules (defined-before-use, root on all paths)",
    "text": ("Decides on gbnf_compiler.py: every rules.append in compile_schema and every fragment returned by the per-kind compilers is scanned with a GBNF lexical context (inside \"...\", inside a # comment, "
             "rule position); each dynamic part must be, respectively, an _escape_literal result, a one-line string, or a sanitised+uniquified rule name / escaped quoted literal / alternation of those / compiled "
             "fragment; regex text is kept only under a whole-string shape test whose language is proved (automata inclusion) to be a sequence of GBNF-safe classes/dots with + * ? ; field rule names pass a "
             "uniquifier seeded with exactly the structural names the constants define, and the `field` alternation uses the same names; each constant rule's references are defined on every path that defines "
             "it, root is appended on every path, no structural rule twice per path; _escape_literal is backslash-then-quote-then-line-breaks; the sanitiser lets through only [A-Za-z0-9_] (its guard is "
             "evaluated on all ASCII characters); the tools hand the compiled grammar on without cutting or rewriting it. Three generator defects found on the pinned tree were repaired by fix: commits."),
    "note": ("The output grammars are not parsed by an independent GBNF parser: well-formedness of outputs is argued from the generator's templates, which is sound only for the listed necessary conditions "
             "(balanced literals/classes in constants are checked by the scanner; semantics of llama.cpp's parser beyond that is assumed). CONTRACT token reconstruction is covered only in so far as its result passes "
             "through the same compile_schema."),
}

CHECKS["C13"] = {
    "technique": "static analysis: the constant GBNF fragments are extracted and translated to automata; inclusion in the language of the reader token that yields the value kind the constraint accepts (tokenizer model extracted from the source), with shortest witnesses; def-use rule for CONST/ENUM spelling; order rule on compile_chain",
    "text": ("Decides: the BOOLEAN and NUMBER fragments derive only texts that are one BOOLEAN / NUMBER token and that no earlier token regex (VERSION ...) matches first; the DATE and ISO8601 fragments derive only "
             "texts that are one quoted STRING token whose content lies in the constraint's own pattern (extracted from DateConstraint.evaluate / Iso8601Constraint.compile); the text placed in the grammar for CONST "
             "and ENUM values is _escape_literal(emit_value(value)), i.e. spelled by the emitter's own quoting decision (whose agreement with the reader is C04 R04.3); compile_chain selects members in the documented "
             "priority; the separator between '::' and the value must derive only spaces; the reader model is bound to tokenize(); on the validator side REQ-missing is `value is None` and bool precedes number. Repaired on "
             "the pinned tree: bare DATE/ISO8601, CONST/ENUM spelled with str(). Recorded: impossible calendar dates, ws (tab / newline) after '::'."),
    "note": ("CONST/ENUM for concrete schema values and the validator side of REGEX are not decided (runtime data). Only fragments that are source constants are translated; a fragment assembled from non-constant "
             "parts is an analysis error, not a pass."),
}

CHECKS["C20"] = {
    "technique": "static analysis: path-sensitive progress analysis of the scanner loop and of every Parser loop (token-type-set abstraction with context-sensitive must-consume summaries), loop-idiom termination rules, regex width and iteration-ambiguity automata, call-graph SCC recursion rule (depth cap / structural descent), interprocedural exception-escape analysis, bounds-guard and per-token-work rules",
    "text": ("Decides necessary conditions of the no-hang / no-foreign-exception / roughly-linear clauses: every cycle of tokenize's main loop strictly increases pos "
             "(with the fence-span and %-suffix invariants re-derived from the code); every other while loop has a recognised termination argument; no token "
             "regex is nullable or iterates ambiguously (exponential backtracking); every cycle of each of the 29 Parser loops consumes a token or exits, "
             "with advance() counted only where EOF is excluded; every recursion reachable from the reader or a tool is depth-capped with ParserError (parser) "
             "or descends structurally into a capped document, and the caps fit the interpreter stack; explicit raises and data-dependent library calls "
             "(int/float/re.compile/json/yaml/index) propagated over the call graph leave the four reader entry points only as LexerError/ParserError and "
             "leave no tool execute(); META values are type-guarded before str-only operations; every content[i] in the lexer is bounds-guarded on every "
             "path; per-token text tables join only strings; the per-token loop does no work proportional to the whole input."),
    "note": ("Wall-clock scaling is not measured and JSON-serialisability of every envelope value is not decided. IndexError/KeyError/AttributeError/TypeError "
             "from ordinary subscripts and attribute access are modelled only by R20.5c (META values) and R20.8 (scanner indexes); other implicit exceptions "
             "inside the tools' unprotected stages are outside the analysis. Polynomial (non-exponential) regex backtracking is not analysed. Four escape origins "
             "are exempted by name with a reason in octacheck/rules/c20.py (ESCAPE_EXEMPT)."),
}

CHECKS["C07"] = {
    "technique": "static analysis: path-sensitive pairing rules over the CFG (rewrite site => receipt on every path, receipt => rewrite guard), symbolic evaluation of the scanner's line/column update expressions, per-path append counting in the tool mappers, wiring (def-use) rules from the readers to the envelopes",
    "text": ("Decides the structural half of the rewrite/receipt bijection: in tokenize every Token built with a normalized_from is followed on every path by the "
             "normalization record carrying that original and the token's unchanged line/column; records are appended only under a non-empty marker, the marker "
             "is set only under the alias-table / triple-quote tests and the alias table is irreflexive; every update of pos is matched by the column/line update "
             "(the multi-line-token formula is evaluated symbolically on text = A + newline + T); in Parser each of the 11 word-list joins is receipted by a "
             "multi_word_coalesce warning on every path that joined more than one word; both octave_write mappers turn each normalization / lenient_parse record "
             "into exactly one correction, filter on type only and produce none for spec_violation findings; both tools pass the reader's complete receipt list "
             "into repairs / corrections, in strict and lenient mode; the lenient pre-pass rewrites (and receipts) only matches outside every protected range."),
    "note": ("The multiset equality between injected rewrites and receipts on concrete documents (exact original text, line, column per occurrence) is not decided, nor "
             "that canonical text triggers no lenient_parse warning of other subtypes. Splitting a run of annotated words (NEVER<X> ALWAYS<Y>) into a list emits no "
             "receipt and is pinned by the repository's own test; it is outside R07.2, which covers joins. Unknown expressions in the line/column update make the check "
             "exit 2 (analysis incomplete) rather than guess."),
}

CHECKS["C01"] = {
    "technique": "static analysis: regular-language inclusion/intersection between the emitter's quoting decision and the tokenizer model (NFA over a symbolic alphabet, with witness strings), escape-chain agreement for verbatim token reconstructions, ordering and indent-arithmetic rules over the emitter's AST, placement rule for trailing comments",
    "text": ("Decides necessary conditions of re-readability and idempotence: every string needs_quotes leaves bare is consumed by the tokenizer as exactly the token(s) its "
             "reader expects (no token regex steals a prefix, the identifier scanner reads the whole word, expression segments are accepted by parse_flow_expression; "
             "one recorded known finding: A<> / NEVER<A,B>); scanned identifiers become exactly IDENTIFIER tokens; text rebuilt from tokens and written verbatim "
             "(Section.annotation, HolographicValue.raw_pattern) spells STRING tokens through the emitter's own escape chain; emit() writes the document parts in the "
             "order parse_document consumes them; children are emitted at indent + 1 with two spaces per level and emit_meta's literal prefixes match the depth it "
             "lays values out for; number conversions cannot leave the NUMBER language; the trailing comment of an assignment follows the complete value text; names written verbatim (Section.key / section_id) are never taken from a STRING token."),
    "note": ("emit(parse(emit(parse(x)))) == emit(parse(x)) itself is not decided: list-layout stability (_needs_multiline vs parse_list), indentation re-reading through "
             "INDENT tokens / implicit dedent and comment placement other than the assignment trailing comment depend on the hand-written parser's control state on "
             "runtime token streams. The alphabet is symbolic (ASCII + literal non-ASCII + one representative per Unicode category)."),
}

CHECKS["C02"] = {
    "technique": "static analysis: three-valued evaluation of token-type dispatch tables per TokenType member, def/use symmetry of AST fields between parser and emitter, path exploration over the parser CFG with a token-type-set abstraction (comment consumption), exhaustive small-model check that the lexer's decoder inverts the emitter's escape chain, sibling-agreement rules",
    "text": ("Decides structural necessary conditions of content preservation: the token->text tables on the canonical path (holographic raw pattern, captured annotations, "
             "multi-word rendering) render every non-whitespace token kind; every AST field the parser fills is read by the emitter function of that node kind; wherever "
             "the current token is known to be a COMMENT the parser stores its text before moving on (six deliberate discard sites are recorded known findings); parse_value "
             "has a branch for every member of VALUE_TOKENS; decode(encode(s)) == s for all strings up to length 5 over the escape alphabet, for chains written as .replace() "
             "chains or table-driven loops; the block-children and section-children loops agree on resetting the line-indent tracker after a child; the lenient pre-pass "
             "protects literal zones, strings and comments with a full lookup; bare strings read back as the same string (automata, one known finding shared with C01); no text on its way to the lexer passes a whole-text transformer and the core pipeline splits lines on \\n only; structural tokens are never consumed as a value."),
    "note": ("Equality of the parsed content with an independent statement of what was written is not decided: parentage by indentation on concrete layouts, duplicate-key "
             "order and value equality need values. R02.6 is a sibling-agreement rule on the repository's own idiom (current_line_indent reset); a consistent redesign of both "
             "loops is silent, a one-sided change fires."),
}
CHECKS["C05"] = {
    "technique": "static analysis: use-classification of every read of a literal zone's fields (verbatim forms allow-listed), who-may-construct / no-store rule, dispatcher exhaustiveness, control-dependence rules in the fence-aware normaliser and the tab check, shape rules for range lookups and fence detection in the write pre-pass, sibling agreement of the emitter's zone layouts",
    "text": ("Decides: every read of .content/.info_tag/.fence_marker on an expression known to be a literal zone (37 reads in the tools' scope; whole package in the thorough "
             "tier) is a verbatim use; no store to those fields and LiteralZoneValue is built only by Parser.parse_literal_zone; every value dispatcher that converts values has "
             "a zone branch; inside an open fence the normaliser appends the raw line, unicodedata.normalize has no other caller and the tab rejection consults every fence span; "
             "the octave_write pre-pass uses the lexer's FENCE_PATTERN, closes a zone only on a fence of the opening length and scans all protected ranges; the emitter's three "
             "zone layouts agree (content appended unchanged exactly when non-empty); the helpers that rewrite octave_write's input before parsing apply no dedent/normalize/re.sub/expandtabs/splitlines to it. One recorded known finding: FormatOptions post-processing is not fence-aware (Python API only)."),
    "note": ("Byte equality of zone content through a whole pipeline is not decided, nor the collapse of a zone holding exactly one empty line into an empty zone (a value-level "
             "fact of the token representation). Receiver typing is by isinstance test / annotation / construction inside the same function; reads on untyped receivers named "
             "content elsewhere in the package are out of scope."),
}

CHECKS["C03"] = {
    "technique": "static analysis: table agreement (alias table vs ordered token patterns), pairwise regular-language shadowing check of the token table, who-reads rule on the emitter (no positions/tokens), classification of the emitter's output constants against the strict profile, indent arithmetic, token-type-set dataflow in the parser (NEWLINEs exhausted before a child region opens), language inclusion of the lexer's envelope/key lines in octave_write's structure-detection regexes",
    "text": ("Decides necessary conditions of convergence and of the strict profile: every ASCII alias lexes to the token kind of its canonical operator and is replaced from "
             "the table; no token pattern is shadowed by an earlier pattern of another kind (582 ordered pairs, automata with witness; the deliberate ===END=== carve-out is "
             "checked to be the only stolen string); no emitter function reads .line/.column/.tokens or tokens; none of the emitter's output fragments contains a tab, a space next "
             "to '::', or an ASCII operator alias, the envelope lines and the final newline are unconditional; indentation is two spaces per level, including level-parameterised "
             "META emitters; at every INDENT test that opens a child region the current token cannot be a NEWLINE (blank lines after headers are skipped by a loop); "
             "L(===NAME===[ ]*) and L([ ]*KEY::) are included in octave_write's lenient structure detectors; parse_document never requires the envelope; every parser token set that contains ENVELOPE_END also contains EOF; indentation widths are never compared with 1-based token columns."),
    "note": ("That two concrete spellings of one document yield identical canonical bytes is not decided: it rests on how the hand-written parser groups runtime token streams "
             "(spaces around ::, optional quotes, one-line vs multi-line lists). R03.1 evaluates the extracted regex constants with the stdlib re module, not repository code."),
}

CHECKS["C04"]["note"] = CHECKS["C04"]["note"] + ' Added after the second seeding round: R04.7 (no whole-text transformer / str.splitlines before the lexer), R04.8 (no untyped memoisation: True/1/1.0 share an lru_cache slot).'
CHECKS["C06"]["note"] = CHECKS["C06"]["note"] + ' Added after the second seeding round: R06.7 (every functools.lru_cache is typed=True; functools.cache unused).'
CHECKS["C08"]["note"] = CHECKS["C08"]["note"] + ' Added after the second seeding round: the unknown-field policy handed to the checker derives only from the schema (no caller-flag override).'
CHECKS["C09"]["note"] = CHECKS["C09"]["note"] + ' Added after the second seeding round: R09.7 (the lenient pre-pass protects every nested range).'
CHECKS["C10"]["note"] = CHECKS["C10"]["note"] + ' Added after the second seeding round: R10.9 (every non-exceptional path from a document change to the temp-file write re-emits the written text; flag-sensitive).'
CHECKS["C11"]["note"] = CHECKS["C11"]["note"] + ' Added after the second seeding round: R11.8 (the RepairLog is copied into corrections before any later step that can fail, exception edges included).'
CHECKS["C13"]["note"] = CHECKS["C13"]["note"] + ' Added after the second seeding round: R13.7 (a single NUMBER token is read as token.value, never as its lexeme).'
CHECKS["C14"]["note"] = CHECKS["C14"]["note"] + ' Added after the second seeding round: R14.6 (projection renderings use plain emit(doc)), R14.7 (list values are converted element by element); nested-META dicts are a value kind of their own in R14.1.'
CHECKS["C15"]["note"] = CHECKS["C15"]["note"] + ' Added after the second seeding round: R15.7 (the sealed copy carries nothing that the emitter writes after the sections).'
CHECKS["C16"]["note"] = CHECKS["C16"]["note"] + ' Added after the second seeding round: R16.8 (every success return is after os.replace or is the corrections_only dry run).'
CHECKS["C18"]["note"] = CHECKS["C18"]["note"] + ' Added after the second seeding round: R18.8 (the header of a nested META block is emitted unconditionally: present-but-empty is not absent).'
CHECKS["C19"]["note"] = CHECKS["C19"]["note"] + ' Added after the second seeding round: R19.8 (no expanduser/expandvars/normpath/realpath/abspath on user paths in tools, CLI and file_ops).'

# third seeding round (defects hidden in refactorings) and the repaired-twin precision runs
CHECKS["C02"]["note"] = CHECKS["C02"]["note"] + ' Added after the third seeding round: R02.10 (the read of <node>.leading_comments is on every path to a return of emit_assignment / emit_block / emit_section).'
CHECKS["C04"]["note"] = CHECKS["C04"]["note"] + ' A STRING branch in which nothing can decode is judged as the identity decoder (R04.1); a pattern branch none of whose value bindings can be a number is R04.5 (both used to end the run with exit 2).'
CHECKS["C10"]["note"] = CHECKS["C10"]["note"] + ' R10.3 additionally demands that the empty error list behind VALIDATED comes from a pass made with the same `strict` argument as the pass that judged the document; a filtered copy of the error list (severity != warning) is the deciding list.'
CHECKS["C14"]["note"] = CHECKS["C14"]["note"] + ' Added after the third seeding round: R14.8 (no key is dropped from an exported mapping because of its converted value, e.g. `if v is not None`).'
CHECKS["C17"]["note"] = CHECKS["C17"]["note"] + ' Added after the third seeding round: R17.10 (the temp file is removed on every path that leaves after a failed re-check); path facts are three-valued (None-or-error locals, text read is never None, base_hash truthiness).'

# fifth round (second build session)
CHECKS["C08"]["text"] = CHECKS["C08"]["text"] + (" Also: TYPE tests the value against a kind -> type table that is exactly STRING str, NUMBER int|float, BOOLEAN bool, LIST list, unknown kinds reject (R08.9); "
    "every accepting return of DATE lies past a shape test whose language is exactly dddd-dd-dd (automata, both inclusions) and past a completed fromisoformat/strptime of the value's text, ISO8601 past the completed parse (R08.10); "
    "REGEX compiles the schema's pattern without flags and applies match/fullmatch to str(value), acceptance only where the match held (R08.11).")
CHECKS["C08"]["note"] = CHECKS["C08"]["note"].replace("REGEX match semantics and anchoring, DATE/ISO8601 calendar validity", "what the re / datetime library calls themselves compute (assumed: CPython semantics)")
CHECKS["C01"]["text"] = CHECKS["C01"]["text"] + (" Also (second build session): indentation strings are judged as linear arithmetic in the nesting level - constant tables, sums, fallbacks, level aliases, pads used inline - and must have exactly 2*indent (own line) or 2*indent+2 (child line) spaces, every read of the level is accounted for or the run fails closed (R01.4); "
    "a bare-key Assignment is handed only to a parent whose emitter tests the key for emptiness (R01.8); a document name set outside the parser comes from another document's name, a constant, or a capture of the lexer's envelope-name pattern (R01.9); "
    "a token regex the automata engine cannot translate is decided on a family of number texts with the stdlib re module instead of being skipped (R01.5).")
CHECKS["C02"]["text"] = CHECKS["C02"]["text"] + " Also: numbers are spelled by str()/repr() only (R02.11 = R04.10); the indentation arithmetic of R01.4 is checked here too (R02.12): which parent a field belongs to is carried by indentation alone."
CHECKS["C03"]["text"] = CHECKS["C03"]["text"] + " Also: the INDENT token is built only where the character after the whole run of leading spaces is neither a space nor a newline - counting loop plus newline test, or a ` +` regex whose look-ahead excludes both (R03.11); R03.5 uses the linear indentation arithmetic of R01.4."
CHECKS["C04"]["text"] = CHECKS["C04"]["text"] + (" Also: numbers are spelled by str()/repr() only - no format spec, %-formatting, round() on the way from a value to its text (R04.10); no dict/tuple/set holding True/False is searched with a key not known to be a bool, since 1 == True (R04.11); "
    "bool-before-int is ordered by traversal position, not by line number (a helper read in place keeps its own line numbers).")
CHECKS["C05"]["text"] = CHECKS["C05"]["text"] + " Also: every application of the lexer's FENCE_PATTERN takes a line of the newline-split text unchanged - never a stripped or otherwise rewritten copy (R05.9)."
CHECKS["C06"]["text"] = CHECKS["C06"]["text"] + " Also: every open()/fdopen()/read_text()/write_text() in the package is binary or names its encoding (R06.8) - three genuine sites were found and repaired (repo commit e65cefb)."
CHECKS["C07"]["text"] = CHECKS["C07"]["text"] + " Also: the line-counting rule of C02 R02.9 (no str.splitlines in lexer/parser/emitter) is checked here as R07.6, receipts carry line numbers; R07.1b reads `pos = <m>.end()` with `column += <m>.end() - pos`."
CHECKS["C09"]["text"] = CHECKS["C09"]["text"] + " Also: a frontmatter block the emitter drops (blank) takes, in validate_frontmatter, a path that adds no error of its own and falls through to the per-field checks, or is routed to the absent branch (R09.8)."
CHECKS["C10"]["text"] = CHECKS["C10"]["text"] + " Also: schema names are never shortened with strip()/rstrip() of a word, which would let an unknown name select an existing schema (R10.10)."
CHECKS["C12"]["text"] = CHECKS["C12"]["text"] + " Also: every ' | '-joined group is built from a list that is non-empty - guarded, or ENUM values that the schema reader builds with a filter-free comprehension over str.split() (R12.6)."
CHECKS["C13"]["text"] = CHECKS["C13"]["text"] + " Also: the validator's ENUM accepts an exact member before prefix matching (R13.8 = C08 R08.8); the grammar derives every allowed value verbatim."
CHECKS["C14"]["text"] = CHECKS["C14"]["text"] + " Also: no lookup by equality/hash in a collection holding True/False with a key not known to be a bool (R14.9); custom YAML representers / Dumper / JSON default hooks used by eject and the CLI do not rewrite strings (R14.10)."
CHECKS["C15"]["text"] = CHECKS["C15"]["text"] + " Also: numbers are spelled by str()/repr() only, so that two different numbers never share a hashed text (R15.8 = R04.10)."
CHECKS["C16"]["text"] = CHECKS["C16"]["text"] + " Also: after os.replace has succeeded no error envelope is returned and no statement can raise into a handler that returns one (R16.9 = C17 R17.5); a read-only os.open is a read."
CHECKS["C17"]["text"] = CHECKS["C17"]["text"] + " Also: reader helpers are summarised - a strict reader of the target is a read, a tolerant one that can hand back a constant is not; R17.5 follows re-raises inside a handler only."
CHECKS["C18"]["text"] = CHECKS["C18"]["text"] + " Also: absence is never decided by truthiness - any()/all()/filter() over container values in the emitter judge each element with is_absent / isinstance Absent (R18.10)."
CHECKS["C19"]["text"] = CHECKS["C19"]["text"] + " Also: an extension test made through a helper is summarised as candidates ∩ allowed with candidates ⊆ {last suffix, last two joined} (R19.2); the digest function hashes the file's bytes as read (R19.5); names are not shortened with strip() of a word (R19.9)."
CHECKS["C20"]["text"] = CHECKS["C20"]["text"] + " Also: no Parser method does whole-list work on self.tokens (R20.6b); receipt records carry no value of unknown kind - an Any parameter, a parse_value() result - unless guarded by isinstance or converted (R20.5e); R20.1 accepts `pos = <m>.end()` after a module-level regex of minimum width >= 1 matched at pos."

# seventh seeding round and the RK refactoring corpus (second build session, later)
CHECKS["C02"]["text"] = CHECKS["C02"]["text"] + " The frontmatter delimiters the reader accepts are those the emitter writes (R02.13)."
CHECKS["C03"]["text"] = CHECKS["C03"]["text"] + " Text the parser rebuilds from tokens for verbatim emission never reads a token's normalized_from (R03.12)."
CHECKS["C04"]["text"] = CHECKS["C04"]["text"] + " The parser does not re-decide the kind of a scalar: parse_value / parse_list_item return a boolean / null made there only in a BOOLEAN / NULL token branch (R04.12)."
CHECKS["C05"]["text"] = CHECKS["C05"]["text"] + " In parse_literal_zone no rewriting call touches what flows into LiteralZoneValue(content, info_tag, fence_marker); only .strip() of the info tag (R05.10)."
CHECKS["C06"]["text"] = CHECKS["C06"]["text"] + " Path.resolve / absolute / os.path.abspath count as reads of the working directory in the pure pipeline (the two tool path validators are allow-listed with reasons)."
CHECKS["C07"]["text"] = CHECKS["C07"]["text"] + " A receipt filed without a position is stamped by a loop over everything appended since its producer was called, or before anything else can be appended (R07.7)."
CHECKS["C08"]["text"] = CHECKS["C08"]["text"] + " Every kind -> Python type table of the validation modules has the documented rows (sibling agreement, R08.9)."
CHECKS["C09"]["text"] = CHECKS["C09"]["text"] + " Module- and class-level state is never written after import (R09.9 = C06 R06.3): validating twice gives the same answer."
CHECKS["C13"]["text"] = CHECKS["C13"]["text"] + " Sibling kind tables agree with TYPE's own (R13.9 = R08.9)."
CHECKS["C15"]["text"] = CHECKS["C15"]["text"] + " The parser does not re-decide the kind of a scalar (R15.9 = R04.12): a sealed text read back with another kind of value would not verify."
CHECKS["C20"]["text"] = CHECKS["C20"]["text"] + " R20.5c also covers a str-only method called directly on a node's value (`child.value.strip()`) outside an isinstance(..., str) guard."

# eighth (small) seeding round
CHECKS["C11"]["text"] = CHECKS["C11"]["text"] + " Also: every value stored into <node>.value by the schema repair walk is, on every path, the result of repair_value(<that node>.value, <the field's own definition>) made in the same visit - never an outcome read back from a memo filled by another node (R11.9)."
CHECKS["C08"]["text"] = CHECKS["C08"]["text"] + " In TYPE, the kind the table is asked for and the kind the bool guard tests are the same expression (R08.9)."
CHECKS["C14"]["text"] = CHECKS["C14"]["text"] + " R14.8 also covers `if not <raw value>: continue` skips in the converters, and judges only key-level decisions (a test of a whole rendering keeps or drops no key)."
CHECKS["C10"]["text"] = CHECKS["C10"]["text"] + " In the CLI's write command no change of the parsed document is reachable after the Validator pass whose verdict is printed as validation_status (R10.11)."
