#!/usr/bin/env python3
"""Behaviour-preserving whole-tree transformations of a scratch copy of /repo/src, then every check must stay silent.
  reformat : every module replaced by ast.unparse(ast.parse(src)) (comments, layout, quoting style, parentheses gone)
  rename   : additionally every function-local variable (not a parameter, global, nonlocal or attribute) gets the suffix _v
usage: tools/robustness.py reformat|rename [PROP ...]"""
import ast
import os
import shutil
import subprocess
import symtable
import sys
import tempfile
from concurrent.futures import ThreadPoolExecutor

HERE = os.path.dirname(os.path.dirname(os.path.abspath(__file__)))
REPO = os.environ.get("OCTAVE_REPO", "/repo")


class Renamer(ast.NodeTransformer):
    def __init__(self):
        self.stack = []

    def _locals(self, fn):
        params = {a.arg for a in fn.args.args + fn.args.kwonlyargs + fn.args.posonlyargs}
        if fn.args.vararg:
            params.add(fn.args.vararg.arg)
        if fn.args.kwarg:
            params.add(fn.args.kwarg.arg)
        assigned, declared, nested_free = set(), set(), set()
        for n in ast.walk(fn):
            if isinstance(n, (ast.Global, ast.Nonlocal)):
                declared |= set(n.names)
        def walk(node, top):
            for ch in ast.iter_child_nodes(node):
                if isinstance(ch, (ast.FunctionDef, ast.AsyncFunctionDef, ast.Lambda, ast.ClassDef)) and not top is None:
                    # names used in nested scopes stay untouched (closures)
                    for x in ast.walk(ch):
                        if isinstance(x, ast.Name):
                            nested_free.add(x.id)
                    if isinstance(ch, (ast.FunctionDef, ast.AsyncFunctionDef, ast.ClassDef)):
                        nested_free.add(ch.name)
                    continue
                if isinstance(ch, ast.Name) and isinstance(ch.ctx, ast.Store):
                    assigned.add(ch.id)
                if isinstance(ch, (ast.ListComp, ast.SetComp, ast.DictComp, ast.GeneratorExp)):
                    for x in ast.walk(ch):
                        if isinstance(x, ast.Name):
                            nested_free.add(x.id)
                    continue
                if isinstance(ch, (ast.Import, ast.ImportFrom)):
                    for a in ch.names:
                        nested_free.add((a.asname or a.name).split(".")[0])
                if isinstance(ch, ast.ExceptHandler) and ch.name:
                    nested_free.add(ch.name)
                walk(ch, top)
        walk(fn, fn)
        return assigned - params - declared - nested_free

    def visit_FunctionDef(self, node):
        loc = self._locals(node)
        self.stack.append(loc)
        node.body = [self.visit(s) for s in node.body]
        self.stack.pop()
        return node

    visit_AsyncFunctionDef = visit_FunctionDef

    def visit_Name(self, node):
        if self.stack and node.id in self.stack[-1]:
            return ast.copy_location(ast.Name(id=node.id + "_v", ctx=node.ctx), node)
        return node

    def visit_Lambda(self, node):
        return node

    def visit_ListComp(self, node):
        return node

    visit_SetComp = visit_DictComp = visit_GeneratorExp = visit_ListComp

    def visit_ClassDef(self, node):
        self.stack.append(set())
        node.body = [self.visit(s) for s in node.body]
        self.stack.pop()
        return node


def main():
    mode = sys.argv[1]
    keep = "--keep" in sys.argv
    props = [a for a in sys.argv[2:] if not a.startswith("--")] or [f"C{n:02d}" for n in range(1, 21)]
    d = tempfile.mkdtemp(prefix="octacheck-robust-")
    try:
        dst = os.path.join(d, "src", "octave_mcp")
        shutil.copytree(os.path.join(REPO, "src", "octave_mcp"), dst, ignore=shutil.ignore_patterns("__pycache__"))
        n = 0
        for root, _dirs, files in os.walk(dst):
            for f in files:
                if f.endswith(".py"):
                    path = os.path.join(root, f)
                    tree = ast.parse(open(path, encoding="utf-8").read())
                    if mode == "rename":
                        tree = ast.fix_missing_locations(Renamer().visit(tree))
                    text = ast.unparse(tree) + "\n"
                    compile(text, path, "exec")
                    open(path, "w", encoding="utf-8").write(text)
                    n += 1
        print(f"{mode}: {n} modules rewritten in {d}")
        def run(p):
            r = subprocess.run([os.path.join(HERE, "check"), p, "--repo", d, "--no-evidence"], capture_output=True, text=True, cwd=HERE)
            lines = [l for l in (r.stdout + r.stderr).splitlines() if l.startswith(("VIOLATION", "ANALYSIS-ERROR")) or l.startswith("  construct") or " rule=" in l]
            return p, r.returncode, lines[:9]
        with ThreadPoolExecutor(max_workers=8) as ex:
            for p, rc, lines in ex.map(run, props):
                print(p, "exit", rc)
                for l in lines:
                    print("    ", l[:220])
    finally:
        if keep:
            print("kept:", d)
        else:
            shutil.rmtree(d, ignore_errors=True)


if __name__ == "__main__":
    main()
