#!/usr/bin/env python3
"""Write octacheck/known_functions.json: the qualified names of every function of the package as it is today (the tree the
rules were confirmed against). A same-module helper that is NOT in this list was introduced later (an "extract method"
refactoring); the source model reads such helpers in place (octacheck.inline) instead of guessing what they do.
usage: tools/mkknown.py   (re-run only when re-pinning the rules against a new tree)"""
import json
import os
import sys

HERE = os.path.dirname(os.path.dirname(os.path.abspath(__file__)))
sys.path.insert(0, HERE)
os.environ["OCTACHECK_NO_INLINE"] = "1"
from octacheck.source import Project  # noqa: E402

p = Project(os.environ.get("OCTAVE_REPO", "/repo"))
from octacheck.inline import body_digest  # noqa: E402

# qualified name -> digest of the body (so that a helper that was merely RENAMED is recognised as the old one, not as new)
out = {m.name: {q: body_digest(f.node) for q, f in sorted(m.functions.items())} for m in p.modules.values()}
for m in p.modules.values():
    out[m.name]["<classes>"] = " ".join(sorted(m.classes))  # classes of the pinned tree (a record class that is not listed is new)
import ast  # noqa: E402

for m in p.modules.values():
    # module-level names of the pinned tree (a module-level constant that is not listed is new: e.g. a regex that used to be
    # written at its use and is now compiled once at module level)
    names = set()
    for st in m.tree.body:
        for t in (st.targets if isinstance(st, ast.Assign) else [st.target] if isinstance(st, (ast.AnnAssign, ast.AugAssign)) else []):
            names |= {x.id for x in ast.walk(t) if isinstance(x, ast.Name)}
    out[m.name]["<consts>"] = " ".join(sorted(names))
json.dump(out, open(os.path.join(HERE, "octacheck", "known_functions.json"), "w"), indent=0, sort_keys=True)
print(sum(len(v) for v in out.values()), "functions in", len(out), "modules")
