#!/usr/bin/env python3
"""Apply each behaviour-preserving refactoring under /verif/refactors/<name>/patch.diff to a scratch worktree of /repo HEAD
(under /tmp, removed afterwards) and run ALL checks on it: every check must stay silent (exit 0). Writes refactors/RESULTS.json.
usage: tools/refrun.py [NAME ...]"""
import json
import os
import subprocess
import sys
import tempfile
from concurrent.futures import ThreadPoolExecutor

HERE = os.path.dirname(os.path.dirname(os.path.abspath(__file__)))
PROPS = [f"C{n:02d}" for n in range(1, 21)]


def sh(*a, **k):
    return subprocess.run(a, capture_output=True, text=True, **k)


def main():
    names = sys.argv[1:] or sorted(d for d in os.listdir(os.path.join(HERE, "refactors")) if os.path.isdir(os.path.join(HERE, "refactors", d)))
    wt = tempfile.mkdtemp(prefix="octacheck-ref-")
    os.rmdir(wt)
    assert sh("git", "-C", "/repo", "worktree", "add", "-q", "--detach", wt, "HEAD").returncode == 0
    results = {}
    try:
        for name in names:
            patch = os.path.join(HERE, "refactors", name, "patch.diff")
            sh("git", "-C", wt, "reset", "-q", "--hard", "HEAD")
            sh("git", "-C", wt, "clean", "-fdq")
            r = sh("git", "-C", wt, "apply", patch)
            if r.returncode != 0:
                r = sh("git", "-C", wt, "apply", "--3way", patch)
            if r.returncode != 0:
                results[name] = {"status": "PATCH-CONFLICT"}
                print(f"{name:8s} PATCH-CONFLICT")
                continue

            def run(p):
                c = sh(os.path.join(HERE, "check"), p, "--repo", wt, "--no-evidence", cwd=HERE)
                out = c.stdout + c.stderr
                rules = sorted({l.split("rule=")[1].split()[0] for l in out.splitlines() if " rule=" in l and not l.startswith("KNOWN")})
                errs = [l[:200] for l in out.splitlines() if l.startswith("ANALYSIS-ERROR")][:3]
                return p, c.returncode, rules, errs

            with ThreadPoolExecutor(max_workers=10) as ex:
                res = list(ex.map(run, PROPS))
            bad = {p: {"rc": rc, "rules": rules, "errors": errs} for p, rc, rules, errs in res if rc != 0}
            results[name] = {"status": "SILENT" if not bad else "NOISY", "noisy": bad}
            print(f"{name:8s} {'SILENT' if not bad else 'NOISY  ' + json.dumps({p: (v['rc'], v['rules'] or v['errors'][:1]) for p, v in bad.items()})[:600]}")
    finally:
        sh("git", "-C", "/repo", "worktree", "remove", "--force", wt)
    out = os.path.join(HERE, "refactors", "RESULTS.json")
    if sys.argv[1:] and os.path.exists(out):  # partial run: merge into the recorded table
        merged = json.load(open(out))
        merged.update(results)
        results = merged
    json.dump(dict(sorted(results.items())), open(out, "w"), indent=1)
    n = sum(1 for v in results.values() if v["status"] == "SILENT")
    print(f"{n}/{len(results)} refactorings leave all 20 checks silent")


if __name__ == "__main__":
    main()
