#!/bin/sh
# usage: tools/take5.sh <Sx> <k> <name>  -- confirm /tmp/wt/out/<Sx>/<k> as seeded/<name> (round 5) and run its property's check
/verif/tools/confirm_seed.sh /tmp/wt/out/$1/$2 $3 2>&1 | tail -2
[ -f /verif/seeded/$3/meta.json ] && python3 - /verif/seeded/$3/meta.json <<'PY'
import json,sys
m=json.load(open(sys.argv[1])); m["round"]=int(__import__("os").environ.get("ROUND","5")); json.dump(m,open(sys.argv[1],'w'),indent=1)
PY
