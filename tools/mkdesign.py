#!/usr/bin/env python3
"""Regenerate the machine-derived appendix of DESIGN.md (between the AUTO markers) from what the machinery itself
recorded: rule inventory (evidence/*.json), genuine defects (known_findings.json), seeded changes (seeded/*/meta.json +
seeded/RESULTS.json) and the both-ways variants (octacheck/variants/*.py)."""
import glob
import importlib
import json
import os
import sys

HERE = os.path.dirname(os.path.dirname(os.path.abspath(__file__)))
sys.path.insert(0, HERE)
BEGIN = "<!-- AUTO:BEGIN (tools/mkdesign.py) -->"
END = "<!-- AUTO:END -->"


def short(s, n):
    s = " ".join(str(s).split())
    return s if len(s) <= n else s[: n - 1] + "…"


def main():
    out = [BEGIN, ""]
    # ---------------------------------------------------------------- rule inventory
    out.append("### A.1 Rule inventory as implemented (from `evidence/*.json` of the last run on the unchanged tree)\n")
    out.append("`inst.` = rule instances examined on the current tree (the run fails as analysis-broken when the count drops below `min`); `find.` = findings, all of them listed known findings.\n")
    for f in sorted(glob.glob(os.path.join(HERE, "evidence", "C*.json"))):
        e = json.load(open(f))
        cov = e["coverage"]
        n_var = 0
        try:
            n_var = len(importlib.import_module(f"octacheck.variants.{e['property_id'].lower()}").VARIANTS)
        except Exception:  # noqa: BLE001
            pass
        out.append(f"**{e['property_id']}** — {cov.get('obligations', '?')} obligations, {cov.get('discharged', '?')} discharged, {len(cov.get('known_findings_matched', []))} known finding(s); {n_var} both-ways variants; tree digest `{cov.get('tree_digest', '')[:12]}`\n")
        out.append("| rule | decides | inst. | min | find. |")
        out.append("|---|---|---|---|---|")
        for r in cov.get("rules", []):
            out.append(f"| {r['rule']} | {short(r['text'], 330)} | {r['instances']} | {r['min_instances']} | {r['findings']} |")
        out.append("")
    # ---------------------------------------------------------------- defects
    kf = json.load(open(os.path.join(HERE, "known_findings.json")))
    out.append("### A.2 Genuine defects repaired in `/repo` (`fix:` commits; the unedited suite passes with each)\n")
    out.append("| property / rule | commit | what failed (input, call site or history) |")
    out.append("|---|---|---|")
    for x in kf["fixed"]:
        out.append(f"| {x['property']} {x.get('rule', '')} | `{x['commit']}` | {short(x['what'], 420)} |")
    out.append("")
    out.append("### A.3 Genuine defects recorded, not repaired (`known_findings.json`; printed as `KNOWN-FINDING`, exit 0)\n")
    out.append("| property / rule | where | what fails |")
    out.append("|---|---|---|")
    for x in kf["known"]:
        out.append(f"| {x['property']} {x['rule']} | `{x['module'].split('/')[-1]}:{x['function']}` — {short(x['construct'], 70)} | {short(x['what'], 420)} |")
    out.append("")
    # ---------------------------------------------------------------- seeds
    res = json.load(open(os.path.join(HERE, "seeded", "RESULTS.json")))
    out.append("### A.4 Seeded changes (made by sub-agents that saw only the property text; each confirmed by the main session: compiles, suite unchanged, demonstration passes before / fails after)\n")
    out.append("| seed | change (site; what it needs to manifest) | outcome | rule(s) that report it |")
    out.append("|---|---|---|---|")
    for d in sorted(glob.glob(os.path.join(HERE, "seeded", "C*"))):
        name = os.path.basename(d)
        m = json.load(open(os.path.join(d, "meta.json")))
        r = res.get(name, {})
        fired = ", ".join(sorted({x for v in r.get("fired", {}).values() for x in v if x.startswith("R")}))
        status = r.get("status", "not run")
        if m.get("status") == "neutralised":
            status = "neutralised by a later repo fix"
        out.append(f"| {name} | {short(m['summary'], 260)} — *needs:* {short(m['needs_to_manifest'], 140)} | {status} | {fired} |")
    out.append("")
    n = len(res)
    caught = sum(1 for v in res.values() if v.get("status") == "CAUGHT")
    neut = sum(1 for v in res.values() if v.get("status") == "NEUTRALISED")
    out.append(f"Totals: {n} confirmed seeded changes; {caught} reported by the check of their own property, {neut} neutralised by a later `fix:` commit (the change no longer breaks the property on the repaired tree), {n - caught - neut} missed.\n")
    out.append(END)
    path = os.path.join(HERE, "DESIGN.md")
    text = open(path, encoding="utf-8").read()
    block = "\n".join(out)
    if BEGIN in text and END in text:
        a, b = text.index(BEGIN), text.index(END) + len(END)
        text = text[:a] + block + text[b:]
    else:
        text = text.rstrip("\n") + "\n\n## Appendix A. Machine-derived inventory\n\n" + block + "\n"
    open(path, "w", encoding="utf-8").write(text)
    print(f"DESIGN.md appendix regenerated: {len(out)} lines")


if __name__ == "__main__":
    main()
