#!/bin/sh
# usage: tools/savetwin.sh <worktree with the repaired twin> <seed name> "<what was repaired>"  -- stores refactors/RT-<seed>/
W="$1"; S="$2"; WHAT="$3"
D=/verif/refactors/RT-$S; mkdir -p "$D"
git -C "$W" diff HEAD -- src > "$D/patch.diff"
/venv/bin/python - "$D/meta.json" "$S" "$WHAT" <<'PY'
import json, sys
json.dump({"area": "RT", "summary": f"repaired twin of seeded change {sys.argv[2]}: the sub-agent's refactoring with its defect corrected by the main session ({sys.argv[3]}); the seed's own demonstration passes on it", "derived_from": f"seeded/{sys.argv[2]}", "demo": "seed demo.py exits 0 (PASS) on this tree"}, open(sys.argv[1], "w"), indent=1)
PY
echo saved $D
