#!/bin/sh
# usage: tools/confirm_seed.sh <src-dir with patch.diff demo.py meta.json> <name>
# Confirms a seeded change in a scratch worktree of /repo's HEAD: demo passes before, fails after, suite unchanged.
# On success copies it to /verif/seeded/<name>/ with the confirmation appended to meta.json.
SRC="$1"; NAME="$2"
WT=$(mktemp -d /tmp/confirm-XXXXXX)
rmdir "$WT"
git -C /repo worktree add -q --detach "$WT" HEAD || exit 2
cleanup() { git -C /repo worktree remove --force "$WT" >/dev/null 2>&1; rm -rf "$WT"; }
trap cleanup EXIT
cd "$WT" || exit 2
# demos refer to the agent's worktree path; point them at this one
sed -E "s#/tmp/wt/(C[0-9]+[a-z]?|S[0-9]+)([^0-9a-zA-Z]|$)#$WT\2#g" "$SRC/demo.py" > "$WT/_demo.py"
PYTHONPATH="$WT/src" timeout 300 /venv/bin/python "$WT/_demo.py" > "$WT/_before.log" 2>&1; B=$?
if ! git apply --3way "$SRC/patch.diff" > "$WT/_apply.log" 2>&1; then echo "$NAME: PATCH-CONFLICT"; cat "$WT/_apply.log" | tail -3; exit 1; fi
git diff HEAD -- src > "$WT/_rebased.diff"
PYTHONPATH="$WT/src" timeout 300 /venv/bin/python "$WT/_demo.py" > "$WT/_after.log" 2>&1; A=$?
rm -f "$WT/_demo.py.bak"
S=$(/tmp/wt/suite.sh "$WT" 2>&1)
PASSED=$(echo "$S" | grep -oE "[0-9]+ passed" | head -1)
NEW=$(echo "$S" | sed -n '/failures not in baseline/,/(end)/p' | grep -vE "^---" | wc -l)
echo "$NAME: demo_before=$B demo_after=$A suite='$PASSED' new_failures=$NEW"
if [ "$B" = 0 ] && [ "$A" != 0 ] && [ "$PASSED" = "2382 passed" ] && [ "$NEW" = 0 ]; then
  mkdir -p "/verif/seeded/$NAME"
  cp "$WT/_rebased.diff" "/verif/seeded/$NAME/patch.diff"
  cp "$SRC/demo.py" "/verif/seeded/$NAME/demo.py"
  /venv/bin/python - "$SRC/meta.json" "/verif/seeded/$NAME/meta.json" "$(git -C /repo rev-parse --short HEAD)" <<'PY'
import json, sys
m = json.load(open(sys.argv[1]))
m["confirmed_by_main_session"] = {"base_commit": sys.argv[3], "demo_unmodified_exit": 0, "demo_modified_exit": "non-zero", "suite": "2382 passed, no failures outside the baseline list", "how": "tools/confirm_seed.sh in a scratch worktree of /repo HEAD (removed afterwards)"}
json.dump(m, open(sys.argv[2], "w"), indent=1)
PY
  echo "$NAME: CONFIRMED"
else
  echo "$NAME: NOT-CONFIRMED"; tail -5 "$WT/_before.log" "$WT/_after.log"
fi
