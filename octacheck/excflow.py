"""Exception-escape analysis (C20 R20.5): which exception classes can leave a function.

Sources of exceptions
* every explicit `raise X(...)` / `raise X` / `raise <local bound to a call whose return annotation names X>`;
  a bare `raise` inside a handler re-raises the classes the handler catches;
* a table of library calls that raise on data (LIB_CALLS, LIB_METHODS): int()/float() on non-literal text, re.compile on
  a non-constant pattern, json.loads/dumps, yaml.safe_load/dump, str.index/list.index, filesystem reads.
  Index/key/attribute errors of ordinary subscripts and attribute access are NOT modelled (see DESIGN, C20 "not decided").

Propagation: an exception raised at a statement escapes the function unless an enclosing `try` of that function has a handler
naming the class or one of its ancestors (repo classes: bases from the parsed class definitions; builtins and the few library
classes: a static table). Calls propagate the callee's escaping set (call graph from resolve.Resolver), filtered the same way at
the call site. Fixpoint over the whole package.
"""
from __future__ import annotations

import ast
import builtins
from dataclasses import dataclass, field

from .resolve import Resolver
from .source import FuncInfo, Project, walk_no_nested

LIB_EXC_BASES = {
    "error": ["Exception"],  # re.error
    "PatternError": ["Exception"],
    "JSONDecodeError": ["ValueError", "Exception"],
    "YAMLError": ["Exception"],
    "ScannerError": ["YAMLError", "Exception"],
    "ParserError_yaml": ["YAMLError", "Exception"],
}

# dotted callee -> exception classes it raises on data (first positional argument not a literal)
LIB_CALLS = {
    "int": {"ValueError"},
    "float": {"ValueError"},  # + OverflowError when the argument may be an int (see _lib)
    "re.compile": {"error", "OverflowError", "RecursionError"},
    "json.loads": {"JSONDecodeError", "RecursionError"},
    "json.load": {"JSONDecodeError", "RecursionError", "OSError"},
    "json.dumps": {"TypeError", "ValueError"},
    "json.dump": {"TypeError", "ValueError", "OSError"},
    "yaml.safe_load": {"YAMLError", "RecursionError"},
    "yaml.load": {"YAMLError", "RecursionError"},
    "yaml.dump": {"YAMLError", "RecursionError"},
    "yaml.safe_dump": {"YAMLError", "RecursionError"},
    "open": {"OSError"},
}
LIB_METHODS = {
    "index": {"ValueError"},
    "rindex": {"ValueError"},
    "read_text": {"OSError", "UnicodeDecodeError"},
    "read_bytes": {"OSError"},
    "write_text": {"OSError"},
    "write_bytes": {"OSError"},
    "resolve": {"OSError", "RuntimeError"},
}


@dataclass(frozen=True)
class Origin:
    exc: str
    fqn: str  # function in which the exception originates
    construct: str  # normalised text of the raising construct
    lineno: int


@dataclass
class FuncExc:
    fi: FuncInfo
    local: set[Origin] = field(default_factory=set)
    calls: list[tuple[ast.Call, list[set[str]]]] = field(default_factory=list)
    escapes: set[Origin] = field(default_factory=set)


class ExcFlow:
    def __init__(self, project: Project, res: Resolver, const_regex_args: set[tuple[str, str]] | None = None):
        self.p = project
        self.res = res
        self.repo_classes = {}
        for m in project.modules.values():
            for ci in m.classes.values():
                self.repo_classes.setdefault(ci.name, ci)
        self._anc: dict[str, frozenset[str]] = {}
        self.funcs: dict[str, FuncExc] = {}
        self.const_regex_args = const_regex_args or set()
        for fi in project.all_functions():
            self.funcs[fi.fqn] = self._analyse(fi)
        self._lib()
        self._fix()

    # ------------------------------------------------------------------ class hierarchy
    def ancestors(self, name: str) -> frozenset[str]:
        if name in self._anc:
            return self._anc[name]
        self._anc[name] = frozenset([name])
        out = {name}
        c = getattr(builtins, name, None)
        if isinstance(c, type) and issubclass(c, BaseException) and name not in self.repo_classes:
            out |= {b.__name__ for b in c.__mro__ if b is not object}
        elif name in self.repo_classes:
            for base in self.repo_classes[name].bases:
                out |= self.ancestors(base.split(".")[-1])
        elif name in LIB_EXC_BASES:
            for b in LIB_EXC_BASES[name]:
                out |= self.ancestors(b)
        else:
            out |= {"Exception", "BaseException"}
        self._anc[name] = frozenset(out)
        return self._anc[name]

    def caught(self, exc: str, stack: list[set[str]]) -> bool:
        anc = self.ancestors(exc)
        return any(anc & names for names in stack)

    @staticmethod
    def handler_names(h: ast.ExceptHandler) -> set[str]:
        if h.type is None:
            return {"BaseException"}
        ts = h.type.elts if isinstance(h.type, ast.Tuple) else [h.type]
        return {ast.unparse(t).split(".")[-1] for t in ts}

    # ------------------------------------------------------------------ per function
    def _raised_classes(self, fi: FuncInfo, r: ast.Raise, handler_ctx: list[set[str]]) -> set[str]:
        if r.exc is None:
            return set(handler_ctx[-1]) if handler_ctx else {"Exception"}
        e = r.exc.func if isinstance(r.exc, ast.Call) else r.exc
        if isinstance(e, ast.Name) and e.id not in self.repo_classes and not isinstance(getattr(builtins, e.id, None), type):
            # a local variable holding an exception instance: find what it was bound to
            out: set[str] = set()
            for n in walk_no_nested(fi.node):
                if isinstance(n, ast.Assign) and any(isinstance(t, ast.Name) and t.id == e.id for t in n.targets) and isinstance(n.value, ast.Call):
                    for c in self.res.resolve_call(fi, n.value):
                        if c.kind == "repo" and c.func is not None:
                            ret = getattr(c.func.node, "returns", None)
                            if c.func.name == "__init__" and c.func.cls:
                                out.add(c.func.cls)
                            elif ret is not None:
                                for nm in ast.walk(ret):
                                    if isinstance(nm, ast.Name) and nm.id in self.repo_classes and "Exception" in self.ancestors(nm.id):
                                        out.add(nm.id)
                if isinstance(n, ast.ExceptHandler) and n.name == e.id:
                    out |= self.handler_names(n)
            return out or {"Exception"}
        return {ast.unparse(e).split(".")[-1]}

    def _analyse(self, fi: FuncInfo) -> FuncExc:
        fx = FuncExc(fi)

        def exprs_of(st: ast.stmt) -> list[ast.AST]:
            if isinstance(st, (ast.If, ast.While)):
                return [st.test]
            if isinstance(st, (ast.For, ast.AsyncFor)):
                return [st.iter]
            if isinstance(st, (ast.With, ast.AsyncWith)):
                return [i.context_expr for i in st.items]
            if st.__class__.__name__ == "Match":
                return [st.subject]  # type: ignore[attr-defined]
            return [st]

        def walk(stmts: list[ast.stmt], stack: list[set[str]], hctx: list[set[str]]) -> None:
            for st in stmts:
                if isinstance(st, (ast.FunctionDef, ast.AsyncFunctionDef, ast.ClassDef)):
                    continue
                if isinstance(st, ast.Try) or st.__class__.__name__ == "TryStar":
                    hs = [self.handler_names(h) for h in st.handlers]
                    walk(st.body, stack + hs, hctx)
                    for h in st.handlers:
                        walk(h.body, stack, hctx + [self.handler_names(h)])
                    walk(st.orelse, stack, hctx)
                    walk(st.finalbody, stack, hctx)
                    continue
                for h in exprs_of(st):
                    for n in walk_no_nested(h):
                        if isinstance(n, ast.Raise) and getattr(n, "_implicit_raise", False):
                            continue  # written out by the source model for what a subscript / call did implicitly (octacheck.dispatch)
                        if isinstance(n, ast.Raise):
                            for nm in self._raised_classes(fi, n, hctx):
                                if not self.caught(nm, stack):
                                    fx.local.add(Origin(nm, fi.fqn, " ".join(ast.unparse(n).split())[:120], n.lineno))
                        elif isinstance(n, ast.Call):
                            fx.calls.append((n, list(stack)))
                for f in ("body", "orelse"):
                    v = getattr(st, f, None)
                    if isinstance(v, list) and v and isinstance(v[0], ast.stmt):
                        walk(v, stack, hctx)
                if st.__class__.__name__ == "Match":
                    for case in st.cases:  # type: ignore[attr-defined]
                        walk(case.body, stack, hctx)

        walk(fi.node.body, [], [])  # type: ignore[attr-defined]
        fx.escapes = set(fx.local)
        return fx

    def _lib(self) -> None:
        for fx in self.funcs.values():
            fi = fx.fi
            for call, stack in fx.calls:
                d = self.res.dotted_of(fi, fi.module, call.func)
                if d and d.startswith("builtins."):
                    d = d[len("builtins."):]
                raises: set[str] = set()
                if d in LIB_CALLS:
                    if call.args and isinstance(call.args[0], ast.Constant):
                        continue
                    if d in ("int", "float") and not call.args:
                        continue
                    if d == "re.compile" and (fi.fqn, ast.unparse(call.args[0]) if call.args else "") in self.const_regex_args:
                        continue
                    raises = LIB_CALLS[d]
                    if d == "float" and call.args and isinstance(call.args[0], ast.Name):
                        # float(<str>) overflows to inf, float(<int>) raises OverflowError: modelled where the function itself
                        # treats the argument as a possible int (an isinstance test naming int on it)
                        a0 = call.args[0].id
                        if any(isinstance(t, ast.Call) and isinstance(t.func, ast.Name) and t.func.id == "isinstance" and len(t.args) == 2 and isinstance(t.args[0], ast.Name) and t.args[0].id == a0 and "int" in ast.unparse(t.args[1]).replace("print", "") for t in ast.walk(fi.node)):
                            raises = raises | {"OverflowError"}
                elif isinstance(call.func, ast.Attribute) and call.func.attr in LIB_METHODS and not any(c.kind == "repo" for c in self.res.resolve_call(fi, call)):
                    raises = LIB_METHODS[call.func.attr]
                for e in raises:
                    if not self.caught(e, stack):
                        fx.escapes.add(Origin(e, fi.fqn, " ".join(ast.unparse(call).split())[:120], call.lineno))

    def _fix(self) -> None:
        resolved: dict[str, list[tuple[list[set[str]], str]]] = {}
        for k, fx in self.funcs.items():
            out = []
            for call, stack in fx.calls:
                for c in self.res.resolve_call(fx.fi, call):
                    if c.kind == "repo" and c.func is not None and c.func.fqn in self.funcs:
                        out.append((stack, c.func.fqn))
            resolved[k] = out
        changed = True
        while changed:
            changed = False
            for k, fx in self.funcs.items():
                for stack, callee in resolved[k]:
                    for o in self.funcs[callee].escapes:
                        if o not in fx.escapes and not self.caught(o.exc, stack):
                            fx.escapes.add(o)
                            changed = True

    # ------------------------------------------------------------------ queries
    def escapes(self, fqn: str) -> set[Origin]:
        return self.funcs[fqn].escapes

    def trace(self, root: str, o: Origin, limit: int = 12) -> list[str]:
        """one call chain root -> ... -> origin function along which the exception is not caught"""
        seen = {root}
        q = [(root, [root])]
        while q:
            cur, path = q.pop(0)
            if cur == o.fqn:
                return path
            fx = self.funcs[cur]
            for call, stack in fx.calls:
                if self.caught(o.exc, stack):
                    continue
                for c in self.res.resolve_call(fx.fi, call):
                    if c.kind == "repo" and c.func is not None and c.func.fqn in self.funcs and c.func.fqn not in seen and o in self.funcs[c.func.fqn].escapes:
                        seen.add(c.func.fqn)
                        q.append((c.func.fqn, path + [c.func.fqn]))
        return [root, "...", o.fqn]
