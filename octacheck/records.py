"""New NamedTuple classes read as the plain tuples they are.

A maintainer may replace an anonymous tuple `(start, end, marker, tag)` that travels between functions by a NamedTuple
`FenceSpan(start, end, marker, info_tag)`: same object layout, same unpacking, same comparisons - only the spelling of the
accesses changes (`span.end` instead of `span[1]` or of a name bound by unpacking). For NamedTuple classes that the pinned
tree does not have, the source model rewrites its parsed copy back to the tuple spelling:

  1. `R(a, b, c=x)`                      ->  `(a, b, x)` in field order (class defaults filled in)
  2. `e.field` where e has type R        ->  `e[i]`
  3. a local `v` bound once to an R-typed expression and read only as `v[i]`
                                         ->  `v_f0, v_f1, ... = <expr>` and the reads become those names
     a comprehension / for target `v` over a collection of R read only as `v[i]`
                                         ->  target `(f0, f1, ...)` and the reads become the field names

Types come from annotations only (parameters, annotated assignments, return annotations of functions of the same module):
`R`, `R | None`, `Optional[R]`, `list[R]`, `Sequence[R]`, `Iterator[R]`, `tuple[A, list[R]]`; through subscripts of an R
collection, iteration over it, tuple unpacking of an annotated tuple, and plain name copies. An access whose receiver type is
not established this way is left alone.
"""
from __future__ import annotations

import ast


def _fields_and_defaults(cls: ast.ClassDef) -> tuple[list[str], dict[str, ast.AST]]:
    fields, defaults = [], {}
    for st in cls.body:
        if isinstance(st, ast.AnnAssign) and isinstance(st.target, ast.Name):
            fields.append(st.target.id)
            if st.value is not None:
                defaults[st.target.id] = st.value
    return fields, defaults


class _Ty:
    """tiny type terms: ('R', name) | ('coll', T) | ('tuple', [T...]) | None"""


def _parse_ann(a: ast.AST | None, recs: set[str]):
    if a is None:
        return None
    if isinstance(a, ast.Constant) and isinstance(a.value, str):
        try:
            a = ast.parse(a.value, mode="eval").body
        except SyntaxError:
            return None
    if isinstance(a, ast.Name):
        return ("R", a.id) if a.id in recs else None
    if isinstance(a, ast.BinOp) and isinstance(a.op, ast.BitOr):
        l, r = _parse_ann(a.left, recs), _parse_ann(a.right, recs)
        return l or r
    if isinstance(a, ast.Subscript):
        base = ast.unparse(a.value).split(".")[-1]
        sl = a.slice
        if base == "Optional":
            return _parse_ann(sl, recs)
        if base in ("list", "List", "Sequence", "Iterable", "Iterator", "Collection", "set", "frozenset", "Generator"):
            inner = _parse_ann(sl.elts[0] if isinstance(sl, ast.Tuple) else sl, recs)
            return ("coll", inner) if inner else None
        if base in ("tuple", "Tuple"):
            elts = sl.elts if isinstance(sl, ast.Tuple) else [sl]
            if len(elts) == 2 and isinstance(elts[1], ast.Constant) and elts[1].value is Ellipsis:
                inner = _parse_ann(elts[0], recs)
                return ("coll", inner) if inner else None
            ts = [_parse_ann(e, recs) for e in elts]
            return ("tuple", ts) if any(ts) else None
    return None


def tuple_view(tree: ast.Module, new_records: dict[str, ast.ClassDef]) -> int:
    """apply the three rewrites to `tree` in place; returns the number of nodes rewritten"""
    recs = set(new_records)
    info = {n: _fields_and_defaults(c) for n, c in new_records.items()}
    changed = [0]
    returns: dict[str, object] = {}
    for n in ast.walk(tree):
        if isinstance(n, (ast.FunctionDef, ast.AsyncFunctionDef)):
            t = _parse_ann(n.returns, recs)
            if t:
                returns[n.name] = t

    def set_parents(root: ast.AST) -> None:
        for p in ast.walk(root):
            for c in ast.iter_child_nodes(p):
                c._parent = p  # type: ignore[attr-defined]

    def replace(old: ast.AST, new: ast.AST) -> None:
        par = getattr(old, "_parent", None)
        ast.copy_location(new, old)
        ast.fix_missing_locations(new)
        new._parent = par  # type: ignore[attr-defined]
        set_parents(new)
        for fld, val in ast.iter_fields(par):
            if val is old:
                setattr(par, fld, new)
            elif isinstance(val, list) and old in val:
                val[val.index(old)] = new
        changed[0] += 1

    for fn in [n for n in ast.walk(tree) if isinstance(n, (ast.FunctionDef, ast.AsyncFunctionDef))]:
        env: dict[str, object] = {}
        a = fn.args
        for p in a.posonlyargs + a.args + a.kwonlyargs:
            t = _parse_ann(p.annotation, recs)
            if t:
                env[p.arg] = t

        def ty(e: ast.AST):
            if isinstance(e, ast.Name):
                return env.get(e.id)
            if isinstance(e, ast.Call):
                f = e.func
                nm = f.id if isinstance(f, ast.Name) else f.attr if isinstance(f, ast.Attribute) else None
                if nm in recs:
                    return ("R", nm)
                return returns.get(nm) if nm else None
            if isinstance(e, ast.Subscript):
                t = ty(e.value)
                if t and t[0] == "coll":
                    return t[1]
                if t and t[0] == "tuple" and isinstance(e.slice, ast.Constant) and isinstance(e.slice.value, int) and e.slice.value < len(t[1]):
                    return t[1][e.slice.value]
            if isinstance(e, ast.IfExp):
                return ty(e.body) or ty(e.orelse)
            return None

        def bind(target: ast.AST, t) -> None:
            if t is None:
                return
            if isinstance(target, ast.Name):
                env.setdefault(target.id, t)
            elif isinstance(target, (ast.Tuple, ast.List)) and t[0] == "tuple" and len(target.elts) == len(t[1]):
                for el, te in zip(target.elts, t[1]):
                    bind(el, te)

        for _round in range(3):
            for n in ast.walk(fn):
                if isinstance(n, ast.AnnAssign) and isinstance(n.target, ast.Name):
                    bind(n.target, _parse_ann(n.annotation, recs) or (ty(n.value) if n.value is not None else None))
                elif isinstance(n, ast.Assign):
                    t = ty(n.value)
                    for tg in n.targets:
                        bind(tg, t)
                elif isinstance(n, (ast.For, ast.AsyncFor)):
                    t = ty(n.iter)
                    if t and t[0] == "coll":
                        bind(n.target, t[1])
                elif isinstance(n, ast.comprehension):
                    t = ty(n.iter)
                    if t and t[0] == "coll":
                        bind(n.target, t[1])
                elif isinstance(n, ast.NamedExpr):
                    bind(n.target, ty(n.value))

        # 2. e.field -> e[i]
        for n in [x for x in ast.walk(fn) if isinstance(x, ast.Attribute) and isinstance(x.ctx, ast.Load)]:
            t = ty(n.value)
            if t and t[0] == "R" and n.attr in info[t[1]][0]:
                replace(n, ast.Subscript(value=n.value, slice=ast.Constant(value=info[t[1]][0].index(n.attr)), ctx=ast.Load()))

        # 3a. comprehension targets read only by constant index (their own scope)
        def const_sub(x: ast.AST, nfields: int) -> bool:
            par = getattr(x, "_parent", None)
            return isinstance(par, ast.Subscript) and par.value is x and isinstance(par.slice, ast.Constant) and isinstance(par.slice.value, int) and 0 <= par.slice.value < nfields and isinstance(par.ctx, ast.Load)

        all_used = {x.id for x in ast.walk(fn) if isinstance(x, ast.Name)} | {p.arg for p in a.posonlyargs + a.args + a.kwonlyargs}
        comp_scoped: set[int] = set()
        for comp in [c for c in ast.walk(fn) if isinstance(c, (ast.ListComp, ast.SetComp, ast.GeneratorExp, ast.DictComp))]:
            for g in comp.generators:
                if not isinstance(g.target, ast.Name):
                    continue
                t = ty(g.iter)
                if not (t and t[0] == "coll" and t[1] and t[1][0] == "R"):
                    continue
                fields = info[t[1][1]][0]
                nm = g.target.id
                inside = [x for x in ast.walk(comp) if isinstance(x, ast.Name) and x.id == nm]
                for x in inside:
                    comp_scoped.add(id(x))
                loads = [x for x in inside if isinstance(x.ctx, ast.Load)]
                if not loads or not all(const_sub(x, len(fields)) for x in loads) or any(f in all_used for f in fields):
                    continue
                for x in loads:
                    sub = x._parent  # type: ignore[attr-defined]
                    replace(sub, ast.Name(id=fields[sub.slice.value], ctx=ast.Load()))
                replace(g.target, ast.Tuple(elts=[ast.Name(id=f, ctx=ast.Store()) for f in fields], ctx=ast.Store()))
                all_used |= set(fields)

        # 3b. locals / for targets read only by constant index
        for name, t in list(env.items()):
            if not (t and t[0] == "R"):
                continue
            fields = info[t[1]][0]
            stores = [x for x in ast.walk(fn) if isinstance(x, ast.Name) and x.id == name and isinstance(x.ctx, ast.Store) and id(x) not in comp_scoped]
            loads = [x for x in ast.walk(fn) if isinstance(x, ast.Name) and x.id == name and isinstance(x.ctx, ast.Load) and id(x) not in comp_scoped]
            if len(stores) != 1 or not loads or not all(const_sub(x, len(fields)) for x in loads):
                continue
            st = stores[0]
            owner = getattr(st, "_parent", None)
            if isinstance(owner, ast.Assign) and len(owner.targets) == 1 and owner.targets[0] is st:
                names = [f"{name}_{f}" for f in fields]
            elif isinstance(owner, ast.For) and owner.target is st:
                names = list(fields)
            else:
                continue
            if any(nm in all_used for nm in names):
                continue
            for x in loads:
                sub = x._parent  # type: ignore[attr-defined]
                replace(sub, ast.Name(id=names[sub.slice.value], ctx=ast.Load()))
            replace(st, ast.Tuple(elts=[ast.Name(id=nm, ctx=ast.Store()) for nm in names], ctx=ast.Store()))
            all_used |= set(names)

    # 1. constructors -> tuple displays (last: the type inference above reads them)
    for n in [x for x in ast.walk(tree) if isinstance(x, ast.Call) and isinstance(x.func, ast.Name) and x.func.id in recs]:
        fields, defaults = info[n.func.id]
        if any(isinstance(a_, ast.Starred) for a_ in n.args) or any(k.arg is None for k in n.keywords) or len(n.args) > len(fields):
            continue
        vals: dict[str, ast.AST] = dict(zip(fields, n.args))
        vals.update({k.arg: k.value for k in n.keywords})  # type: ignore[misc]
        for f in fields:
            if f not in vals and f in defaults:
                vals[f] = defaults[f]
        if set(vals) != set(fields):
            continue
        replace(n, ast.Tuple(elts=[vals[f] for f in fields], ctx=ast.Load()))
    return changed[0]
