"""Parser progress analysis (C20 R20.3): every cycle of every token loop consumes a token or leaves the loop.

One path engine is used for two questions:

* must_under(M, T): does every path of Parser method M from entry to a normal return consume a token, given that the
  current token's type is in T at entry?  (context-sensitive summary, memoised on (M, T))
* loop cycles: depth-first enumeration of the simple paths from a loop head back to the head that consume nothing.

Along a path the engine carries the set of types the current token can still have; it is refined by every test on
`self.current().type` (also through aliases `tok = self.current()`, module frozensets and local type sets) and stays valid
because the path, by construction, has consumed nothing (calls that MAY consume are assumed not to have consumed - we are
looking for a cycle WITHOUT progress). `self.advance()` counts as consumption only where EOF is excluded from the type
set (advance() clamps at EOF); `self.expect(X)` consumes or raises; `self.M(...)` consumes when must_under(M, T) holds.
`v = self.M(...)` where M returns something truthy only after consuming makes the true edge of a later test on `v` a
consuming edge. A path is refuted when its type set becomes empty, or when the loop condition is false for every
remaining type on re-entry. Any surviving path is reported with its line trace.
"""
from __future__ import annotations

import ast

from .cfg import CFG
from .source import AnalysisError, EnumRef, FuncInfo, Module, Project, walk_no_nested

ALL = None


class ParserModel:
    def __init__(self, project: Project, token_types: list[str], budget: int = 600000):
        self.project = project
        self.pm: Module = project.mod("core.parser")
        self.cls = self.pm.cls("Parser")
        self.types = frozenset(token_types)
        self.budget = budget
        self.module_sets: dict[str, frozenset[str]] = {}
        # every module-level constant of parser.py that folds to a collection of TokenType members (VALUE_TOKENS,
        # EXPRESSION_OPERATORS and whatever a refactoring hoists next to them)
        for st in self.pm.tree.body:
            tgt = st.targets[0] if isinstance(st, ast.Assign) and len(st.targets) == 1 else (st.target if isinstance(st, ast.AnnAssign) else None)
            if isinstance(tgt, ast.Name) and getattr(st, "value", None) is not None:
                v = project.try_fold(self.pm, st.value)
                if isinstance(v, (set, frozenset, tuple, list)) and v and all(isinstance(x, EnumRef) for x in v):
                    self.module_sets[tgt.id] = frozenset(x.member for x in v)
        for name in ("VALUE_TOKENS", "EXPRESSION_OPERATORS"):
            if name not in self.module_sets:
                raise AnalysisError(f"parser.py: {name} did not fold to a set of TokenType members")
        self.cfgs: dict[str, CFG] = {}
        self._must: dict[tuple[str, frozenset[str]], bool] = {}
        self._truthy: dict[str, bool] = {}
        self._aliases: dict[str, set[str]] = {}
        self._local_sets: dict[str, dict[str, tuple[frozenset[str], frozenset[str]]]] = {}
        self.steps = 0

    # ------------------------------------------------------------ helpers
    def cfg(self, fi: FuncInfo) -> CFG:
        c = self.cfgs.get(fi.qualname)
        if c is None:
            c = CFG(fi.node)
            self.cfgs[fi.qualname] = c
        return c

    def method(self, name: str) -> FuncInfo | None:
        return self.cls.methods.get(name)

    def aliases(self, fi: FuncInfo) -> set[str]:
        a = self._aliases.get(fi.qualname)
        if a is None:
            a = set()
            for n in walk_no_nested(fi.node):
                if isinstance(n, ast.Assign) and len(n.targets) == 1 and isinstance(n.targets[0], ast.Name) and isinstance(n.value, ast.Call) and ast.unparse(n.value) == "self.current()":
                    a.add(n.targets[0].id)
            self._aliases[fi.qualname] = a
        return a

    def local_sets(self, fi: FuncInfo) -> dict[str, tuple[frozenset[str], frozenset[str]]]:
        """locals holding a set of TokenType members: name -> (members certainly in it, members possibly in it)"""
        ls = self._local_sets.get(fi.qualname)
        if ls is None:
            ls = {}
            binds: dict[str, list[tuple[frozenset[str], frozenset[str]] | None]] = {}
            adds: dict[str, list[frozenset[str] | None]] = {}

            def bounds(v: ast.AST) -> tuple[frozenset[str], frozenset[str]] | None:
                # `A if c else B`: certainly the members common to both, possibly the members of either
                if isinstance(v, ast.IfExp):
                    a, b = bounds(v.body), bounds(v.orelse)
                    return None if a is None or b is None else (a[0] & b[0], a[1] | b[1])
                if isinstance(v, ast.Call) and isinstance(v.func, ast.Name) and v.func.id in ("set", "frozenset", "tuple", "list") and len(v.args) == 1 and not v.keywords:
                    return bounds(v.args[0])
                c = self._const_types(v)
                return None if c is None else (c, c)

            for n in walk_no_nested(fi.node):
                if isinstance(n, ast.Assign) and len(n.targets) == 1 and isinstance(n.targets[0], ast.Name):
                    binds.setdefault(n.targets[0].id, []).append(bounds(n.value))
                if isinstance(n, ast.Call) and isinstance(n.func, ast.Attribute) and isinstance(n.func.value, ast.Name) and n.func.attr in ("add", "update") and n.args:
                    adds.setdefault(n.func.value.id, []).append(self._const_types(n.args[0]))
                if isinstance(n, ast.Call) and isinstance(n.func, ast.Attribute) and isinstance(n.func.value, ast.Name) and n.func.attr in ("discard", "remove", "clear", "pop", "difference_update", "intersection_update"):
                    adds.setdefault(n.func.value.id, []).append(None)
            for nm, bs in binds.items():
                if len(bs) != 1 or bs[0] is None:
                    continue
                extra = adds.get(nm, [])
                if any(e is None for e in extra):
                    continue
                upper = set(bs[0][1])
                for e in extra:
                    upper |= e  # type: ignore[arg-type]
                ls[nm] = (bs[0][0], frozenset(upper))
            self._local_sets[fi.qualname] = ls
        return ls

    def _const_types(self, e: ast.AST) -> frozenset[str] | None:
        if isinstance(e, ast.Attribute) and isinstance(e.value, ast.Name) and e.value.id == "TokenType":
            return frozenset([e.attr])
        if isinstance(e, (ast.Tuple, ast.List, ast.Set)):
            out: set[str] = set()
            for x in e.elts:
                s = self._const_types(x)
                if s is None:
                    return None
                out |= s
            return frozenset(out)
        if isinstance(e, ast.Name) and e.id in self.module_sets:
            return self.module_sets[e.id]
        return None

    def bounds_of(self, e: ast.AST, fi: FuncInfo) -> tuple[frozenset[str], frozenset[str]] | None:
        s = self._const_types(e)
        if s is not None:
            return s, s
        if isinstance(e, ast.Name):
            return self.local_sets(fi).get(e.id)
        return None

    def is_current_type(self, e: ast.AST, aliases: set[str]) -> bool:
        if isinstance(e, ast.Attribute) and e.attr == "type":
            v = e.value
            if isinstance(v, ast.Call) and ast.unparse(v) == "self.current()":
                return True
            if isinstance(v, ast.Name) and v.id in aliases:
                return True
        return False

    def refine(self, e: ast.AST, truth: bool, ts: frozenset[str], aliases: set[str], fi: FuncInfo) -> frozenset[str]:
        if isinstance(e, ast.UnaryOp) and isinstance(e.op, ast.Not):
            return self.refine(e.operand, not truth, ts, aliases, fi)
        if isinstance(e, ast.BoolOp):
            if isinstance(e.op, ast.And) == truth:
                for v in e.values:
                    ts = self.refine(v, truth, ts, aliases, fi)
                return ts
            out: set[str] = set()
            pre = ts
            for v in e.values:
                out |= self.refine(v, truth, pre, aliases, fi)
                pre = self.refine(v, not truth, pre, aliases, fi)
            return frozenset(out)
        if isinstance(e, ast.Compare) and len(e.ops) == 1 and self.is_current_type(e.left, aliases):
            b = self.bounds_of(e.comparators[0], fi)
            if b is None:
                return ts
            lower, upper = b
            op = e.ops[0]
            positive = isinstance(op, (ast.Eq, ast.In))
            if not positive and not isinstance(op, (ast.NotEq, ast.NotIn)):
                return ts
            if positive == truth:
                return ts & upper  # the type IS in the set: at most the possible members
            return ts - lower  # the type is NOT in the set: at least the certain members are excluded
        return ts

    # ------------------------------------------------------------ consumption at a node
    @staticmethod
    def _certain(root: ast.AST, call: ast.AST) -> bool:
        cur = call
        while cur is not root and cur is not None:
            par = getattr(cur, "_parent", None)
            if isinstance(par, ast.BoolOp) and par.values[0] is not cur:
                return False
            if isinstance(par, ast.IfExp) and par.test is not cur:
                return False
            if isinstance(par, (ast.ListComp, ast.GeneratorExp, ast.SetComp, ast.DictComp, ast.Lambda)):
                return False
            cur = par
        return True

    def consumes(self, node_ast: ast.AST | None, ts: frozenset[str]) -> bool:
        if node_ast is None:
            return False
        for n in walk_no_nested(node_ast):
            if isinstance(n, ast.Call) and isinstance(n.func, ast.Attribute) and isinstance(n.func.value, ast.Name) and n.func.value.id == "self" and self._certain(node_ast, n):
                name = n.func.attr
                if name == "advance":
                    if "EOF" not in ts:
                        return True
                elif name == "expect":
                    return True
                elif name in self.cls.methods and name not in ("current", "peek"):
                    if self.must_under(name, ts):
                        return True
        return False

    # ------------------------------------------------------------ engine
    def _search(self, fi: FuncInfo, starts, target: int, head_test=None):
        """yields (path, ts) for paths from starts to target consuming nothing; starts: [(node id, ts, path tuple)]"""
        cfg = self.cfg(fi)
        al_all = self.aliases(fi)
        reach = self._reaching(cfg, target)
        stack = [(n, ts, path, frozenset(), frozenset()) for n, ts, path in starts]
        while stack:
            n, ts, path, stale, tm = stack.pop()
            self.steps += 1
            if self.steps > self.budget:
                raise AnalysisError(f"{fi.qualname}: progress analysis exceeded its path budget")
            if not ts:
                continue
            if n == target:
                yield list(path) + [n], ts
                continue
            if n in path or n not in reach:
                continue
            node = cfg.nodes[n]
            # an exception raised here may reach a handler before anything was consumed
            for s, lab in cfg.succ[n]:
                if lab == "x" and cfg.nodes[s].kind == "handler":
                    stack.append((s, ts, path + (n,), stale, tm))
            if node.kind in ("stmt", "test", "iter") and self.consumes(node.ast, ts):
                continue
            new_stale, new_tm = stale, tm
            if isinstance(node.ast, ast.Assign) and len(node.ast.targets) == 1 and isinstance(node.ast.targets[0], ast.Name):
                tgt = node.ast.targets[0].id
                v = node.ast.value
                if tgt in al_all and ast.unparse(v) != "self.current()":
                    new_stale = new_stale | {tgt}
                new_tm = new_tm - {tgt}
                if isinstance(v, ast.Call) and isinstance(v.func, ast.Attribute) and isinstance(v.func.value, ast.Name) and v.func.value.id == "self" and self.truthy_means_consumed(v.func.attr):
                    new_tm = new_tm | {tgt}
            aliases = al_all - new_stale
            for s, lab in cfg.succ[n]:
                if lab == "x":
                    continue
                ts2 = ts
                if node.kind == "test" and node.ast is not None and lab in ("t", "f"):
                    # `if v:` where v is the result of a method that is truthy only after consuming
                    t = node.ast
                    vname, positive = None, True
                    if isinstance(t, ast.Name):
                        vname = t.id
                    elif isinstance(t, ast.UnaryOp) and isinstance(t.op, ast.Not) and isinstance(t.operand, ast.Name):
                        vname, positive = t.operand.id, False
                    elif isinstance(t, ast.Compare) and isinstance(t.left, ast.Name) and len(t.ops) == 1 and isinstance(t.comparators[0], ast.Constant) and t.comparators[0].value is None:
                        vname, positive = t.left.id, isinstance(t.ops[0], ast.IsNot)
                    if vname in new_tm and (lab == "t") == positive:
                        continue  # v is truthy => the call consumed => progress on this edge
                    ts2 = self.refine(t, lab == "t", ts, aliases, fi)
                stack.append((s, ts2, path + (n,), new_stale, new_tm))

    @staticmethod
    def _reaching(cfg: CFG, target: int) -> set[int]:
        seen = {target}
        stack = [target]
        while stack:
            n = stack.pop()
            for p, lab in cfg.pred[n]:
                if lab == "x" or p in seen:
                    continue
                seen.add(p)
                stack.append(p)
        return seen

    # ------------------------------------------------------------ summaries
    def must_under(self, name: str, ts: frozenset[str]) -> bool:
        key = (name, ts)
        if key in self._must:
            return self._must[key]
        fi = self.method(name)
        if fi is None:
            return False
        self._must[key] = False  # recursion: assume it may not consume
        cfg = self.cfg(fi)
        if not cfg.path_exists(cfg.entry, cfg.exit, {"x"}):
            self._must[key] = True  # never returns normally
            return True
        found = False
        for _path, _ts in self._search(fi, [(cfg.entry, ts, ())], cfg.exit):
            found = True
            break
        self._must[key] = not found
        return not found

    def truthy_means_consumed(self, name: str) -> bool:
        if name in self._truthy:
            return self._truthy[name]
        fi = self.method(name)
        if fi is None or name in ("current", "peek", "advance", "expect"):
            return False
        self._truthy[name] = False
        cfg = self.cfg(fi)
        ok = True
        rets = [n for n in cfg.nodes if isinstance(n.ast, ast.Return)]
        for rn in rets:
            v = rn.ast.value  # type: ignore[union-attr]
            if v is None or (isinstance(v, ast.Constant) and not v.value):
                continue  # returns a falsy constant
            # is there a non-consuming path entry -> this return?
            for _p, _t in self._search(fi, [(cfg.entry, self.types, ())], rn.id):
                # the return statement itself may consume (return self.parse_x()), or hand on the result of a method that
                # is truthy only after consuming
                if self.consumes(rn.ast, _t):
                    break
                if isinstance(v, ast.Call) and isinstance(v.func, ast.Attribute) and isinstance(v.func.value, ast.Name) and v.func.value.id == "self" and v.func.attr != name and self.truthy_means_consumed(v.func.attr):
                    break
                ok = False
                break
            if not ok:
                break
        self._truthy[name] = ok
        return ok

    # ------------------------------------------------------------ forward token-type facts
    def may_consume_methods(self) -> set[str]:
        """Parser methods that can move the token position (transitively)"""
        if getattr(self, "_mc", None) is not None:
            return self._mc
        direct: set[str] = set()
        calls: dict[str, set[str]] = {}
        for name, fi in self.cls.methods.items():
            calls[name] = set()
            for n in walk_no_nested(fi.node):
                if isinstance(n, ast.Call) and isinstance(n.func, ast.Attribute) and isinstance(n.func.value, ast.Name) and n.func.value.id == "self":
                    calls[name].add(n.func.attr)
                if isinstance(n, (ast.Assign, ast.AugAssign)):
                    tg = n.targets if isinstance(n, ast.Assign) else [n.target]
                    if any(ast.unparse(t) == "self.pos" for t in tg):
                        direct.add(name)
        mc = set(direct)
        changed = True
        while changed:
            changed = False
            for name, cs in calls.items():
                if name not in mc and cs & mc:
                    mc.add(name)
                    changed = True
        self._mc = mc
        return mc

    def node_may_consume(self, node_ast: ast.AST | None) -> bool:
        if node_ast is None:
            return False
        mc = self.may_consume_methods()
        for n in walk_no_nested(node_ast):
            if isinstance(n, ast.Call) and isinstance(n.func, ast.Attribute) and isinstance(n.func.value, ast.Name) and n.func.value.id == "self" and n.func.attr in mc:
                return True
        return False

    def reaching_types(self, fi: FuncInfo) -> dict[int, frozenset[str]]:
        """for every CFG node: the token types the current token can have when the node starts executing (facts from
        tests on the current token since the last possible consumption; ALL after anything that may consume)"""
        cfg = self.cfg(fi)
        al_all = self.aliases(fi)
        out: dict[int, frozenset[str]] = {}
        seen: set[tuple[int, frozenset[str], frozenset[str]]] = set()
        work = [(cfg.entry, self.types, frozenset())]
        while work:
            n, ts, stale = work.pop()
            key = (n, ts, stale)
            if key in seen:
                continue
            seen.add(key)
            if len(seen) > self.budget:
                raise AnalysisError(f"{fi.qualname}: token-type propagation exceeded its budget")
            out[n] = out.get(n, frozenset()) | ts
            node = cfg.nodes[n]
            consumes = node.kind in ("stmt", "test", "iter", "with") and self.node_may_consume(node.ast)
            ts_after = self._after_calls(node.ast) if consumes else ts
            stale2 = frozenset(al_all) if consumes else stale
            if isinstance(node.ast, ast.Assign) and len(node.ast.targets) == 1 and isinstance(node.ast.targets[0], ast.Name):
                tgt = node.ast.targets[0].id
                if tgt in al_all:
                    stale2 = stale2 - {tgt} if ast.unparse(node.ast.value) == "self.current()" else stale2 | {tgt}
            for s, lab in cfg.succ[n]:
                if lab == "x":
                    if cfg.nodes[s].kind == "handler":
                        work.append((s, self.types, frozenset(al_all)))
                    continue
                ts2 = ts_after
                if node.kind == "test" and node.ast is not None and lab in ("t", "f") and not consumes:
                    ts2 = self.refine(node.ast, lab == "t", ts_after, al_all - stale2, fi)
                    if not ts2:
                        continue
                work.append((s, ts2, stale2))
        return out

    def exit_types(self, name: str) -> frozenset[str]:
        """token types the current token can have when Parser.<name> returns normally"""
        memo = self.__dict__.setdefault("_exit_types", {})
        if name in memo:
            return memo[name]
        memo[name] = self.types  # recursion: anything
        fi = self.method(name)
        if fi is None:
            return self.types
        cfg = self.cfg(fi)
        rt = self.reaching_types(fi)
        memo[name] = rt.get(cfg.exit, frozenset()) or self.types
        return memo[name]

    def _after_calls(self, node_ast: ast.AST | None) -> frozenset[str]:
        """types possible after a node that may consume: the post-condition of its last consuming call when that call is
        the whole statement (`self.m(...)` / `x = self.m(...)`), otherwise anything"""
        if node_ast is None:
            return self.types
        call = None
        if isinstance(node_ast, ast.Expr) and isinstance(node_ast.value, ast.Call):
            call = node_ast.value
        elif isinstance(node_ast, ast.Assign) and isinstance(node_ast.value, ast.Call):
            call = node_ast.value
        if call is not None and isinstance(call.func, ast.Attribute) and isinstance(call.func.value, ast.Name) and call.func.value.id == "self" and call.func.attr in self.cls.methods and call.func.attr not in ("advance", "expect"):
            inner = [c for a in list(call.args) + [k.value for k in call.keywords] for c in ast.walk(a) if isinstance(c, ast.Call)]
            if not any(isinstance(c.func, ast.Attribute) and isinstance(c.func.value, ast.Name) and c.func.value.id == "self" and c.func.attr in self.may_consume_methods() for c in inner):
                return self.exit_types(call.func.attr)
        return self.types

    # ------------------------------------------------------------ loops
    def loop_cycles_without_progress(self, fi: FuncInfo, head: int):
        cfg = self.cfg(fi)
        hn = cfg.nodes[head]
        al = self.aliases(fi)
        if hn.kind == "test":
            const_true = isinstance(hn.ast, ast.Constant) and bool(hn.ast.value)
            ts0 = self.types if const_true else self.refine(hn.ast, True, self.types, al, fi)  # type: ignore[arg-type]
            if self.consumes(hn.ast, self.types):
                return
            starts = [(s, ts0, (head,)) for s, lab in cfg.succ[head] if lab == "t"]
        else:
            ts0 = self.types
            starts = [(s, ts0, (head,)) for s, lab in cfg.succ[head] if lab == "loop"]
        for path, ts in self._search(fi, starts, head):
            if hn.kind == "test" and not (isinstance(hn.ast, ast.Constant) and bool(hn.ast.value)):
                if not self.refine(hn.ast, True, ts, al, fi):  # type: ignore[arg-type]
                    continue  # the loop condition is false for every remaining type: the loop ends here
            yield path, ts


# ----------------------------------------------------------------------------- counter loops
def counter_loop_ok(cfg: CFG, head: int) -> tuple[bool, str]:
    """`while <v> < <bound> ...:` with every cycle executing `<v> += <positive const>` (or `-=` toward a lower bound)"""
    node = cfg.nodes[head]
    if node.kind != "test" or node.ast is None:
        return False, "not a while test"
    conj = node.ast.values if isinstance(node.ast, ast.BoolOp) and isinstance(node.ast.op, ast.And) else [node.ast]
    for c in conj:
        if not (isinstance(c, ast.Compare) and len(c.ops) == 1 and isinstance(c.ops[0], (ast.Lt, ast.LtE, ast.Gt, ast.GtE))):
            continue
        for side, other, up in ((c.left, c.comparators[0], isinstance(c.ops[0], (ast.Lt, ast.LtE))), (c.comparators[0], c.left, isinstance(c.ops[0], (ast.Gt, ast.GtE)))):
            if not isinstance(side, ast.Name):
                continue
            v = side.id
            steps = set()
            for n in cfg.nodes:
                a = n.ast
                if isinstance(a, ast.AugAssign) and isinstance(a.target, ast.Name) and a.target.id == v and isinstance(a.value, ast.Constant) and isinstance(a.value.value, int) and a.value.value > 0 and isinstance(a.op, ast.Add) == up:
                    steps.add(n.id)
            if not steps:
                continue
            ok = True
            inside = {id(x) for x in ast.walk(node.owner)} if node.owner is not None else set()
            for s, lab in cfg.succ[head]:
                if lab != "t":
                    continue
                if s in steps:
                    continue
                # paths that leave the loop (break / return) are not cycles of this loop
                if s == head or cfg.all_paths_pass(s, head, lambda nn: nn.id in steps or (nn.id != head and nn.ast is not None and id(nn.ast) not in inside), {"x"}) is not None:
                    ok = False
            # the counter is not moved the other way inside the loop
            back = [n for n in cfg.nodes if id(n.ast) in inside and ((isinstance(n.ast, ast.AugAssign) and isinstance(n.ast.target, ast.Name) and n.ast.target.id == v and isinstance(n.ast.op, ast.Add) != up) or (isinstance(n.ast, ast.Assign) and any(isinstance(t, ast.Name) and t.id == v for t in n.ast.targets)))]
            if ok and not back:
                return True, f"counter `{v}` moves monotonically toward `{ast.unparse(other)}` on every cycle"
    return False, "no monotone counter recognised"
