"""Automata obligations shared by C01 (R01.1) and C04 (R04.3): every string the emitter leaves unquoted is read back
by the tokenizer as the token(s) that reassemble to exactly that string."""
from __future__ import annotations

from . import lexmodel, rx
from .lexmodel import LexModel
from .report import Run
from .source import AnalysisError

# token kinds that can never start inside a bare value because the tokenizer handles them before patterns or they need column 1
SKIP_TYPES = {"GRAMMAR_SENTINEL"}  # only tried at position 0 of the document
READER_OF = {"IDENTIFIER_PATTERN": "identifier scanner", "ANNOTATION_PATTERN": "identifier scanner with <qualifier>", "EXPRESSION_PATTERN": "identifier scanner per segment + operator tokens", "VARIABLE_PATTERN": "VARIABLE token regex"}


def bare_languages(lm: LexModel):
    """[(pattern name, Sim of the pattern, [Sims of exclusions that apply to it (tested earlier in needs_quotes)])]"""
    out = []
    excl: list[rx.Sim] = []
    excl_desc: list[str] = []
    for d in lm.decisions:
        if d.kind == "quote-literals":
            excl.append(lexmodel.literal_set_sim(lm, d.data))
            excl_desc.append(f"literals {list(d.data)}")
        elif d.kind == "quote-chars":
            excl.append(lexmodel.regex_sim(lm, "[" + "".join("\\x%02x" % ord(c) for c in d.data) + "]", search=True))
            excl_desc.append(f"contains one of {d.data!r}")
        elif d.kind == "quote-empty":
            excl.append(lexmodel.literal_set_sim(lm, [""]))
            excl_desc.append("empty string")
        elif d.kind == "quote-if-regex":
            name, pat, how = d.data
            excl.append(lexmodel.regex_sim(lm, pat.pattern, pat.flags, prefix=(how == "match"), search=(how == "search")))
            excl_desc.append(f"{name}.{how}")
        elif d.kind in ("bare-if-match", "quote-unless-match"):
            name, pat, how = d.data
            if how == "search":
                raise AnalysisError(f"needs_quotes leaves a value bare on a `.search` of {name}: not a whole-string decision")
            sim = lexmodel.regex_sim(lm, pat.pattern, pat.flags, prefix=(how == "match" and not _anchored_end(pat.pattern)))
            out.append((name, pat, sim, list(excl), list(excl_desc)))
    return out


def _anchored_end(p: str) -> bool:
    return p.endswith("\\Z") or p.endswith("$")


def check_token_construction(run: Run, rule: str) -> None:
    """binds the tokenizer model to tokenize(): a text matched by pattern #i becomes a token of exactly that pattern's type, and a
    scanned identifier becomes an IDENTIFIER token carrying exactly the scanned text (no retyping / rewriting afterwards)"""
    import ast

    from .source import norm, walk_no_nested

    lx = run.project.mod("core.lexer")
    fi = lx.func("tokenize")
    scan_var = None
    for n in walk_no_nested(fi.node):
        if isinstance(n, ast.Assign) and isinstance(n.value, ast.Call) and ast.unparse(n.value.func) == "_match_unicode_identifier" and isinstance(n.targets[0], ast.Name):
            scan_var = n.targets[0].id
    if scan_var is None:
        raise AnalysisError("tokenize: call of _match_unicode_identifier not found")
    branch = None
    for n in walk_no_nested(fi.node):
        if isinstance(n, ast.If) and isinstance(n.test, ast.Name) and n.test.id == scan_var:
            branch = n
    if branch is None:
        raise AnalysisError(f"tokenize: `if {scan_var}:` branch not found")
    toks = [c for st in branch.body for c in ast.walk(st) if isinstance(c, ast.Call) and ast.unparse(c.func) == "Token"]
    ok = len(toks) == 1 and len(toks[0].args) >= 2 and ast.unparse(toks[0].args[0]) == "TokenType.IDENTIFIER" and isinstance(toks[0].args[1], ast.Name) and toks[0].args[1].id == scan_var
    out_lists = {ast.unparse(c.func.value) for c in ast.walk(fi.node) if isinstance(c, ast.Call) and isinstance(c.func, ast.Attribute) and c.func.attr == "append" and c.args and isinstance(c.args[0], ast.Call) and ast.unparse(c.args[0].func) == "Token"} | {"tokens"}
    rebinding = [n for st in branch.body for n in ast.walk(st) if isinstance(n, ast.Subscript) and isinstance(n.ctx, ast.Store) and ast.unparse(n.value) in out_lists]
    rebinding += [n for st in branch.body for n in ast.walk(st) if isinstance(n, ast.Name) and isinstance(n.ctx, ast.Store) and n.id == scan_var]
    run.instance(rule, lx.loc(branch), f"tokenize: a scanned identifier becomes exactly Token(TokenType.IDENTIFIER, {scan_var}, ...)", ok=ok and not rebinding)
    if not (ok and not rebinding):
        bad = next((t for t in toks if not (len(t.args) >= 2 and ast.unparse(t.args[0]) == "TokenType.IDENTIFIER" and isinstance(t.args[1], ast.Name) and t.args[1].id == scan_var)), None) or (rebinding[0] if rebinding else branch.test)
        run.violation(rule, lx, fi.qualname, bad, "after the identifier scanner succeeded, tokenize builds something other than one IDENTIFIER token with the scanned text (e.g. retypes True/NULL as BOOLEAN/NULL): "
                      "strings the emitter leaves bare as identifiers are read back as another kind of value", line=getattr(bad, "lineno", branch.lineno))
    # generic pattern branch: Token(token_type, value, ...) with the loop's own token_type
    loop = None
    for n in walk_no_nested(fi.node):
        if isinstance(n, ast.For) and isinstance(n.target, ast.Tuple) and len(n.target.elts) == 2 and isinstance(n.iter, ast.Name):
            # the loop over the compiled token table: its iterable is bound from a comprehension over TOKEN_PATTERNS
            for a in walk_no_nested(fi.node):
                if isinstance(a, ast.Assign) and len(a.targets) == 1 and isinstance(a.targets[0], ast.Name) and a.targets[0].id == n.iter.id and "TOKEN_PATTERNS" in ast.unparse(a.value):
                    loop = n
    if loop is None:
        raise AnalysisError("tokenize: loop over compiled_patterns not found")
    tvar = loop.target.elts[1].id  # type: ignore[attr-defined]
    # (the loop's else clause - nothing matched - is not a pattern match)
    toks = [c for st in loop.body for c in ast.walk(st) if isinstance(c, ast.Call) and ast.unparse(c.func) == "Token"]
    ok = len(toks) >= 1 and all(t.args and isinstance(t.args[0], ast.Name) and t.args[0].id == tvar for t in toks)
    retype = [n for st in loop.body for n in ast.walk(st) if isinstance(n, ast.Name) and isinstance(n.ctx, ast.Store) and n.id == tvar and n is not loop.target.elts[1]]  # type: ignore[attr-defined]
    run.instance(rule, lx.loc(loop), f"tokenize: text matched by a pattern becomes a token of that pattern's own type (`Token({tvar}, ...)`, {tvar} never rebound)", ok=bool(ok) and not retype)
    if not (ok and not retype):
        bad = retype[0] if retype else (next((t for t in toks if not (t.args and isinstance(t.args[0], ast.Name) and t.args[0].id == tvar)), None) or loop)
        run.violation(rule, lx, fi.qualname, bad, "the token type of a pattern match is changed after matching: the token table no longer describes what the tokenizer produces", line=getattr(bad, "lineno", loop.lineno))


def check_bare(run: Run, rule: str, lm: LexModel, em_mod) -> None:
    check_token_construction(run, rule)
    A = lm.alphabet
    assert A is not None
    langs = bare_languages(lm)
    if len(langs) < 4:
        raise AnalysisError(f"needs_quotes: only {len(langs)} bare pattern(s) recognised (expected VARIABLE, ANNOTATION, EXPRESSION, IDENTIFIER)")
    ident_idx = None
    token_sims: list[tuple[int, str, str, rx.Sim | None, str | None]] = []
    for i, (pat, ttype) in enumerate(lm.token_patterns):
        if ttype in SKIP_TYPES:
            continue
        try:
            sim = lexmodel.regex_sim(lm, pat, prefix=True)
            token_sims.append((i, pat, ttype, sim, None))
        except rx.Unsupported as e:
            token_sims.append((i, pat, ttype, None, str(e)))
    plain = rx.Sim(lexmodel.scanner_nfa(lm, False), A)
    annotated = rx.Sim(lexmodel.scanner_nfa(lm, True), A)
    op_chars = set()
    fn = em_mod.func("needs_quotes")

    for name, pat, sim, excl, excl_desc in langs:
        first = _first_chars(lm, pat.pattern)
        # (a) no token regex matches a prefix at the start of the value (previous character is ':' '[' ',' : not a word character)
        for i, tpat, ttype, tsim, unsupported in token_sims:
            if name == "VARIABLE_PATTERN" and ttype == "VARIABLE":
                continue  # that is the intended reader (checked by inclusion below)
            if unsupported is not None:
                tfirst = _first_chars(lm, tpat)
                ok = not (first & tfirst)
                run.instance(rule, f"{em_mod.relpath}", f"(a) {name} vs token regex #{i} {ttype} {tpat!r}: not translatable ({unsupported}); first-character sets disjoint={ok}", ok=ok)
                if not ok:
                    raise AnalysisError(f"token regex #{i} {tpat!r} uses an untranslatable construct and can start like a bare {name} value")
                continue
            w = rx.search_n([sim, tsim] + excl, A, lambda v: v[0] and v[1] and not any(v[2:]), need=(0, 1))
            run.instance(rule, em_mod.relpath, f"(a) bare {name} ∩ (token regex #{i} {ttype} {tpat!r} · Σ*) = ∅", ok=w is None, witness=rx.show(w, A) if w is not None else None)
            if w is not None:
                run.violation(rule, em_mod, fn.qualname, f"bare {name} vs token {ttype} {tpat}", f"needs_quotes leaves `{rx.show(w, A)}` unquoted (it matches {name}), but the tokenizer's {ttype} pattern {tpat!r} matches at its start, so it is not read back as one identifier",
                              witness=rx.show(w, A), line=fn.node.lineno)
        # (b) the intended reader consumes the whole string
        if name == "IDENTIFIER_PATTERN":
            w = rx.search_n([sim, plain] + excl, A, lambda v: v[0] and not v[1] and not any(v[2:]), need=(0,))
            _report_incl(run, rule, em_mod, fn, name, "the identifier scanner (start body*, trailing '-' stripped)", w, A)
        elif name == "ANNOTATION_PATTERN":
            w = rx.search_n([sim, annotated] + excl, A, lambda v: v[0] and not v[1] and not any(v[2:]), need=(0,))
            _report_incl(run, rule, em_mod, fn, name, "the identifier scanner's NAME<qualifier> form (qualifier = start body*, closing '>')", w, A)
        elif name == "VARIABLE_PATTERN":
            vt = [(i, p) for i, p, t, s, u in token_sims if t == "VARIABLE"]
            if not vt:
                raise AnalysisError("no VARIABLE token regex in TOKEN_PATTERNS")
            full = lexmodel.regex_sim(lm, vt[0][1])
            w = rx.search_n([sim, full] + excl, A, lambda v: v[0] and not v[1] and not any(v[2:]), need=(0,))
            _report_incl(run, rule, em_mod, fn, name, f"the VARIABLE token regex {vt[0][1]!r}", w, A)
        elif name == "EXPRESSION_PATTERN":
            _check_expression(run, rule, lm, em_mod, fn, pat, sim, excl, token_sims, plain)
        else:
            # an additional bare pattern: it must at least be consumed by the identifier scanner
            w = rx.search_n([sim, plain] + excl, A, lambda v: v[0] and not v[1] and not any(v[2:]), need=(0,))
            _report_incl(run, rule, em_mod, fn, name, "the identifier scanner", w, A)


def _report_incl(run: Run, rule: str, em_mod, fn, name: str, reader: str, w: str | None, A) -> None:
    run.instance(rule, em_mod.relpath, f"(b) bare {name} ⊆ strings consumed whole by {reader}", ok=w is None, witness=rx.show(w, A) if w is not None else None)
    if w is not None:
        run.violation(rule, em_mod, fn.qualname, f"bare {name} not consumed by its reader", f"needs_quotes leaves `{rx.show(w, A)}` unquoted (it matches {name}), but {reader} does not consume it whole: the canonical text is re-read as something else or is rejected by the lexer",
                      witness=rx.show(w, A), line=fn.node.lineno)


def _first_chars(lm: LexModel, pattern: str) -> frozenset[str]:
    """over-approximate set of first characters of matches (assertions ignored)"""
    import re._constants as sc  # type: ignore[import-not-found]
    import re._parser as sp  # type: ignore[import-not-found]

    b = rx.Builder(lm.alphabet)  # type: ignore[arg-type]

    def first(items) -> tuple[set[str], bool]:
        acc: set[str] = set()
        for op, av in items:
            if op is sc.LITERAL:
                acc.add(chr(av))
                return acc, False
            if op is sc.NOT_LITERAL:
                acc |= set(b.all) - {chr(av)}
                return acc, False
            if op is sc.ANY:
                acc |= set(b.all)
                return acc, False
            if op is sc.IN:
                acc |= set(b.class_chars(av))
                return acc, False
            if op is sc.BRANCH:
                nullable = False
                for alt in av[1]:
                    f, n = first(list(alt))
                    acc |= f
                    nullable = nullable or n
                if not nullable:
                    return acc, False
                continue
            if op is sc.SUBPATTERN:
                f, n = first(list(av[3]))
                acc |= f
                if not n:
                    return acc, False
                continue
            if op in (sc.MAX_REPEAT, sc.MIN_REPEAT):
                lo, hi, sub = av
                f, n = first(list(sub))
                acc |= f
                if lo > 0 and not n:
                    return acc, False
                continue
            if op in (sc.AT, sc.ASSERT, sc.ASSERT_NOT):
                continue
            raise rx.Unsupported(f"first(): {op}")
        return acc, True

    f, _ = first(list(sp.parse(pattern)))
    return frozenset(f)


def _check_expression(run: Run, rule: str, lm: LexModel, em_mod, fn, pat, sim, excl, token_sims, plain) -> None:
    """EXPRESSION_PATTERN = SEG (OP SEG)+ : every segment that follows an operator is a token start (previous char = operator:
    not a word character); no token regex may match there, the scanner must consume the segment, and every operator
    character must be a single-character token of an expression-operator kind."""
    A = lm.alphabet
    import re._constants as sc  # type: ignore[import-not-found]
    import re._parser as sp  # type: ignore[import-not-found]

    tree = list(sp.parse(pat.pattern))
    # operator characters = the character class that starts the repeated group
    ops: set[str] = set()
    for op, av in tree:
        if op is sc.MAX_REPEAT:
            sub = list(av[2])
            if sub and sub[0][0] is sc.SUBPATTERN:
                inner = list(sub[0][1][3])
                if inner and inner[0][0] is sc.IN:
                    ops = set(rx.Builder(A).class_chars(inner[0][1]))
                elif inner and inner[0][0] is sc.LITERAL:
                    ops = {chr(inner[0][1])}
    if not ops:
        raise AnalysisError("EXPRESSION_PATTERN: operator class not recognised (expected SEG([ops]SEG)+)")
    single = {}
    for i, tpat, ttype, tsim, unsupported in token_sims:
        try:
            t = list(sp.parse(tpat))
        except Exception:  # noqa: BLE001
            continue
        if len(t) == 1 and t[0][0] is sc.LITERAL:
            single.setdefault(chr(t[0][1]), (i, ttype))
    for ch in sorted(ops):
        ok = ch in single and single[ch][1] in lm.expression_operator_types
        run.instance(rule, em_mod.relpath, f"(c) expression operator {ch!r} is the single-character token {single.get(ch, (None, None))[1]} accepted by parse_flow_expression", ok=ok)
        if not ok:
            run.violation(rule, em_mod, fn.qualname, f"expression operator {ch}", f"EXPRESSION_PATTERN lets `{ch}` join segments of a bare value, but the tokenizer has no single-character token for it of a kind in EXPRESSION_OPERATORS",
                          line=fn.node.lineno)
    # strings of the language with a marker: we search for a witness  w = u OP v  where a token regex matches a prefix of v.
    # Build: A1 = EXPRESSION_PATTERN ; A2 = Σ* OP (R · Σ*)  with the context of R's start being the operator (non-word): simulated naturally.
    for i, tpat, ttype, tsim, unsupported in token_sims:
        if unsupported is not None:
            continue
        b = rx.Builder(A)
        fr = b.seq(b.any_star(), b.sym(ops), b.regex(tpat), b.any_star())
        t2 = rx.Sim(b.finish(fr), A)
        # the operator tokens themselves are expected right after a segment, never at a segment start; a token regex that
        # matches only an operator character cannot match at a segment start because segments start with [A-Za-z_]
        w = rx.search_n([sim, t2] + excl, A, lambda v: v[0] and v[1] and not any(v[2:]), need=(0, 1))
        run.instance(rule, em_mod.relpath, f"(c) no expression segment after an operator starts with token regex #{i} {ttype} {tpat!r}", ok=w is None, witness=rx.show(w, A) if w is not None else None)
        if w is not None:
            run.violation(rule, em_mod, fn.qualname, f"expression segment vs token {ttype} {tpat}", f"needs_quotes leaves the expression `{rx.show(w, A)}` unquoted, but after an operator the tokenizer's {ttype} pattern {tpat!r} matches, so that segment is not read back as an identifier",
                          witness=rx.show(w, A), line=fn.node.lineno)
    # each segment is consumed whole by the scanner: EXPRESSION ⊆ PLAIN (OP PLAIN)+
    b = rx.Builder(A)

    def plain_fr():
        S, B = lm.start_chars, lm.body_chars
        one = b.sym(S - {"-"})
        many = b.seq(b.sym(S), b.star(b.sym(B - ops)), b.sym((B - {"-"}) - ops))
        return b.alt(one, many)

    model = b.seq(plain_fr(), b.sym(ops), plain_fr(), b.star(b.seq(b.sym(ops), plain_fr())))
    msim = rx.Sim(b.finish(model), A)
    w = rx.search_n([sim, msim] + excl, A, lambda v: v[0] and not v[1] and not any(v[2:]), need=(0,))
    _report_incl(run, rule, em_mod, fn, "EXPRESSION_PATTERN", "identifier-scanner segments joined by operator tokens", w, A)
