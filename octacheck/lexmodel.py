"""Model of the tokenizer and of the emitter's quoting decision, extracted from the source on every run."""
from __future__ import annotations

import ast
from dataclasses import dataclass, field

from . import rx
from .source import AnalysisError, EnumRef, Project, RegexConst, walk_no_nested


@dataclass
class Decision:
    """one step of needs_quotes, in source order"""

    kind: str  # 'quote-literals' | 'quote-chars' | 'quote-empty' | 'quote-nonstr-false' | 'bare-if-match' | 'quote-unless-match' | 'quote-if-regex'
    data: object = None
    node: ast.AST | None = None


@dataclass
class LexModel:
    project: Project
    token_patterns: list[tuple[str, str]] = field(default_factory=list)  # (regex, TokenType member)
    aliases: dict[str, str] = field(default_factory=dict)
    operator_chars: frozenset[str] = frozenset()
    emitter_patterns: dict[str, RegexConst] = field(default_factory=dict)
    decisions: list[Decision] = field(default_factory=list)
    expression_operator_types: frozenset[str] = frozenset()
    value_token_types: frozenset[str] = frozenset()
    alphabet: rx.Alphabet | None = None
    start_chars: frozenset[str] = frozenset()
    body_chars: frozenset[str] = frozenset()
    token_types: list[str] = field(default_factory=list)


def _member(v) -> str:
    if isinstance(v, EnumRef):
        return v.member
    raise AnalysisError(f"expected a TokenType member, got {v!r}")


def build(project: Project) -> LexModel:
    lm = LexModel(project)
    lx = project.mod("core.lexer")
    em = project.mod("core.emitter")
    ps = project.mod("core.parser")
    tp = project.const(lx, "TOKEN_PATTERNS")
    if not isinstance(tp, list) or not tp:
        raise AnalysisError("TOKEN_PATTERNS did not fold to a list")
    for entry in tp:
        if not (isinstance(entry, tuple) and len(entry) == 2 and isinstance(entry[0], str)):
            raise AnalysisError(f"TOKEN_PATTERNS entry {entry!r} is not (regex, TokenType)")
        lm.token_patterns.append((entry[0], _member(entry[1])))
    al = project.const(lx, "ASCII_ALIASES")
    if not isinstance(al, dict):
        raise AnalysisError("ASCII_ALIASES did not fold to a dict")
    lm.aliases = dict(al)
    oc = project.const(lx, "OPERATOR_CHARS")
    lm.operator_chars = frozenset(oc)
    from .source import enum_members

    lm.token_types = enum_members(project, "core.lexer", "TokenType")
    for name in ("IDENTIFIER_PATTERN", "ANNOTATION_PATTERN", "EXPRESSION_PATTERN", "VARIABLE_PATTERN"):
        v = project.const(em, name)
        if not isinstance(v, RegexConst):
            raise AnalysisError(f"emitter.{name} is not a compiled regex constant")
        lm.emitter_patterns[name] = v
    # other regex constants of the emitter referenced by needs_quotes are folded on demand
    lm.expression_operator_types = frozenset(_member(x) for x in project.const(ps, "EXPRESSION_OPERATORS"))
    lm.value_token_types = frozenset(_member(x) for x in project.const(ps, "VALUE_TOKENS"))

    # alphabet: every non-ASCII char that occurs in the constants in play
    extra = set(lm.operator_chars)
    for pat, _ in lm.token_patterns:
        extra.update(c for c in pat if ord(c) >= 128)
    for v in lm.emitter_patterns.values():
        extra.update(c for c in v.pattern if ord(c) >= 128)
    for k, v in lm.aliases.items():
        extra.update(c for c in k + v if ord(c) >= 128)
    lm.alphabet = rx.Alphabet(extra)

    # character predicates
    funcs = {}
    for name in ("_is_valid_identifier_start", "_is_valid_identifier_char"):
        funcs[name] = lx.func(name).node
    def fold_lexer_const(name: str):
        return project.try_fold(lx, lx.const_node(name)) if lx.has_const(name) else None

    pe = rx.PredicateEval(funcs, {"OPERATOR_CHARS": lm.operator_chars}, lookup=fold_lexer_const)
    lm.start_chars = frozenset(c for c in lm.alphabet.symbols if pe.call("_is_valid_identifier_start", c))
    lm.body_chars = frozenset(c for c in lm.alphabet.symbols if pe.call("_is_valid_identifier_char", c))

    lm.decisions = extract_decisions(project, em)
    check_scanner_shape(project)
    return lm


# ----------------------------------------------------------------------------- needs_quotes
def extract_decisions(project: Project, em) -> list[Decision]:
    fi = em.func("needs_quotes")
    pv = fi.node.args.args[0].arg  # type: ignore[attr-defined]
    out: list[Decision] = []
    body = [s for s in fi.node.body if not (isinstance(s, ast.Expr) and isinstance(s.value, ast.Constant))]

    def ret_const(stmts) -> bool | None:
        if len(stmts) == 1 and isinstance(stmts[0], ast.Return) and isinstance(stmts[0].value, ast.Constant) and isinstance(stmts[0].value.value, bool):
            return stmts[0].value.value
        return None

    def regex_decision(t: ast.AST, r: bool, st: ast.AST) -> Decision | None:
        neg = isinstance(t, ast.UnaryOp) and isinstance(t.op, ast.Not)
        c = t.operand if neg else t
        if isinstance(c, ast.Call) and isinstance(c.func, ast.Attribute) and c.func.attr in ("match", "search", "fullmatch") and isinstance(c.func.value, ast.Name) and len(c.args) == 1 and isinstance(c.args[0], ast.Name) and c.args[0].id == pv:
            pat = project.const(em, c.func.value.id)
            if not isinstance(pat, RegexConst):
                raise AnalysisError(f"needs_quotes: {c.func.value.id} is not a regex constant")
            how = c.func.attr
            if not neg and r is False:
                return Decision("bare-if-match", (c.func.value.id, pat, how), st)
            if neg and r is True:
                return Decision("quote-unless-match", (c.func.value.id, pat, how), st)
            if not neg and r is True:
                return Decision("quote-if-regex", (c.func.value.id, pat, how), st)
        return None

    def one(t: ast.AST, r: bool, st: ast.AST) -> Decision | None:
        # not isinstance(value, str) -> False
        if isinstance(t, ast.UnaryOp) and isinstance(t.op, ast.Not) and isinstance(t.operand, ast.Call) and ast.unparse(t.operand.func) == "isinstance" and r is False:
            return Decision("quote-nonstr-false", None, st)
        if isinstance(t, ast.UnaryOp) and isinstance(t.op, ast.Not) and isinstance(t.operand, ast.Name) and t.operand.id == pv and r is True:
            return Decision("quote-empty", None, st)
        if isinstance(t, ast.Compare) and isinstance(t.ops[0], ast.In) and isinstance(t.left, ast.Constant) and isinstance(t.left.value, str) and isinstance(t.comparators[0], ast.Name) and t.comparators[0].id == pv and r is True:
            return Decision("quote-chars", [t.left.value], st)
        # any(ch in value for ch in CHARS)
        if isinstance(t, ast.Call) and ast.unparse(t.func) == "any" and len(t.args) == 1 and isinstance(t.args[0], ast.GeneratorExp) and r is True:
            ge = t.args[0]
            if len(ge.generators) == 1 and not ge.generators[0].ifs and isinstance(ge.generators[0].target, ast.Name) and isinstance(ge.elt, ast.Compare) and isinstance(ge.elt.ops[0], ast.In) and isinstance(ge.elt.left, ast.Name) and ge.elt.left.id == ge.generators[0].target.id and isinstance(ge.elt.comparators[0], ast.Name) and ge.elt.comparators[0].id == pv:
                chars = project.fold(em, ge.generators[0].iter)
                if isinstance(chars, (tuple, list, set, frozenset, str)) and all(isinstance(x, str) for x in chars):
                    return Decision("quote-chars", list(chars), st)
        # value in (...) / value in CONST
        if isinstance(t, ast.Compare) and isinstance(t.ops[0], ast.In) and isinstance(t.left, ast.Name) and t.left.id == pv and r is True:
            lits = project.fold(em, t.comparators[0])
            if not isinstance(lits, (tuple, list, set, frozenset)) or not all(isinstance(x, str) for x in lits):
                raise AnalysisError("needs_quotes: reserved-word collection does not fold to strings")
            return Decision("quote-literals", tuple(sorted(lits)), st)
        return regex_decision(t, r, st)

    for i, st in enumerate(body):
        if isinstance(st, ast.Return):
            v = st.value
            if isinstance(v, ast.Constant) and isinstance(v.value, bool) and i == len(body) - 1:
                continue  # default: False after a final quote-unless-match, True after bare-if-match decisions
            # return not any(p.match(value) for p in PATTERNS): bare iff one of the patterns matches, in table order
            if i == len(body) - 1 and isinstance(v, ast.UnaryOp) and isinstance(v.op, ast.Not) and isinstance(v.operand, ast.Call) and ast.unparse(v.operand.func) == "any" and isinstance(v.operand.args[0], ast.GeneratorExp):
                ge = v.operand.args[0]
                call = ge.elt
                if len(ge.generators) == 1 and not ge.generators[0].ifs and isinstance(ge.generators[0].iter, ast.Name) and isinstance(call, ast.Call) and isinstance(call.func, ast.Attribute) and call.func.attr in ("match", "fullmatch") and isinstance(call.func.value, ast.Name) and call.func.value.id == getattr(ge.generators[0].target, "id", None):
                    table = em.const_node(ge.generators[0].iter.id)
                    if isinstance(table, (ast.Tuple, ast.List)) and all(isinstance(e, ast.Name) for e in table.elts):
                        for e in table.elts:
                            pat = project.const(em, e.id)
                            if not isinstance(pat, RegexConst):
                                raise AnalysisError(f"needs_quotes: {e.id} is not a regex constant")
                            out.append(Decision("bare-if-match", (e.id, pat, call.func.attr), st))
                        continue
            raise AnalysisError(f"needs_quotes: unrecognised return `{ast.unparse(st)}`")
        if not isinstance(st, ast.If) or st.orelse:
            raise AnalysisError(f"needs_quotes: unrecognised statement `{ast.unparse(st)[:60]}`")
        r = ret_const(st.body)
        if r is None:
            raise AnalysisError(f"needs_quotes: branch body is not `return True/False`: `{ast.unparse(st)[:60]}`")
        t = st.test
        txt = ast.unparse(t)
        # a disjunction returning True is the sequence of its operands, in order
        parts = t.values if isinstance(t, ast.BoolOp) and isinstance(t.op, ast.Or) and r is True else [t]
        ds = [one(x, r, st) for x in parts]
        if all(d is not None for d in ds):
            # merge adjacent character tests into one decision (as the original `"\n" in v or "\t" in v` form)
            for d in ds:
                if d.kind == "quote-chars" and out and out[-1].kind == "quote-chars" and out[-1].node is st:
                    out[-1].data = list(out[-1].data) + list(d.data)
                else:
                    out.append(d)
            continue
        raise AnalysisError(f"needs_quotes: unrecognised decision `{txt[:80]}`")
    return out


# ----------------------------------------------------------------------------- scanner shape
def check_scanner_shape(project: Project) -> None:
    """the identifier scanner model (start body* , strip trailing '-', optional <start body* strip '-'>) is bound to the code:
    fail closed when _match_unicode_identifier no longer has that shape"""
    lx = project.mod("core.lexer")
    fn = lx.func("_match_unicode_identifier").node

    # the scanner may be split into helpers of the lexer module (an extracted "scan identifier end", a shared qualifier
    # scanner): view it with those helpers expanded at every call site. Character predicates and the sibling matchers
    # (_is_*, _match_*) are not part of this scanner's own shape.
    def expanded(f: ast.AST, depth: int = 0) -> list[ast.AST]:
        out: list[ast.AST] = []
        for n in walk_no_nested(f):
            out.append(n)
            if depth < 3 and isinstance(n, ast.Call) and isinstance(n.func, ast.Name) and lx.has_func(n.func.id) and not n.func.id.startswith(("_is_", "_match_")) and n.func.id != getattr(f, "name", ""):
                # constant delimiters handed to the helper count as the tests the helper performs with them
                for a in n.args:
                    if isinstance(a, ast.Constant) and a.value in ("<", ">"):
                        out.append(ast.Compare(left=ast.Name(id="_delim", ctx=ast.Load()), ops=[ast.Eq()], comparators=[ast.Constant(value=a.value)]))
                out += expanded(lx.func(n.func.id).node, depth + 1)
        return out

    nodes = expanded(fn)
    whiles = [n for n in nodes if isinstance(n, ast.While)]
    body_loops = [w for w in whiles if "_is_valid_identifier_char(content[" in ast.unparse(w.test)]
    strip_loops = [w for w in whiles if "== '-'" in ast.unparse(w.test)]
    start_tests = [n for n in nodes if isinstance(n, ast.Call) and ast.unparse(n.func) == "_is_valid_identifier_start"]
    lt = [n for n in nodes if isinstance(n, ast.Compare) and isinstance(n.comparators[0], ast.Constant) and n.comparators[0].value == "<"]
    gt = [n for n in nodes if isinstance(n, ast.Compare) and isinstance(n.comparators[0], ast.Constant) and n.comparators[0].value == ">"]
    if not (len(body_loops) == 2 and len(strip_loops) == 2 and len(start_tests) == 2 and len(lt) == 1 and len(gt) == 1):
        raise AnalysisError(
            "_match_unicode_identifier no longer has the shape the tokenizer model assumes "
            f"(body loops={len(body_loops)}, hyphen-strip loops={len(strip_loops)}, start tests={len(start_tests)}, '<' tests={len(lt)}, '>' tests={len(gt)}): model is stale")
    # loop bodies only advance the index by one
    for w in body_loops:
        if not (len(w.body) == 1 and isinstance(w.body[0], ast.AugAssign) and isinstance(w.body[0].op, ast.Add) and isinstance(w.body[0].value, ast.Constant) and w.body[0].value.value == 1):
            raise AnalysisError("_match_unicode_identifier: body loop does more than advance by one: model is stale")


# ----------------------------------------------------------------------------- automata for the model
def scanner_nfa(lm: LexModel, annotated: bool) -> rx.NFA:
    """strings the identifier scanner consumes exactly (when followed by a non-identifier character):
       plain:      S B* not ending in '-'
       annotated:  plain '<' S B*(not ending '-') '>'   (qualifier as scanned by the code)"""
    b = rx.Builder(lm.alphabet)  # type: ignore[arg-type]
    S, B = lm.start_chars, lm.body_chars
    nh = B - {"-"}

    def ident():
        # S | S B* (B minus '-')   ; a lone start char that is '-' cannot happen ('-' is not a start char)
        one = b.sym(S - {"-"})
        many = b.seq(b.sym(S), b.star(b.sym(B)), b.sym(nh))
        return b.alt(one, many)

    if not annotated:
        return b.finish(ident())
    return b.finish(b.seq(ident(), b.sym(["<"]), ident(), b.sym([">"])))


def regex_sim(lm: LexModel, pattern: str, flags: int = 0, prefix: bool = False, search: bool = False, ctx_prev_word: bool = False, begin_is_string_start: bool = True) -> rx.Sim:
    b = rx.Builder(lm.alphabet)  # type: ignore[arg-type]
    fr = b.regex(pattern, flags)
    if search:
        fr = b.seq(b.any_star(), fr)
    if prefix or search:
        fr = b.seq(fr, b.any_star())
    return rx.Sim(b.finish(fr), lm.alphabet, begin_is_string_start=begin_is_string_start, ctx_prev_word=ctx_prev_word)  # type: ignore[arg-type]


def literal_set_sim(lm: LexModel, words) -> rx.Sim:
    b = rx.Builder(lm.alphabet)  # type: ignore[arg-type]
    frs = [b.lit(w) for w in words]
    fr = b.alt(*frs) if frs else b.sym([])
    return rx.Sim(b.finish(fr), lm.alphabet)  # type: ignore[arg-type]
