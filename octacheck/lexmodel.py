"""Model of the tokenizer and of the emitter's quoting decision, extracted from the source on every run."""
from __future__ import annotations

import ast
from dataclasses import dataclass, field

from . import rx
from .source import AnalysisError, EnumRef, Project, RegexConst, walk_no_nested


@dataclass
class Decision:
    """one step of needs_quotes, in source order"""

    kind: str  # 'quote-literals' | 'quote-chars' | 'quote-empty' | 'quote-nonstr-false' | 'bare-if-match' | 'quote-unless-match' | 'quote-if-regex'
    data: object = None
    node: ast.AST | None = None


@dataclass
class LexModel:
    project: Project
    token_patterns: list[tuple[str, str]] = field(default_factory=list)  # (regex, TokenType member)
    aliases: dict[str, str] = field(default_factory=dict)
    operator_chars: frozenset[str] = frozenset()
    emitter_patterns: dict[str, RegexConst] = field(default_factory=dict)
    decisions: list[Decision] = field(default_factory=list)
    expression_operator_types: frozenset[str] = frozenset()
    value_token_types: frozenset[str] = frozenset()
    alphabet: rx.Alphabet | None = None
    start_chars: frozenset[str] = frozenset()
    body_chars: frozenset[str] = frozenset()
    token_types: list[str] = field(default_factory=list)


def _member(v) -> str:
    if isinstance(v, EnumRef):
        return v.member
    raise AnalysisError(f"expected a TokenType member, got {v!r}")


def build(project: Project) -> LexModel:
    lm = LexModel(project)
    lx = project.mod("core.lexer")
    em = project.mod("core.emitter")
    ps = project.mod("core.parser")
    tp = project.const(lx, "TOKEN_PATTERNS")
    if not isinstance(tp, list) or not tp:
        raise AnalysisError("TOKEN_PATTERNS did not fold to a list")
    for entry in tp:
        if not (isinstance(entry, tuple) and len(entry) == 2 and isinstance(entry[0], str)):
            raise AnalysisError(f"TOKEN_PATTERNS entry {entry!r} is not (regex, TokenType)")
        lm.token_patterns.append((entry[0], _member(entry[1])))
    al = project.const(lx, "ASCII_ALIASES")
    if not isinstance(al, dict):
        raise AnalysisError("ASCII_ALIASES did not fold to a dict")
    lm.aliases = dict(al)
    oc = project.const(lx, "OPERATOR_CHARS")
    lm.operator_chars = frozenset(oc)
    from .source import enum_members

    lm.token_types = enum_members(project, "core.lexer", "TokenType")
    for name in ("IDENTIFIER_PATTERN", "ANNOTATION_PATTERN", "EXPRESSION_PATTERN", "VARIABLE_PATTERN"):
        v = project.const(em, name)
        if not isinstance(v, RegexConst):
            raise AnalysisError(f"emitter.{name} is not a compiled regex constant")
        lm.emitter_patterns[name] = v
    # other regex constants of the emitter referenced by needs_quotes are folded on demand
    lm.expression_operator_types = frozenset(_member(x) for x in project.const(ps, "EXPRESSION_OPERATORS"))
    lm.value_token_types = frozenset(_member(x) for x in project.const(ps, "VALUE_TOKENS"))

    # alphabet: every non-ASCII char that occurs in the constants in play
    extra = set(lm.operator_chars)
    for pat, _ in lm.token_patterns:
        extra.update(c for c in pat if ord(c) >= 128)
    for v in lm.emitter_patterns.values():
        extra.update(c for c in v.pattern if ord(c) >= 128)
    for k, v in lm.aliases.items():
        extra.update(c for c in k + v if ord(c) >= 128)
    lm.alphabet = rx.Alphabet(extra)

    # character predicates
    funcs = {}
    for name in ("_is_valid_identifier_start", "_is_valid_identifier_char"):
        funcs[name] = lx.func(name).node
    pe = rx.PredicateEval(funcs, {"OPERATOR_CHARS": lm.operator_chars})
    lm.start_chars = frozenset(c for c in lm.alphabet.symbols if pe.call("_is_valid_identifier_start", c))
    lm.body_chars = frozenset(c for c in lm.alphabet.symbols if pe.call("_is_valid_identifier_char", c))

    lm.decisions = extract_decisions(project, em)
    check_scanner_shape(project)
    return lm


# ----------------------------------------------------------------------------- needs_quotes
def extract_decisions(project: Project, em) -> list[Decision]:
    fi = em.func("needs_quotes")
    pv = fi.node.args.args[0].arg  # type: ignore[attr-defined]
    out: list[Decision] = []
    body = [s for s in fi.node.body if not (isinstance(s, ast.Expr) and isinstance(s.value, ast.Constant))]

    def ret_const(stmts) -> bool | None:
        if len(stmts) == 1 and isinstance(stmts[0], ast.Return) and isinstance(stmts[0].value, ast.Constant) and isinstance(stmts[0].value.value, bool):
            return stmts[0].value.value
        return None

    for i, st in enumerate(body):
        if isinstance(st, ast.Return):
            if isinstance(st.value, ast.Constant) and st.value.value is False and i == len(body) - 1:
                continue
            raise AnalysisError(f"needs_quotes: unrecognised return `{ast.unparse(st)}`")
        if not isinstance(st, ast.If) or st.orelse:
            raise AnalysisError(f"needs_quotes: unrecognised statement `{ast.unparse(st)[:60]}`")
        r = ret_const(st.body)
        if r is None:
            raise AnalysisError(f"needs_quotes: branch body is not `return True/False`: `{ast.unparse(st)[:60]}`")
        t = st.test
        txt = ast.unparse(t)
        # not isinstance(value, str) -> False
        if isinstance(t, ast.UnaryOp) and isinstance(t.op, ast.Not) and isinstance(t.operand, ast.Call) and ast.unparse(t.operand.func) == "isinstance" and r is False:
            out.append(Decision("quote-nonstr-false", None, st))
            continue
        if isinstance(t, ast.UnaryOp) and isinstance(t.op, ast.Not) and isinstance(t.operand, ast.Name) and t.operand.id == pv and r is True:
            out.append(Decision("quote-empty", None, st))
            continue
        # "\n" in value or "\t" in value ...
        ops = t.values if isinstance(t, ast.BoolOp) and isinstance(t.op, ast.Or) else [t]
        if all(isinstance(o, ast.Compare) and isinstance(o.ops[0], ast.In) and isinstance(o.left, ast.Constant) and isinstance(o.left.value, str) and isinstance(o.comparators[0], ast.Name) and o.comparators[0].id == pv for o in ops) and r is True:
            out.append(Decision("quote-chars", [o.left.value for o in ops], st))
            continue
        # value in (...)
        if isinstance(t, ast.Compare) and isinstance(t.ops[0], ast.In) and isinstance(t.left, ast.Name) and t.left.id == pv and r is True:
            lits = project.fold(em, t.comparators[0])
            if not isinstance(lits, (tuple, list, set, frozenset)) or not all(isinstance(x, str) for x in lits):
                raise AnalysisError("needs_quotes: reserved-word collection does not fold to strings")
            out.append(Decision("quote-literals", tuple(lits), st))
            continue
        # PAT.match(value) / PAT.search(value) / PAT.fullmatch(value)
        neg = isinstance(t, ast.UnaryOp) and isinstance(t.op, ast.Not)
        c = t.operand if neg else t
        if isinstance(c, ast.Call) and isinstance(c.func, ast.Attribute) and c.func.attr in ("match", "search", "fullmatch") and isinstance(c.func.value, ast.Name) and len(c.args) == 1 and isinstance(c.args[0], ast.Name) and c.args[0].id == pv:
            pat = project.const(em, c.func.value.id)
            if not isinstance(pat, RegexConst):
                raise AnalysisError(f"needs_quotes: {c.func.value.id} is not a regex constant")
            how = c.func.attr
            if not neg and r is False:
                out.append(Decision("bare-if-match", (c.func.value.id, pat, how), st))
                continue
            if neg and r is True:
                out.append(Decision("quote-unless-match", (c.func.value.id, pat, how), st))
                continue
            if not neg and r is True:
                out.append(Decision("quote-if-regex", (c.func.value.id, pat, how), st))
                continue
        raise AnalysisError(f"needs_quotes: unrecognised decision `{txt[:80]}`")
    return out


# ----------------------------------------------------------------------------- scanner shape
def check_scanner_shape(project: Project) -> None:
    """the identifier scanner model (start body* , strip trailing '-', optional <start body* strip '-'>) is bound to the code:
    fail closed when _match_unicode_identifier no longer has that shape"""
    lx = project.mod("core.lexer")
    fn = lx.func("_match_unicode_identifier").node
    src = ast.unparse(fn)
    whiles = [n for n in walk_no_nested(fn) if isinstance(n, ast.While)]
    body_loops = [w for w in whiles if "_is_valid_identifier_char(content[" in ast.unparse(w.test)]
    strip_loops = [w for w in whiles if "== '-'" in ast.unparse(w.test)]
    start_tests = [n for n in walk_no_nested(fn) if isinstance(n, ast.Call) and ast.unparse(n.func) == "_is_valid_identifier_start"]
    lt = [n for n in walk_no_nested(fn) if isinstance(n, ast.Compare) and isinstance(n.comparators[0], ast.Constant) and n.comparators[0].value == "<"]
    gt = [n for n in walk_no_nested(fn) if isinstance(n, ast.Compare) and isinstance(n.comparators[0], ast.Constant) and n.comparators[0].value == ">"]
    if not (len(body_loops) == 2 and len(strip_loops) == 2 and len(start_tests) == 2 and len(lt) == 1 and len(gt) == 1):
        raise AnalysisError(
            "_match_unicode_identifier no longer has the shape the tokenizer model assumes "
            f"(body loops={len(body_loops)}, hyphen-strip loops={len(strip_loops)}, start tests={len(start_tests)}, '<' tests={len(lt)}, '>' tests={len(gt)}): model is stale")
    # loop bodies only advance the index by one
    for w in body_loops:
        if not (len(w.body) == 1 and isinstance(w.body[0], ast.AugAssign) and isinstance(w.body[0].op, ast.Add) and isinstance(w.body[0].value, ast.Constant) and w.body[0].value.value == 1):
            raise AnalysisError("_match_unicode_identifier: body loop does more than advance by one: model is stale")


# ----------------------------------------------------------------------------- automata for the model
def scanner_nfa(lm: LexModel, annotated: bool) -> rx.NFA:
    """strings the identifier scanner consumes exactly (when followed by a non-identifier character):
       plain:      S B* not ending in '-'
       annotated:  plain '<' S B*(not ending '-') '>'   (qualifier as scanned by the code)"""
    b = rx.Builder(lm.alphabet)  # type: ignore[arg-type]
    S, B = lm.start_chars, lm.body_chars
    nh = B - {"-"}

    def ident():
        # S | S B* (B minus '-')   ; a lone start char that is '-' cannot happen ('-' is not a start char)
        one = b.sym(S - {"-"})
        many = b.seq(b.sym(S), b.star(b.sym(B)), b.sym(nh))
        return b.alt(one, many)

    if not annotated:
        return b.finish(ident())
    return b.finish(b.seq(ident(), b.sym(["<"]), ident(), b.sym([">"])))


def regex_sim(lm: LexModel, pattern: str, flags: int = 0, prefix: bool = False, search: bool = False, ctx_prev_word: bool = False, begin_is_string_start: bool = True) -> rx.Sim:
    b = rx.Builder(lm.alphabet)  # type: ignore[arg-type]
    fr = b.regex(pattern, flags)
    if search:
        fr = b.seq(b.any_star(), fr)
    if prefix or search:
        fr = b.seq(fr, b.any_star())
    return rx.Sim(b.finish(fr), lm.alphabet, begin_is_string_start=begin_is_string_start, ctx_prev_word=ctx_prev_word)  # type: ignore[arg-type]


def literal_set_sim(lm: LexModel, words) -> rx.Sim:
    b = rx.Builder(lm.alphabet)  # type: ignore[arg-type]
    frs = [b.lit(w) for w in words]
    fr = b.alt(*frs) if frs else b.sym([])
    return rx.Sim(b.finish(fr), lm.alphabet)  # type: ignore[arg-type]
