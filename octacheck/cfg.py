"""E3: statement-level control-flow graph for one function, with exception edges,
dominators, post-dominators and bounded path enumeration.

Nodes are small integers; each carries the ast node it stands for:
  kind 'entry' / 'exit' (normal return) / 'raise' (exceptional exit)
  kind 'stmt'   simple statement (Assign, Expr, Return, Raise, ...)
  kind 'test'   the condition of an if / while (node.ast is the test expression, node.owner the If/While)
  kind 'iter'   the iterator step of a for loop (node.owner is the For)
  kind 'with'   evaluation of with-items
  kind 'handler' entry of an except clause (node.ast is the ExceptHandler)
Edges carry a label: 'n' normal, 't' true, 'f' false, 'x' exception, 'loop' (for: next item), 'done' (for: exhausted).
"""
from __future__ import annotations

import ast
from dataclasses import dataclass, field
from typing import Callable, Iterable, Iterator

from .source import walk_no_nested

CATCH_ALL = {"Exception", "BaseException"}


@dataclass
class Node:
    id: int
    kind: str
    ast: ast.AST | None = None
    owner: ast.AST | None = None

    @property
    def lineno(self) -> int:
        return getattr(self.ast, "lineno", 0) or getattr(self.owner, "lineno", 0)

    def __repr__(self) -> str:  # pragma: no cover
        t = ""
        if self.ast is not None:
            try:
                t = " ".join(ast.unparse(self.ast).split())[:50]
            except Exception:  # noqa: BLE001
                t = type(self.ast).__name__
        return f"<{self.id}:{self.kind}@{self.lineno} {t}>"


def may_raise_stmt(node: ast.AST) -> bool:
    """statement-level approximation: anything containing a call, raise, assert, subscript,
    await or attribute access on a call result may raise."""
    for n in walk_no_nested(node):
        if isinstance(n, (ast.Call, ast.Raise, ast.Assert, ast.Subscript, ast.Await, ast.BinOp)):
            return True
    return False


def may_raise_calls_only(node: ast.AST) -> bool:
    for n in walk_no_nested(node):
        if isinstance(n, (ast.Call, ast.Raise, ast.Await)):
            return True
    return False


# filled by octacheck.source.Project: simple names of package functions whose return annotation excludes None
RETURNS_NOT_NONE: set[str] = set()


class CFG:
    def __init__(self, fn: ast.AST, raise_pred: Callable[[ast.AST], bool] = may_raise_calls_only):
        self.fn = fn
        self.nodes: list[Node] = []
        self.succ: dict[int, list[tuple[int, str]]] = {}
        self.pred: dict[int, list[tuple[int, str]]] = {}
        self.raise_pred = raise_pred
        self.entry = self._new("entry").id
        self.exit = self._new("exit").id
        self.raise_exit = self._new("raise").id
        self.by_ast: dict[int, list[int]] = {}
        # context stacks
        self._loops: list[tuple[int, list[tuple[int, str]]]] = []  # (continue target, break sources)
        self._tries: list[dict] = []
        ends = self._block(fn.body, [(self.entry, "n")])  # type: ignore[attr-defined]
        for p, lab in ends:
            self._edge(p, self.exit, lab)
        self.threaded_edges = self._thread_none_tests()
        self._dom: dict[int, set[int]] | None = None
        self._pdom: dict[int, set[int]] | None = None

    def _thread_none_tests(self) -> int:
        """jump threading for the one correlation that needs no analysis: `x = None` (or `x = <literal / display / f-string>`)
        followed - directly, or through nothing but break / continue / pass - by the test `x is None` / `x is not None`. The
        edge into the test is redirected to the branch the assignment decides; the other branch was never feasible from there.
        Only chains whose intermediate nodes have that single predecessor are touched. Returns the number of edges moved."""
        def none_test(t: ast.AST | None) -> tuple[str, bool] | None:
            neg = False
            while isinstance(t, ast.UnaryOp) and isinstance(t.op, ast.Not):
                t, neg = t.operand, not neg
            if isinstance(t, ast.Compare) and len(t.ops) == 1 and isinstance(t.left, ast.Name) and isinstance(t.comparators[0], ast.Constant) and t.comparators[0].value is None and isinstance(t.ops[0], (ast.Is, ast.IsNot)):
                return t.left.id, isinstance(t.ops[0], ast.IsNot) != neg  # (name, edge "t" means not None)
            return None

        moved = 0
        for a in list(self.nodes):
            if a.kind != "stmt" or not isinstance(a.ast, ast.Assign) or len(a.ast.targets) != 1 or not isinstance(a.ast.targets[0], ast.Name):
                continue
            v = a.ast.value

            def call_not_none(c: ast.AST) -> bool:
                return isinstance(c, ast.Call) and ((isinstance(c.func, ast.Name) and c.func.id in RETURNS_NOT_NONE) or (isinstance(c.func, ast.Attribute) and isinstance(c.func.value, ast.Name) and c.func.value.id in ("self", "cls") and c.func.attr in RETURNS_NOT_NONE))

            if isinstance(v, ast.Constant):
                is_none = v.value is None
            elif isinstance(v, (ast.JoinedStr, ast.Dict, ast.List, ast.Tuple, ast.Set)):
                is_none = False
            elif call_not_none(v):
                is_none = False
            elif isinstance(v, ast.Name):
                # a copy of a local whose only binding is such a call
                binds = [n_ for n_ in ast.walk(self.fn) if isinstance(n_, ast.Name) and n_.id == v.id and isinstance(n_.ctx, (ast.Store, ast.Del))]
                src_ = getattr(binds[0], "_parent", None) if len(binds) == 1 else None
                if isinstance(src_, ast.Assign) and len(src_.targets) == 1 and src_.targets[0] is binds[0] and call_not_none(src_.value):
                    is_none = False
                else:
                    continue
            else:
                continue
            x = a.ast.targets[0].id
            cur = a.id
            ok = True
            while ok:
                normal = [(s_, lab) for s_, lab in self.succ[cur] if lab != "x"]
                if len(normal) != 1:
                    ok = False
                    break
                nxt, lab = normal[0]
                nn = self.nodes[nxt]
                if nn.kind == "test":
                    tv = none_test(nn.ast)
                    if tv is None or tv[0] != x:
                        ok = False
                        break
                    take = "t" if tv[1] != is_none else "f"
                    dests = [s_ for s_, l2 in self.succ[nxt] if l2 == take]
                    if len(dests) != 1:
                        ok = False
                        break
                    # move the edge cur -> test to cur -> decided branch
                    self.succ[cur] = [(s_, l2) for s_, l2 in self.succ[cur] if not (s_ == nxt and l2 == lab)]
                    self.pred[nxt] = [(p_, l2) for p_, l2 in self.pred[nxt] if not (p_ == cur and l2 == lab)]
                    self._edge(cur, dests[0], lab)
                    moved += 1
                    break
                if nn.kind == "stmt" and isinstance(nn.ast, (ast.Break, ast.Continue, ast.Pass)) and len([p_ for p_, l2 in self.pred[nxt] if l2 != "x"]) == 1:
                    cur = nxt
                    continue
                ok = False
        return moved

    # ---------------------------------------------------------------- build
    def _new(self, kind: str, a: ast.AST | None = None, owner: ast.AST | None = None) -> Node:
        n = Node(len(self.nodes), kind, a, owner)
        self.nodes.append(n)
        self.succ[n.id] = []
        self.pred[n.id] = []
        if a is not None:
            self.by_ast.setdefault(id(a), []).append(n.id)
        return n

    def _edge(self, a: int, b: int, lab: str = "n") -> None:
        if (b, lab) not in self.succ[a]:
            self.succ[a].append((b, lab))
            self.pred[b].append((a, lab))

    def _connect(self, preds: list[tuple[int, str]], to: int) -> None:
        for p, lab in preds:
            self._edge(p, to, lab)

    def _exc_targets(self) -> list[int]:
        """where an exception raised here may go: handlers of enclosing try bodies, outward until a catch-all."""
        out: list[int] = []
        for ctx in reversed(self._tries):
            if ctx["zone"] == "body":
                out.extend(ctx["handlers"])
                if ctx["catch_all"]:
                    return out
                if ctx["finally"] is not None:
                    out.append(ctx["finally"])
                    return out
            elif ctx["zone"] in ("handler", "orelse"):
                if ctx["finally"] is not None:
                    out.append(ctx["finally"])
                    return out
        out.append(self.raise_exit)
        return out

    def _add_exc(self, n: Node, node_ast: ast.AST) -> None:
        if isinstance(node_ast, ast.Raise) or self.raise_pred(node_ast):
            for t in self._exc_targets():
                self._edge(n.id, t, "x")

    def _block(self, stmts: list[ast.stmt], preds: list[tuple[int, str]]) -> list[tuple[int, str]]:
        for st in stmts:
            preds = self._stmt(st, preds)
        return preds

    def _stmt(self, st: ast.stmt, preds: list[tuple[int, str]]) -> list[tuple[int, str]]:
        if isinstance(st, ast.If):
            t = self._new("test", st.test, st)
            self._connect(preds, t.id)
            self._add_exc(t, st.test)
            a = self._block(st.body, [(t.id, "t")])
            b = self._block(st.orelse, [(t.id, "f")]) if st.orelse else [(t.id, "f")]
            return a + b
        if isinstance(st, ast.While):
            t = self._new("test", st.test, st)
            self._connect(preds, t.id)
            self._add_exc(t, st.test)
            breaks: list[tuple[int, str]] = []
            self._loops.append((t.id, breaks))
            body_end = self._block(st.body, [(t.id, "t")])
            self._loops.pop()
            self._connect(body_end, t.id)
            out: list[tuple[int, str]] = []
            const_true = isinstance(st.test, ast.Constant) and bool(st.test.value)
            if not const_true:
                if st.orelse:
                    out += self._block(st.orelse, [(t.id, "f")])
                else:
                    out.append((t.id, "f"))
            return out + breaks
        if isinstance(st, (ast.For, ast.AsyncFor)):
            it = self._new("iter", st.iter, st)
            self._connect(preds, it.id)
            self._add_exc(it, st.iter)
            breaks = []
            self._loops.append((it.id, breaks))
            body_end = self._block(st.body, [(it.id, "loop")])
            self._loops.pop()
            self._connect(body_end, it.id)
            if st.orelse:
                out = self._block(st.orelse, [(it.id, "done")])
            else:
                out = [(it.id, "done")]
            return out + breaks
        if isinstance(st, (ast.With, ast.AsyncWith)):
            w = self._new("with", st, st)
            self._connect(preds, w.id)
            for item in st.items:
                if self.raise_pred(item.context_expr):
                    for t in self._exc_targets():
                        self._edge(w.id, t, "x")
                    break
            return self._block(st.body, [(w.id, "n")])
        if isinstance(st, ast.Try) or st.__class__.__name__ == "TryStar":
            return self._try(st, preds)  # type: ignore[arg-type]
        if isinstance(st, ast.Return):
            n = self._new("stmt", st)
            self._connect(preds, n.id)
            if st.value is not None:
                self._add_exc(n, st.value)
            fin = self._innermost_finally()
            if fin is not None:
                self._edge(n.id, fin, "n")
                self._finally_returns = True
            else:
                self._edge(n.id, self.exit, "n")
            return []
        if isinstance(st, ast.Raise):
            n = self._new("stmt", st)
            self._connect(preds, n.id)
            for t in self._exc_targets():
                self._edge(n.id, t, "x")
            return []
        if isinstance(st, ast.Break):
            n = self._new("stmt", st)
            self._connect(preds, n.id)
            if self._loops:
                self._loops[-1][1].append((n.id, "n"))
            return []
        if isinstance(st, ast.Continue):
            n = self._new("stmt", st)
            self._connect(preds, n.id)
            if self._loops:
                self._edge(n.id, self._loops[-1][0], "n")
            return []
        if isinstance(st, (ast.FunctionDef, ast.AsyncFunctionDef, ast.ClassDef)):
            n = self._new("stmt", st)
            self._connect(preds, n.id)
            return [(n.id, "n")]
        if st.__class__.__name__ == "Match":
            m = self._new("test", st.subject, st)  # type: ignore[attr-defined]
            self._connect(preds, m.id)
            self._add_exc(m, st.subject)  # type: ignore[attr-defined]
            outs: list[tuple[int, str]] = []
            exhaustive = False
            for case in st.cases:  # type: ignore[attr-defined]
                outs += self._block(case.body, [(m.id, "t")])
                if isinstance(case.pattern, ast.MatchAs) and case.pattern.pattern is None and case.guard is None:
                    exhaustive = True
            if not exhaustive:
                outs.append((m.id, "f"))
            return outs
        # simple statement
        n = self._new("stmt", st)
        self._connect(preds, n.id)
        self._add_exc(n, st)
        return [(n.id, "n")]

    def _innermost_finally(self) -> int | None:
        for ctx in reversed(self._tries):
            if ctx["finally"] is not None and ctx["zone"] != "finally":
                return ctx["finally"]
        return None

    def _try(self, st: ast.Try, preds: list[tuple[int, str]]) -> list[tuple[int, str]]:
        handler_nodes = [self._new("handler", h, st) for h in st.handlers]
        catch_all = False
        for h in st.handlers:
            if h.type is None:
                catch_all = True
            else:
                names = [h.type] if not isinstance(h.type, ast.Tuple) else list(h.type.elts)
                for nm in names:
                    if ast.unparse(nm).split(".")[-1] in CATCH_ALL:
                        catch_all = True
        fin_entry = None
        fin_node = None
        if st.finalbody:
            fin_node = self._new("stmt", ast.Pass(), st)  # synthetic join before the finally body
            fin_node.kind = "finally"
            fin_entry = fin_node.id
        ctx = {"zone": "body", "handlers": [h.id for h in handler_nodes], "catch_all": catch_all, "finally": fin_entry}
        self._tries.append(ctx)
        body_end = self._block(st.body, preds)
        ctx["zone"] = "orelse"
        if st.orelse:
            body_end = self._block(st.orelse, body_end)
        outs = list(body_end)
        ctx["zone"] = "handler"
        for h, hn in zip(st.handlers, handler_nodes):
            outs += self._block(h.body, [(hn.id, "n")])
        ctx["zone"] = "finally"
        if st.finalbody:
            assert fin_entry is not None
            self._connect(outs, fin_entry)
            self._tries.pop()
            fin_end = self._block(st.finalbody, [(fin_entry, "n")])
            # after finally: normal continuation, or propagate (exception / return) - over-approximate both
            for p, lab in fin_end:
                for t in self._exc_targets():
                    self._edge(p, t, "x")
                self._edge(p, self.exit, "fin-return")
            return fin_end
        self._tries.pop()
        return outs

    # ------------------------------------------------------------- queries
    def nodes_of(self, a: ast.AST) -> list[int]:
        return self.by_ast.get(id(a), [])

    def node_for_stmt_containing(self, inner: ast.AST) -> list[int]:
        """CFG nodes whose ast contains `inner` (statement or test that evaluates it)."""
        cur: ast.AST | None = inner
        while cur is not None:
            ids = self.by_ast.get(id(cur))
            if ids:
                return ids
            if isinstance(cur, (ast.With, ast.AsyncWith)):
                ids = self.by_ast.get(id(cur))
                if ids:
                    return ids
            cur = getattr(cur, "_parent", None)
            if cur is self.fn:
                break
        return []

    def reachable(self, start: int | None = None, skip_exc: bool = False) -> set[int]:
        start = self.entry if start is None else start
        seen = {start}
        stack = [start]
        while stack:
            n = stack.pop()
            for s, lab in self.succ[n]:
                if skip_exc and lab == "x":
                    continue
                if s not in seen:
                    seen.add(s)
                    stack.append(s)
        return seen

    def dominators(self) -> dict[int, set[int]]:
        if self._dom is None:
            self._dom = _dominators(self.entry, [n.id for n in self.nodes], self.succ, self.pred)
        return self._dom

    def postdominators(self, exits: Iterable[int] | None = None) -> dict[int, set[int]]:
        """post-dominators w.r.t. a virtual sink joined from the given exits (default: normal exit only)."""
        ex = list(exits) if exits is not None else [self.exit]
        sink = -1
        succ = {k: list(v) for k, v in self.pred.items()}  # reversed graph
        pred = {k: list(v) for k, v in self.succ.items()}
        succ[sink] = [(e, "n") for e in ex]
        pred[sink] = []
        for e in ex:
            pred[e] = pred[e] + [(sink, "n")]
        return _dominators(sink, [n.id for n in self.nodes] + [sink], succ, pred)

    def dominated_by(self, n: int, d: int) -> bool:
        return d in self.dominators().get(n, set())

    def all_paths_pass(self, src: int, dst: int, through: Callable[[Node], bool], labels_excluded: set[str] | None = None) -> list[int] | None:
        """must-pass-through: is there a path src ->* dst avoiding every node satisfying `through`?
        returns such a path (list of node ids) as a witness, or None when every path passes through one."""
        labels_excluded = labels_excluded or set()
        prev: dict[int, int] = {}
        seen = {src}
        stack = [src]
        while stack:
            n = stack.pop()
            if n == dst and n != src:
                path = [n]
                while path[-1] != src:
                    path.append(prev[path[-1]])
                return list(reversed(path))
            for s, lab in self.succ[n]:
                if lab in labels_excluded:
                    continue
                if s in seen:
                    continue
                if s != dst and through(self.nodes[s]):
                    continue
                seen.add(s)
                prev[s] = n
                stack.append(s)
        return None

    def path_exists(self, src: int, dst: int, labels_excluded: set[str] | None = None) -> bool:
        return self.all_paths_pass(src, dst, lambda n: False, labels_excluded) is not None

    def describe_path(self, path: list[int], relpath: str) -> list[str]:
        out = []
        for p in path:
            n = self.nodes[p]
            if n.kind in ("entry", "exit", "raise"):
                out.append(n.kind)
            else:
                out.append(f"{relpath}:{n.lineno} {n.kind}")
        return out

    def stmts(self) -> Iterator[Node]:
        for n in self.nodes:
            if n.kind not in ("entry", "exit", "raise"):
                yield n


def _dominators(entry: int, nodes: list[int], succ: dict[int, list[tuple[int, str]]], pred: dict[int, list[tuple[int, str]]]) -> dict[int, set[int]]:
    # reachable subgraph only
    reach = {entry}
    stack = [entry]
    while stack:
        n = stack.pop()
        for s, _ in succ.get(n, []):
            if s not in reach:
                reach.add(s)
                stack.append(s)
    order = [n for n in nodes if n in reach]
    full = set(order)
    dom: dict[int, set[int]] = {n: set(full) for n in order}
    dom[entry] = {entry}
    changed = True
    while changed:
        changed = False
        for n in order:
            if n == entry:
                continue
            ps = [p for p, _ in pred.get(n, []) if p in reach]
            if not ps:
                continue
            new = set(full)
            for p in ps:
                new &= dom[p]
            new.add(n)
            if new != dom[n]:
                dom[n] = new
                changed = True
    return dom


def branch_conditions(cfg: CFG, target: int) -> list[tuple[ast.AST, bool]]:
    """conditions that hold whenever `target` executes: for each dominating test node whose only
    route to target goes through one labelled edge, report (test expr, truth value)."""
    dom = cfg.dominators().get(target, set())
    out: list[tuple[ast.AST, bool]] = []
    for d in sorted(dom):
        n = cfg.nodes[d]
        if n.kind != "test" or d == target:
            continue
        # which labelled successors reach target without passing d again?
        labs = set()
        for s, lab in cfg.succ[d]:
            if lab == "x":
                continue
            if s == target or _reaches_avoiding(cfg, s, target, d):
                labs.add(lab)
        if labs == {"t"}:
            out.append((n.ast, True))  # type: ignore[arg-type]
        elif labs == {"f"}:
            out.append((n.ast, False))  # type: ignore[arg-type]
    return out


def reaching_assignments(cfg: CFG, target: int, name: str) -> list[ast.AST] | None:
    """the statements `name = ...` (plain, annotated or augmented assignment, with-as, for target) whose binding can reach
    `target` along normal edges; None when some path from the entry reaches `target` with no binding of `name` at all"""
    def binds(n: Node) -> bool:
        a = n.ast
        if a is None:
            return False
        if n.kind == "stmt" and isinstance(a, (ast.Assign, ast.AnnAssign, ast.AugAssign)):
            tg = a.targets if isinstance(a, ast.Assign) else [a.target]
            return any(isinstance(x, ast.Name) and x.id == name for t in tg for x in ast.walk(t) if isinstance(getattr(x, "ctx", None), ast.Store))
        if n.kind == "iter" and n.owner is not None and isinstance(n.owner, (ast.For, ast.AsyncFor)):
            return any(isinstance(x, ast.Name) and x.id == name for x in ast.walk(n.owner.target))
        if n.kind == "with" and isinstance(a, (ast.With, ast.AsyncWith)):
            return any(isinstance(x, ast.Name) and x.id == name for i in a.items if i.optional_vars is not None for x in ast.walk(i.optional_vars))
        return False

    pred: dict[int, list[int]] = {}
    for s, outs in cfg.succ.items():
        for d, lab in outs:
            if lab != "x":
                pred.setdefault(d, []).append(s)
    out: list[ast.AST] = []
    unbound = False
    seen = {target}
    stack = list(pred.get(target, []))
    while stack:
        n = stack.pop()
        if n in seen:
            continue
        seen.add(n)
        if binds(cfg.nodes[n]):
            a = cfg.nodes[n].ast
            if a is not None and all(a is not o for o in out):
                out.append(a)
            continue
        if n == cfg.entry:
            unbound = True
        stack.extend(pred.get(n, []))
    return None if unbound else out


def atomic_conditions(cfg: CFG, target: int) -> list[tuple[ast.AST, bool]]:
    """branch_conditions with `A and B` (true) and `A or B` (false) split into their operands, recursively; an operand
    that is itself a test keeps its form (a leading `not` is not stripped)"""
    out: list[tuple[ast.AST, bool]] = []

    def split(t: ast.AST, val: bool) -> None:
        if isinstance(t, ast.BoolOp) and ((isinstance(t.op, ast.And) and val) or (isinstance(t.op, ast.Or) and not val)):
            for v in t.values:
                split(v, val)
        else:
            out.append((t, val))

    for t, val in branch_conditions(cfg, target):
        split(t, val)
    return out


def _reaches_avoiding(cfg: CFG, src: int, dst: int, avoid: int) -> bool:
    if src == avoid:
        return False
    seen = {src}
    stack = [src]
    while stack:
        n = stack.pop()
        if n == dst:
            return True
        for s, _ in cfg.succ[n]:
            if s == avoid or s in seen:
                continue
            seen.add(s)
            stack.append(s)
    return False
