"""Findings, rule-instance accounting, known-findings matching, evidence and replay files."""
from __future__ import annotations

import ast
import hashlib
import json
import os
import tempfile
import time
from dataclasses import dataclass, field
from typing import Any

from .source import AnalysisError, Module, norm

VERIF = os.path.dirname(os.path.dirname(os.path.abspath(__file__)))
KNOWN_FILE = os.path.join(VERIF, "known_findings.json")


@dataclass
class Finding:
    prop: str
    rule: str
    module: str  # repo-relative path
    function: str
    construct: str
    message: str
    line: int = 0
    facts: dict[str, Any] = field(default_factory=dict)
    ordinal: int = 0

    def key(self) -> dict[str, Any]:
        return {
            "property": self.prop,
            "rule": self.rule,
            "module": self.module,
            "function": self.function,
            "construct": self.construct,
            "ordinal": self.ordinal,
        }

    def key_str(self) -> str:
        k = self.key()
        return f"{k['rule']}|{k['module']}|{k['function']}|{k['construct']}|{k['ordinal']}"

    def digest(self) -> str:
        return hashlib.sha256(self.key_str().encode()).hexdigest()[:16]


class Run:
    def __init__(self, prop: str, tier: str, project: Any):
        self.prop = prop
        self.tier = tier
        self.project = project
        self.t0 = time.time()
        self.instances: dict[str, list[dict[str, Any]]] = {}
        self.min_instances: dict[str, int] = {}
        self.findings: list[Finding] = []
        self.notes: list[str] = []
        self.assumptions: list[str] = []
        self.rule_text: dict[str, str] = {}
        self.extra: dict[str, Any] = {}
        self.controls: list[dict[str, Any]] = []
        self.analysis_errors: list[str] = []
        self.no_evidence = False

    # ---------------------------------------------------------------- rules
    def rule(self, rule: str, text: str, min_instances: int = 1) -> None:
        self.rule_text[rule] = text
        # vacuity floor: half of the instance count confirmed by reading the pinned tree. A refactoring that merges duplicated
        # sites legitimately lowers the count; a rule that has lost more than half of its anchors is no longer looking at the code
        self.min_instances[rule] = max(1, min_instances // 2)
        self.instances.setdefault(rule, [])

    def instance(self, rule: str, where: str, what: str, ok: bool = True, nontrivial: bool = True, **facts: Any) -> None:
        if rule not in self.rule_text:
            raise AnalysisError(f"internal: rule {rule} not declared")
        rec = {"rule": rule, "where": where, "what": what, "ok": ok, "nontrivial": nontrivial}
        if facts:
            rec["facts"] = facts
        self.instances[rule].append(rec)

    def violation(
        self,
        rule: str,
        mod: Module | str,
        function: str | None,
        node: ast.AST | str,
        message: str,
        **facts: Any,
    ) -> Finding:
        relpath = mod.relpath if isinstance(mod, Module) else mod
        construct = node if isinstance(node, str) else norm(node)
        line = 0 if isinstance(node, str) else getattr(node, "lineno", 0)
        if "line" in facts:
            line = facts.pop("line")
        f = Finding(self.prop, rule, relpath, function or "<module>", construct, message, line, facts)
        same = [x for x in self.findings if (x.rule, x.module, x.function, x.construct) == (f.rule, f.module, f.function, f.construct)]
        f.ordinal = len(same)
        self.findings.append(f)
        return f

    def control(self, rule: str, what: str, fired: bool) -> None:
        """embedded positive example for zero-count rules: must fire on every run"""
        self.controls.append({"rule": rule, "what": what, "fired": fired})
        if not fired:
            raise AnalysisError(f"positive control of rule {rule} did not fire: {what}")

    def note(self, s: str) -> None:
        self.notes.append(s)

    def assume(self, s: str) -> None:
        if s not in self.assumptions:
            self.assumptions.append(s)

    def _moved_known(self, f: "Finding", free: list[dict[str, Any]]) -> dict[str, Any] | None:
        cands = [k for k in free if k.get("rule") == f.rule and k.get("module") == f.module and k.get("construct") == f.construct and k.get("function") != f.function]
        if not cands:
            return None
        try:
            from .inline import known_functions

            mod = next((m for m in self.project.modules.values() if m.relpath == f.module), None)
            if mod is None:
                return None
            pinned = known_functions().get(mod.name)
            if pinned is None or f.function in pinned or f.function not in mod.functions:
                return None
            new_simple = {fi.name: q for q, fi in mod.functions.items() if q not in pinned}

            def callees(q: str) -> set[str]:
                fi = mod.functions.get(q)
                if fi is None:
                    return set()
                out = set()
                for c in ast.walk(fi.node):
                    if isinstance(c, ast.Call):
                        nm = c.func.id if isinstance(c.func, ast.Name) else c.func.attr if isinstance(c.func, ast.Attribute) else None
                        if nm in new_simple:
                            out.add(new_simple[nm])
                return out

            for k in cands:
                seen: set[str] = set()
                stack = list(callees(str(k.get("function"))))
                while stack:
                    q = stack.pop()
                    if q == f.function:
                        return k
                    if q not in seen:
                        seen.add(q)
                        stack.extend(callees(q))
        except Exception:
            return None
        return None

    # -------------------------------------------------------------- finalize
    def finalize(self, replay_key: dict[str, Any] | None = None) -> int:
        known, fixed = load_known(self.prop)
        # vacuity guard
        for rule, mn in self.min_instances.items():
            n = len(self.instances.get(rule, []))
            if n < mn:
                self.analysis_errors.append(
                    f"rule {rule}: {n} instance(s) found, fewer than the floor of {mn} (half of what was confirmed by reading the tree) "
                    f"(rule would pass vacuously; anchors moved?)"
                )
        out: list[str] = []
        u = self.project.units()
        out.append(
            f"[{self.prop}] tier={self.tier} analysed {u['modules']} modules, {u['functions']} functions, "
            f"{u['lines']} lines under {self.project.pkg_dir} (tree digest {self.project.digest()[:12]})"
        )
        for rule in self.rule_text:
            insts = self.instances.get(rule, [])
            bad = sum(1 for f in self.findings if f.rule == rule)
            out.append(
                f"  rule {rule}: {len(insts)} instance(s) (min {self.min_instances[rule]}), {bad} finding(s) - {self.rule_text[rule]}"
            )
        for c in self.controls:
            out.append(f"  control {c['rule']}: fired={c['fired']} ({c['what']})")
        for n in self.notes:
            out.append(f"  note: {n}")

        violations: list[Finding] = []
        matched_known: list[dict[str, Any]] = []
        used_known = {id(k) for f in self.findings for k in [match_known(f, known)] if k is not None}
        for f in self.findings:
            k = match_known(f, known)
            if k is None:
                # a listed finding that a refactoring moved into a NEW helper of the function it is listed for is still that
                # finding (same rule, module and construct; the listed site itself no longer reports; each entry is used once)
                k = self._moved_known(f, [x for x in known if id(x) not in used_known])
                if k is not None:
                    used_known.add(id(k))
            if k is not None:
                matched_known.append({"key": f.key(), "what": k.get("what", "")})
                out.append(
                    f"KNOWN-FINDING: property={self.prop} rule={f.rule} {f.module}:{f.line} {f.function}: "
                    f"{f.construct} :: {k.get('what', f.message)}"
                )
            else:
                violations.append(f)

        replay_paths = []
        for f in violations:
            # scratch runs (--no-evidence) keep their replays out of /verif; never write into the repository under test itself
            scratch_dir = os.path.join(self.project.repo, ".octacheck-replays") if os.path.realpath(self.project.repo) != "/repo" else os.path.join(tempfile.gettempdir(), "octacheck-replays")
            path = write_replay(f, scratch_dir if self.no_evidence else None)
            replay_paths.append(path)
            out.append(f"VIOLATION property={self.prop} replay={path}")
            out.append(f"  {f.module}:{f.line} in {f.function} rule={f.rule}")
            out.append(f"  construct: {f.construct}")
            out.append(f"  {f.message}")
            for fk, fv in f.facts.items():
                out.append(f"    {fk}: {fv}")

        for e in self.analysis_errors:
            out.append(f"ANALYSIS-ERROR property={self.prop} {e}")

        if replay_key is not None:
            sel = [f for f in self.findings if _same_key(f.key(), replay_key)]
            out.append(f"REPLAY {replay_key.get('rule')} {replay_key.get('module')} {replay_key.get('function')}: "
                       f"{'still reported' if sel else 'no longer reported'} on the current tree")

        wall = time.time() - self.t0
        if not self.no_evidence:
            write_evidence(self, violations, matched_known, wall)
        print("\n".join(out), flush=True)
        if replay_key is not None:
            return 1 if any(_same_key(f.key(), replay_key) for f in violations) else (2 if self.analysis_errors else 0)
        if violations:
            return 1
        return 2 if self.analysis_errors else 0


def _same_key(a: dict[str, Any], b: dict[str, Any]) -> bool:
    return all(a.get(k) == b.get(k) for k in ("property", "rule", "module", "function", "construct"))


def load_known(prop: str) -> tuple[list[dict[str, Any]], list[dict[str, Any]]]:
    if not os.path.exists(KNOWN_FILE):
        return [], []
    with open(KNOWN_FILE, encoding="utf-8") as fh:
        data = json.load(fh)
    known = [e for e in data.get("known", []) if e.get("property") == prop]
    fixed = [e for e in data.get("fixed", []) if e.get("property") == prop]
    return known, fixed


def match_known(f: Finding, known: list[dict[str, Any]]) -> dict[str, Any] | None:
    for k in known:
        if (
            k.get("rule") == f.rule
            and k.get("module") == f.module
            and k.get("function") == f.function
            and k.get("construct") == f.construct
            and int(k.get("ordinal", 0)) == f.ordinal
        ):
            return k
    return None


def write_replay(f: Finding, base: str | None = None) -> str:
    d = os.path.join(base or os.path.join(VERIF, "replays"), f.prop)
    os.makedirs(d, exist_ok=True)
    path = os.path.join(d, f"{f.digest()}.json")
    with open(path, "w", encoding="utf-8") as fh:
        json.dump({"key": f.key(), "message": f.message, "line": f.line, "facts": _jsonable(f.facts)}, fh, indent=1, ensure_ascii=False)
    return path


def _jsonable(x: Any) -> Any:
    if isinstance(x, dict):
        return {str(k): _jsonable(v) for k, v in x.items()}
    if isinstance(x, (list, tuple, set, frozenset)):
        xs = list(x)
        try:
            xs = sorted(xs) if isinstance(x, (set, frozenset)) else xs
        except TypeError:
            pass
        return [_jsonable(v) for v in xs]
    if isinstance(x, (str, int, float, bool)) or x is None:
        return x
    return repr(x)


def write_evidence(run: Run, violations: list[Finding], matched_known: list[dict[str, Any]], wall: float) -> None:
    os.makedirs(os.path.join(VERIF, "evidence"), exist_ok=True)
    all_inst = [i for r in run.instances.values() for i in r]
    distinct = {(i["rule"], i["where"], i["what"]) for i in all_inst if i.get("nontrivial", True)}
    obligations = len(all_inst)
    bad_rules = {(f.rule) for f in run.findings}
    discharged = sum(1 for i in all_inst if i.get("ok", True))
    samples = []
    per_rule_samples = 3 if run.tier == "quick" else 8
    for rule, insts in run.instances.items():
        for i in insts[:per_rule_samples]:
            samples.append(_jsonable(i))
    cov = {
        "explanation": (
            "Static analysis of /repo/src/octave_mcp as it is on disk (ast-based; no repository code is imported or run). "
            "Each rule below is a necessary condition of the property that is visible in the shape of the code; "
            "an 'instance' is one site the rule had to decide (call site, return, loop, table row, pair of functions). "
            "The rules decide those structural clauses, not the runtime behaviour; see DESIGN.md for what is not decided."
        ),
        "obligations": obligations,
        "discharged": discharged,
        "evaluations": obligations,
        "distinct_nontrivial": len(distinct),
        "rule": "instances are enumerated from the parsed source by each rule; distinct = distinct (rule, site, obligation) triples; "
        "non-trivial = the rule had a real decision to make at that site (not a bookkeeping record)",
        "samples": samples,
        "rules": [
            {
                "rule": r,
                "text": run.rule_text[r],
                "instances": len(run.instances.get(r, [])),
                "min_instances": run.min_instances[r],
                "findings": sum(1 for f in run.findings if f.rule == r),
            }
            for r in run.rule_text
        ],
        "units": run.project.units(),
        "tree_digest": run.project.digest(),
        "controls": run.controls,
        "known_findings_matched": matched_known,
        "violations": [dict(f.key(), message=f.message, line=f.line) for f in violations],
        "analysis_errors": run.analysis_errors,
        "notes": run.notes,
        "exhaustive": False,
    }
    cov.update(_jsonable(run.extra))
    ev = {
        "property_id": run.prop,
        "tier": run.tier,
        "seed": int(os.environ.get("VERIF_SEED", "0") or 0),
        "level": "other",
        "coverage": cov,
        "assumptions": run.assumptions,
        "wall_s": round(wall, 3),
        "violations": len(violations),
    }
    path = os.path.join(VERIF, "evidence", f"{run.prop}.json")
    tmp = path + ".tmp"
    with open(tmp, "w", encoding="utf-8") as fh:
        json.dump(ev, fh, indent=1, ensure_ascii=False)
        fh.write("\n")
    os.replace(tmp, path)
