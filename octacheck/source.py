"""E1 source model: parse every module of the package from the *current* working tree.

Nothing from the repository is imported or executed. All facts come from `ast`.
"""
from __future__ import annotations

import ast
import hashlib
import os
from dataclasses import dataclass, field
from typing import Any, Callable, Iterator

REPO = os.environ.get("OCTAVE_REPO", "/repo")
PKG_REL = os.path.join("src", "octave_mcp")


class AnalysisError(Exception):
    """The analysis cannot be carried out (anchor vanished, unsupported construct).

    Reported as ANALYSIS-ERROR, exit 2: never a silent pass, never a VIOLATION.
    """


@dataclass
class RegexConst:
    pattern: str
    flags: int = 0

    def __repr__(self) -> str:  # pragma: no cover
        return f"RegexConst({self.pattern!r}, flags={self.flags})"


@dataclass(frozen=True)
class EnumRef:
    cls: str
    member: str

    def __repr__(self) -> str:  # pragma: no cover
        return f"{self.cls}.{self.member}"


class Unfoldable(Exception):
    pass


@dataclass
class FuncInfo:
    module: "Module"
    qualname: str  # e.g. "Parser.parse_value", "tokenize", "outer.<locals>.inner"
    node: ast.AST  # FunctionDef | AsyncFunctionDef
    cls: str | None  # enclosing class name (innermost) or None
    parent_func: str | None  # qualname of the enclosing function if nested

    @property
    def fqn(self) -> str:
        return f"{self.module.name}:{self.qualname}"

    @property
    def name(self) -> str:
        return self.node.name  # type: ignore[attr-defined]


@dataclass
class ClassInfo:
    module: "Module"
    name: str
    node: ast.ClassDef
    bases: list[str]  # textual base expressions
    methods: dict[str, FuncInfo] = field(default_factory=dict)


class Module:
    def __init__(self, name: str, path: str, relpath: str, text: str):
        self.name = name
        self.path = path
        self.relpath = relpath
        self.text = text
        self.digest = hashlib.sha256(text.encode("utf-8")).hexdigest()
        try:
            self.tree = ast.parse(text, filename=path)
        except SyntaxError as e:  # pragma: no cover
            raise AnalysisError(f"{relpath} does not parse: {e}") from e
        # `match` statements are read as the if/elif chains they abbreviate (octacheck.desugar); the pinned tree has none
        from .desugar import desugar_matches

        self.desugared_matches = desugar_matches(self.tree) if " match " in text or "\nmatch " in text else 0
        # new module-level compiled regexes are read where they are applied (octacheck.consts)
        self.inlined_regexes = 0
        if not os.environ.get("OCTACHECK_NO_INLINE") and "re.compile(" in text:
            from .inline import known_functions as _kf

            _k = _kf().get(name)
            if _k is not None and "<consts>" in _k:
                from .consts import inline_new_compiled_regexes

                self.inlined_regexes = inline_new_compiled_regexes(self.tree, set(str(_k["<consts>"]).split()))
        # new module-level string constants are read as the literals they name (octacheck.consts)
        self.inlined_string_constants = 0
        if not os.environ.get("OCTACHECK_NO_INLINE"):
            from .inline import known_functions as _kf2

            _k2 = _kf2().get(name)
            if _k2 is not None and "<consts>" in _k2:
                from .consts import inline_new_string_constants

                self.inlined_string_constants = inline_new_string_constants(self.tree, set(str(_k2["<consts>"]).split()))
        # one-expression closures and partial objects bound to a local are read as the calls they abbreviate (octacheck.closures)
        self.reduced_abbreviations = 0
        self.hoisted_nested = 0
        if not os.environ.get("OCTACHECK_NO_INLINE") and ("partial(" in text or "\n        def " in text or "\n    def " in text):
            from .inline import known_functions

            known_fns = known_functions().get(name)
            if known_fns is not None:
                from .closures import reduce_local_abbreviations

                def _is_new_nested(g: ast.AST) -> bool:
                    parts = [g.name]  # type: ignore[attr-defined]
                    cur = getattr(g, "_parent", None)
                    while cur is not None and not isinstance(cur, ast.Module):
                        if isinstance(cur, (ast.FunctionDef, ast.AsyncFunctionDef)):
                            parts.append(cur.name + ".<locals>")
                        elif isinstance(cur, ast.ClassDef):
                            parts.append(cur.name)
                        cur = getattr(cur, "_parent", None)
                    return ".".join(reversed(parts)) not in known_fns

                self.reduced_abbreviations = reduce_local_abbreviations(self.tree, _is_new_nested)
                self.hoisted_nested = self._hoist_closed_nested_defs(_is_new_nested)
        self.functions: dict[str, FuncInfo] = {}
        self.classes: dict[str, ClassInfo] = {}
        self.imports: dict[str, str] = {}  # local name -> dotted target (module-level)
        self._const_nodes: dict[str, list[ast.AST]] = {}
        self._index()
        # helpers that did not exist when the rules were confirmed (octacheck/known_functions.json) are read in place:
        # an "extract method" refactoring then shows the rules the same statements as before (octacheck.inline); no-op on a
        # tree without new helpers
        self.inlined_helpers: dict[str, list[str]] = {}
        if not os.environ.get("OCTACHECK_NO_INLINE"):
            self._inline_new_helpers()
            self._tuple_view_of_new_namedtuples()
            self._fold_constant_tests_and_tuple_locals()
            self._split_parallel_assignments()
            self._fold_constant_tests_and_tuple_locals()  # (conditional assignments on a substituted constant are statements now)
        # locals the rules read by name are given their expected names in this parsed copy (octacheck.localnames); no-op on a
        # tree that already uses them
        from .localnames import canonicalise_module

        self.renamed_locals = canonicalise_module(self.name, self.functions)

    def _hoist_closed_nested_defs(self, is_new) -> int:
        """E8: a NEW nested function of a plain function that captures nothing of the enclosing call (every name it reads is its
        own parameter / local, a builtin, a module-level name or a name the enclosing function imports), is only ever called
        (never passed or returned), is not recursive, a generator, async or decorated, is the module-level helper it would be
        if it had been written outside - and is then read in place by the helper inlining like any other new helper. Moved in
        the parsed copy only; no-op on the pinned tree."""
        import builtins as _b

        module_names = {t.id for st in self.tree.body if isinstance(st, (ast.Assign, ast.AnnAssign)) for t in ast.walk(st) if isinstance(t, ast.Name) and isinstance(t.ctx, ast.Store)}
        module_names |= {st.name for st in self.tree.body if isinstance(st, (ast.FunctionDef, ast.AsyncFunctionDef, ast.ClassDef))}
        for st in self.tree.body:
            if isinstance(st, (ast.Import, ast.ImportFrom)):
                module_names |= {(a.asname or a.name).split(".")[0] for a in st.names}
        moved = 0
        for outer in [f for f in self.tree.body if isinstance(f, ast.FunctionDef)]:
            outer_imports = {(a.asname or a.name).split(".")[0] for x in ast.walk(outer) if isinstance(x, (ast.Import, ast.ImportFrom)) for a in x.names}
            for g in [x for x in outer.body if isinstance(x, ast.FunctionDef)]:
                if not is_new(g) or g.decorator_list or g.name in module_names:
                    continue
                if any(isinstance(x, (ast.Yield, ast.YieldFrom, ast.Await, ast.Nonlocal, ast.Global, ast.Lambda, ast.FunctionDef, ast.AsyncFunctionDef, ast.ClassDef)) for st in g.body for x in ast.walk(st)):
                    continue
                own = {a.arg for a in g.args.args + g.args.kwonlyargs + g.args.posonlyargs} | ({g.args.vararg.arg} if g.args.vararg else set()) | ({g.args.kwarg.arg} if g.args.kwarg else set())
                own |= {x.id for x in ast.walk(g) if isinstance(x, ast.Name) and isinstance(x.ctx, ast.Store)}
                reads = {x.id for x in ast.walk(g) if isinstance(x, ast.Name) and isinstance(x.ctx, ast.Load)}
                if g.name in reads:
                    continue  # recursive
                free = reads - own - module_names - outer_imports - set(dir(_b))
                if free:
                    continue  # captures a local of the enclosing call
                # only ever called
                uses = [x for x in ast.walk(outer) if isinstance(x, ast.Name) and x.id == g.name and isinstance(x.ctx, ast.Load)]
                if not uses or not all(isinstance(getattr(u, "_parent", None), ast.Call) and getattr(u, "_parent").func is u for u in uses):
                    continue
                outer.body.remove(g)
                self.tree.body.insert(self.tree.body.index(outer), g)
                module_names.add(g.name)
                moved += 1
        if moved:
            for parent in ast.walk(self.tree):
                for child in ast.iter_child_nodes(parent):
                    child._parent = parent  # type: ignore[attr-defined]
        return moved

    def _fold_constant_tests_and_tuple_locals(self) -> None:
        """in functions into which a helper was read: `if True: A else: B` (a constant argument substituted for a parameter) is A;
        a local that is only ever bound to tuple displays of one length and only ever read by constant index is one local per
        position (`state = (True, mode, h)` ... `state[2]`  ->  `state__2 = h` ... `state__2`)"""
        for q in self.inlined_helpers:
            fi = self.functions.get(q)
            if fi is None:
                continue
            fn = fi.node
            changed = False
            # 1. constant tests
            for parent in list(ast.walk(fn)):
                for f in ("body", "orelse", "finalbody"):
                    blk = getattr(parent, f, None)
                    if not (isinstance(blk, list) and blk and isinstance(blk[0], ast.stmt)):
                        continue
                    out: list[ast.stmt] = []
                    for st in blk:
                        if isinstance(st, ast.If) and isinstance(st.test, ast.Constant) and isinstance(st.test.value, bool):
                            out.extend(st.body if st.test.value else st.orelse)
                            changed = True
                        else:
                            out.append(st)
                    if not out:
                        out = [ast.copy_location(ast.Pass(), blk[0])]
                    setattr(parent, f, out)
            # 2. tuple locals
            names: dict[str, list[ast.Assign]] = {}
            bad: set[str] = set()
            for n in walk_no_nested(fn):
                if isinstance(n, ast.Name) and isinstance(n.ctx, (ast.Store, ast.Del)):
                    par = getattr(n, "_parent", None)
                    if isinstance(par, ast.Assign) and len(par.targets) == 1 and par.targets[0] is n and isinstance(par.value, ast.Tuple) and not any(isinstance(e, ast.Starred) for e in par.value.elts):
                        names.setdefault(n.id, []).append(par)
                    else:
                        bad.add(n.id)
            params = {a.arg for a in ast.walk(fn.args) if isinstance(a, ast.arg)}  # type: ignore[attr-defined]
            for nm, defs in names.items():
                if nm in bad or nm in params or len({len(d.value.elts) for d in defs}) != 1:  # type: ignore[attr-defined]
                    continue
                k = len(defs[0].value.elts)  # type: ignore[attr-defined]
                loads = [n for n in ast.walk(fn) if isinstance(n, ast.Name) and n.id == nm and isinstance(n.ctx, ast.Load)]
                if not loads or not all(isinstance(getattr(n, "_parent", None), ast.Subscript) and n._parent.value is n and isinstance(n._parent.slice, ast.Constant) and isinstance(n._parent.slice.value, int) and 0 <= n._parent.slice.value < k and isinstance(n._parent.ctx, ast.Load) for n in loads):  # type: ignore[attr-defined]
                    continue
                taken = {x.id for x in ast.walk(fn) if isinstance(x, ast.Name)}
                if any(f"{nm}__{i}" in taken for i in range(k)):
                    continue
                # element values must not read the local itself
                if any(isinstance(x, ast.Name) and x.id == nm for d in defs for x in ast.walk(d.value)):
                    continue
                for d in defs:
                    par = d._parent  # type: ignore[attr-defined]
                    for f in ("body", "orelse", "finalbody"):
                        blk = getattr(par, f, None)
                        if isinstance(blk, list) and d in blk:
                            i0 = blk.index(d)
                            new = []
                            for i, e in enumerate(d.value.elts):  # type: ignore[attr-defined]
                                a = ast.Assign(targets=[ast.Name(id=f"{nm}__{i}", ctx=ast.Store())], value=e)
                                ast.copy_location(a, d)
                                ast.fix_missing_locations(a)
                                new.append(a)
                            blk[i0:i0 + 1] = new
                for n in loads:
                    sub = n._parent  # type: ignore[attr-defined]
                    rep = ast.copy_location(ast.Name(id=f"{nm}__{sub.slice.value}", ctx=ast.Load()), sub)
                    sp = sub._parent
                    for f, v in ast.iter_fields(sp):
                        if v is sub:
                            setattr(sp, f, rep)
                        elif isinstance(v, list):
                            for i, x in enumerate(v):
                                if x is sub:
                                    v[i] = rep
                changed = True
            if changed:
                for parent in ast.walk(fn):
                    for child in ast.iter_child_nodes(parent):
                        child._parent = parent  # type: ignore[attr-defined]

    def _split_parallel_assignments(self) -> None:
        """in functions into which a helper was read: `a, b = x, y` with plain-name targets none of which is read on the right is
        the sequence `a = x; b = y` (what a helper's `return x, y` / record constructor becomes at its call site)"""
        for q in self.inlined_helpers:
            fi = self.functions.get(q)
            if fi is None:
                continue
            changed = False
            for parent in list(ast.walk(fi.node)):
                for f in ("body", "orelse", "finalbody"):
                    blk = getattr(parent, f, None)
                    if not (isinstance(blk, list) and blk and isinstance(blk[0], ast.stmt)):
                        continue
                    out: list[ast.stmt] = []
                    for st in blk:
                        if isinstance(st, ast.Assign) and len(st.targets) == 1 and isinstance(st.targets[0], ast.Tuple) and isinstance(st.value, ast.Tuple) and len(st.value.elts) == len(st.targets[0].elts) and all(isinstance(t, ast.Name) for t in st.targets[0].elts) and not any(isinstance(e, ast.Starred) for e in st.value.elts):
                            tn = {t.id for t in st.targets[0].elts}  # type: ignore[attr-defined]
                            if len(tn) == len(st.targets[0].elts) and not any(isinstance(x, ast.Name) and x.id in tn for e in st.value.elts for x in ast.walk(e)):
                                for t, e in zip(st.targets[0].elts, st.value.elts):
                                    a = ast.Assign(targets=[t], value=e)
                                    ast.copy_location(a, st)
                                    ast.fix_missing_locations(a)
                                    out.append(a)
                                changed = True
                                continue
                        if isinstance(st, ast.Assign) and len(st.targets) == 1 and isinstance(st.targets[0], ast.Tuple) and isinstance(st.value, ast.IfExp) and all(isinstance(b, ast.Tuple) and len(b.elts) == len(st.targets[0].elts) and not any(isinstance(e, ast.Starred) for e in b.elts) for b in (st.value.body, st.value.orelse)) and all(isinstance(t, ast.Name) for t in st.targets[0].elts):
                            # `a, b = (x1, y1) if c else (x2, y2)`: the statement form, one plain assignment per element
                            tn = {t.id for t in st.targets[0].elts}  # type: ignore[attr-defined]
                            if len(tn) == len(st.targets[0].elts) and not any(isinstance(x, ast.Name) and x.id in tn for b in (st.value.body, st.value.orelse) for x in ast.walk(b)) and not any(isinstance(x, ast.Name) and x.id in tn for x in ast.walk(st.value.test)):
                                def seq(b: ast.Tuple) -> list[ast.stmt]:
                                    r_ = []
                                    for t, e in zip(st.targets[0].elts, b.elts):  # type: ignore[attr-defined]
                                        a_ = ast.Assign(targets=[ast.Name(id=t.id, ctx=ast.Store())], value=e)  # type: ignore[attr-defined]
                                        ast.copy_location(a_, st)
                                        r_.append(a_)
                                    return r_
                                iff = ast.If(test=st.value.test, body=seq(st.value.body), orelse=seq(st.value.orelse))  # type: ignore[arg-type]
                                ast.copy_location(iff, st)
                                ast.fix_missing_locations(iff)
                                out.append(iff)
                                changed = True
                                continue
                        if isinstance(st, ast.Assign) and len(st.targets) == 1 and isinstance(st.targets[0], ast.Name) and isinstance(st.value, ast.IfExp) and any(isinstance(b, ast.Constant) and b.value is None for b in (st.value.body, st.value.orelse)):
                            # `x = <error> if c else None` (None-or-value chosen by a condition): the statement form, so that the
                            # condition is a test of the flow graph and the later `x is None` is decided per branch
                            a1 = ast.Assign(targets=[st.targets[0]], value=st.value.body)
                            a2 = ast.Assign(targets=[ast.Name(id=st.targets[0].id, ctx=ast.Store())], value=st.value.orelse)
                            iff = ast.If(test=st.value.test, body=[a1], orelse=[a2])
                            for x_ in (a1, a2, iff):
                                ast.copy_location(x_, st)
                            ast.fix_missing_locations(iff)
                            out.append(iff)
                            changed = True
                            continue
                        out.append(st)
                    setattr(parent, f, out)
            if changed:
                for parent in ast.walk(fi.node):
                    for child in ast.iter_child_nodes(parent):
                        child._parent = parent  # type: ignore[attr-defined]

    def _tuple_view_of_new_namedtuples(self) -> None:
        """NamedTuple classes the pinned tree does not have are read as the plain tuples they are (octacheck.records)"""
        from .inline import known_functions
        from .records import tuple_view

        known = known_functions().get(self.name)
        self.tuple_views = 0
        if known is None:
            return
        known_classes = set(str(known.get("<classes>", "")).split())
        # (not classes that are instantiated at module level - rows of a constant table: those are read as records where they
        # are used, e.g. by the type-table clause of R04.4 / R08.4)
        module_level_calls = {n.func.id for st in self.tree.body if not isinstance(st, (ast.FunctionDef, ast.AsyncFunctionDef, ast.ClassDef)) for n in walk_no_nested(st) if isinstance(n, ast.Call) and isinstance(n.func, ast.Name)}
        new_nt = {c: ci.node for c, ci in self.classes.items() if c not in known_classes and c not in module_level_calls and any(ast.unparse(b).split(".")[-1] == "NamedTuple" for b in ci.node.bases) and not any(isinstance(m, ast.FunctionDef) for m in ci.node.body)}
        if new_nt:
            self.tuple_views = tuple_view(self.tree, new_nt)

    def _inline_new_helpers(self) -> None:
        from .inline import inline_helpers, known_functions

        known = known_functions().get(self.name)
        if known is None:
            return  # a module that did not exist: nothing is known about it, nothing is assumed
        from .inline import body_digest

        # a function of the pinned tree that is gone while a function with the very same body has appeared was RENAMED: it is
        # the old helper (the rules' callee summaries apply), not a new one
        vanished = {d for q, d in known.items() if q not in self.functions and d}
        new = {q for q, f in self.functions.items() if q not in known and f.parent_func is None and body_digest(f.node) not in vanished}
        # calls through a constant table of new helpers / lambdas are read as the if/elif chain they abbreviate (octacheck.dispatch)
        self.desugared_dispatch = 0
        if "lambda" in self.text or new:
            from .dispatch import desugar_dispatch

            self.desugared_dispatch = desugar_dispatch(self.tree, {self.functions[q].name for q in new})
        if not new:
            return
        # recursive helpers (directly, or through other new helpers) are never read in place: there is no finite place to read
        calls: dict[str, set[str]] = {}
        by_name = {self.functions[q].name: q for q in new}
        for q in new:
            calls[q] = {by_name[nm] for c in ast.walk(self.functions[q].node) if isinstance(c, ast.Call) for nm in [c.func.id if isinstance(c.func, ast.Name) else c.func.attr if isinstance(c.func, ast.Attribute) else None] if nm in by_name}
        def reaches_self(q: str) -> bool:
            seen, stack = set(), list(calls[q])
            while stack:
                x = stack.pop()
                if x == q:
                    return True
                if x not in seen:
                    seen.add(x)
                    stack.extend(calls.get(x, ()))
            return False
        new = {q for q in new if not reaches_self(q)}
        if not new:
            return
        new_names = {self.functions[q].name for q in new}
        for q, fi in list(self.functions.items()):
            if fi.parent_func is not None:
                continue  # (new helpers are read in place inside other new helpers too; a helper is never inlined into itself)
            if not any(isinstance(c, ast.Call) and ((isinstance(c.func, ast.Name) and c.func.id in new_names) or (isinstance(c.func, ast.Attribute) and c.func.attr in new_names)) for c in ast.walk(fi.node)):
                continue
            view, inl = inline_helpers(fi, lambda h, c, st: h.qualname in new)
            if not inl:
                continue
            fn = fi.node
            fn.body = view.node.body  # type: ignore[attr-defined]
            for parent in ast.walk(fn):
                for child in ast.iter_child_nodes(parent):
                    child._parent = parent  # type: ignore[attr-defined]
            # nested functions were copied with the body: point their FuncInfo at the copies
            for sub in ast.walk(fn):
                if sub is not fn and isinstance(sub, (ast.FunctionDef, ast.AsyncFunctionDef)):
                    key = getattr(sub, "_qualname", None)
                    if key in self.functions:
                        self.functions[key].node = sub
            self.inlined_helpers[q] = sorted(set(inl))
        # new record classes (NamedTuple / dataclass that the pinned tree does not have): a local record that is only built and
        # read field by field is replaced by one local per field, so that the rules see the values and not the container
        from .inline import record_fields, scalarise_records

        known_classes = set(str(known.get("<classes>", "")).split())
        records = {}
        for cname, ci in self.classes.items():
            if cname not in known_classes:
                rf = record_fields(ci.node)
                if rf:
                    records[cname] = rf
        self.scalarised_records = 0
        if records:
            for q, fi in list(self.functions.items()):
                if fi.parent_func is None:
                    self.scalarised_records += scalarise_records(fi.node, records, {c: ci.node for c, ci in self.classes.items()})
        # a private new helper that is no longer called anywhere in the module has been read in place at every call site:
        # analysing it again on its own would only report the same constructs under a second name
        self.absorbed_helpers: list[str] = []
        for q in sorted(new):
            fi = self.functions.get(q)
            if fi is None or not fi.name.startswith("_") or fi.name.startswith("__"):
                continue
            if not any(q in inl for inl in self.inlined_helpers.values()):
                continue  # never read in place anywhere (e.g. not called at all): it stays a function of its own
            nm = fi.name
            own = {id(x) for x in ast.walk(fi.node)}
            uses = []
            for x in ast.walk(self.tree):
                if id(x) in own:
                    continue
                if (isinstance(x, ast.Name) and x.id == nm and isinstance(x.ctx, ast.Load)) or (isinstance(x, ast.Attribute) and x.attr == nm and isinstance(x.value, ast.Name) and x.value.id in ("self", "cls", fi.cls or "")):
                    uses.append(x)
            if uses:
                continue  # still called (expression position that could not be hoisted, unsupported shape) or passed around
            par = getattr(fi.node, "_parent", None)
            if par is not None and fi.node in getattr(par, "body", []):
                par.body.remove(fi.node)
                if not par.body:
                    par.body.append(ast.Pass())
            for k in [k for k, f in self.functions.items() if f is fi or f.parent_func == q]:
                del self.functions[k]
            if fi.cls and fi.cls in self.classes and self.classes[fi.cls].methods.get(nm) is fi:
                del self.classes[fi.cls].methods[nm]
            self.absorbed_helpers.append(q)

    # ------------------------------------------------------------------ index
    def _index(self) -> None:
        for node in ast.walk(self.tree):
            for child in ast.iter_child_nodes(node):
                child._parent = node  # type: ignore[attr-defined]
        self.tree._parent = None  # type: ignore[attr-defined]

        def visit(body: list[ast.stmt], prefix: str, cls: str | None, pfunc: str | None) -> None:
            for st in body:
                if isinstance(st, (ast.FunctionDef, ast.AsyncFunctionDef)):
                    qn = prefix + st.name
                    fi = FuncInfo(self, qn, st, cls, pfunc)
                    # keep the first definition under the plain name; later duplicates get a suffix
                    key = qn
                    n = 2
                    while key in self.functions:
                        key = f"{qn}#{n}"
                        n += 1
                    fi.qualname = key
                    self.functions[key] = fi
                    st._qualname = key  # type: ignore[attr-defined]
                    if cls is not None and pfunc is None and prefix == cls + ".":
                        self.classes[cls].methods.setdefault(st.name, fi)
                    visit_nested(st, key)
                elif isinstance(st, ast.ClassDef):
                    ci = ClassInfo(self, st.name, st, [ast.unparse(b) for b in st.bases])
                    if prefix == "":
                        self.classes[st.name] = ci
                        visit(st.body, st.name + ".", st.name, None)
                    else:
                        # nested class: index its methods under a dotted prefix, no ClassInfo
                        visit(st.body, prefix + st.name + ".", None, pfunc)
                elif isinstance(st, (ast.If, ast.Try, ast.With, ast.For, ast.While)):
                    for sub in _stmt_bodies(st):
                        visit(sub, prefix, cls, pfunc)

        def visit_nested(fn: ast.AST, qn: str) -> None:
            # functions / classes defined anywhere inside fn's body
            for sub in _nested_defs(fn):
                if isinstance(sub, (ast.FunctionDef, ast.AsyncFunctionDef)):
                    key = f"{qn}.<locals>.{sub.name}"
                    base = key
                    n = 2
                    while key in self.functions:
                        key = f"{base}#{n}"
                        n += 1
                    cls = self.functions[qn].cls
                    fi = FuncInfo(self, key, sub, cls, qn)
                    self.functions[key] = fi
                    sub._qualname = key  # type: ignore[attr-defined]
                    visit_nested(sub, key)
                elif isinstance(sub, ast.ClassDef):
                    for m in sub.body:
                        if isinstance(m, (ast.FunctionDef, ast.AsyncFunctionDef)):
                            key = f"{qn}.<locals>.{sub.name}.{m.name}"
                            fi = FuncInfo(self, key, m, None, qn)
                            self.functions[key] = fi
                            m._qualname = key  # type: ignore[attr-defined]
                            visit_nested(m, key)

        visit(self.tree.body, "", None, None)

        # imports (module level, incl. inside if/try at module level)
        for st in _walk_module_level(self.tree):
            self._record_import(st, self.imports)
            if isinstance(st, ast.Assign):
                for t in st.targets:
                    if isinstance(t, ast.Name):
                        self._const_nodes.setdefault(t.id, []).append(st.value)
            elif isinstance(st, ast.AnnAssign) and isinstance(st.target, ast.Name) and st.value is not None:
                self._const_nodes.setdefault(st.target.id, []).append(st.value)

    def _record_import(self, st: ast.AST, table: dict[str, str]) -> None:
        if isinstance(st, ast.Import):
            for a in st.names:
                if a.asname:
                    table[a.asname] = a.name
                else:
                    table[a.name.split(".")[0]] = a.name.split(".")[0]
        elif isinstance(st, ast.ImportFrom):
            base = st.module or ""
            if st.level:
                parts = self.name.split(".")
                # a package __init__ is its own package
                if not self.relpath.endswith("__init__.py"):
                    parts = parts[:-1]
                parts = parts[: len(parts) - (st.level - 1)] if st.level > 1 else parts
                base = ".".join(parts + ([st.module] if st.module else []))
            for a in st.names:
                table[a.asname or a.name] = f"{base}.{a.name}"

    def function_imports(self, fn: ast.AST) -> dict[str, str]:
        """imports visible in fn: module-level plus those executed inside fn (and enclosing fns)."""
        cache = self.__dict__.setdefault("_fi_cache", {})
        hit = cache.get(id(fn))
        if hit is not None:
            return hit
        table = dict(self.imports)
        chain = []
        cur: ast.AST | None = fn
        while cur is not None:
            if isinstance(cur, (ast.FunctionDef, ast.AsyncFunctionDef)):
                chain.append(cur)
            cur = getattr(cur, "_parent", None)
        for f in reversed(chain):
            for sub in ast.walk(f):
                if isinstance(sub, (ast.Import, ast.ImportFrom)):
                    self._record_import(sub, table)
        cache[id(fn)] = table
        return table

    # ------------------------------------------------------------- utilities
    def func(self, qualname: str) -> FuncInfo:
        fi = self.functions.get(qualname)
        if fi is None:
            raise AnalysisError(f"anchor vanished: function {qualname} not found in {self.relpath}")
        return fi

    def has_func(self, qualname: str) -> bool:
        return qualname in self.functions

    def cls(self, name: str) -> ClassInfo:
        ci = self.classes.get(name)
        if ci is None:
            raise AnalysisError(f"anchor vanished: class {name} not found in {self.relpath}")
        return ci

    def loc(self, node: ast.AST) -> str:
        return f"{self.relpath}:{getattr(node, 'lineno', 0)}"

    def enclosing_function(self, node: ast.AST) -> str | None:
        cur = getattr(node, "_parent", None)
        while cur is not None:
            if isinstance(cur, (ast.FunctionDef, ast.AsyncFunctionDef)):
                return getattr(cur, "_qualname", cur.name)
            cur = getattr(cur, "_parent", None)
        return None

    def const_node(self, name: str) -> ast.AST:
        nodes = self._const_nodes.get(name)
        if not nodes:
            raise AnalysisError(f"anchor vanished: module constant {name} not found in {self.relpath}")
        if len(nodes) > 1:
            raise AnalysisError(f"module constant {name} in {self.relpath} is bound {len(nodes)} times; cannot fold")
        return nodes[0]

    def has_const(self, name: str) -> bool:
        return name in self._const_nodes


def _stmt_bodies(st: ast.stmt) -> Iterator[list[ast.stmt]]:
    for f in ("body", "orelse", "finalbody"):
        b = getattr(st, f, None)
        if b:
            yield b
    for h in getattr(st, "handlers", []) or []:
        yield h.body


def _walk_module_level(tree: ast.Module) -> Iterator[ast.stmt]:
    stack = list(reversed(tree.body))
    while stack:
        st = stack.pop()
        yield st
        if isinstance(st, (ast.If, ast.Try, ast.With)):
            for b in _stmt_bodies(st):
                stack.extend(reversed(b))


def _nested_defs(fn: ast.AST) -> Iterator[ast.AST]:
    """direct nested function / class definitions inside fn (not inside further nested defs)."""
    stack = list(ast.iter_child_nodes(fn))
    while stack:
        n = stack.pop()
        if isinstance(n, (ast.FunctionDef, ast.AsyncFunctionDef, ast.ClassDef)):
            yield n
            continue
        if isinstance(n, ast.Lambda):
            continue
        stack.extend(ast.iter_child_nodes(n))


def walk_no_nested(node: ast.AST, include_root: bool = True) -> Iterator[ast.AST]:
    """ast.walk that does not descend into nested function/class/lambda definitions."""
    if include_root:
        yield node
    stack = list(ast.iter_child_nodes(node))
    while stack:
        n = stack.pop()
        yield n
        if isinstance(n, (ast.FunctionDef, ast.AsyncFunctionDef, ast.ClassDef, ast.Lambda)):
            continue
        stack.extend(ast.iter_child_nodes(n))


class Project:
    def __init__(self, repo: str | None = None):
        self.repo = repo or REPO
        self.pkg_dir = os.path.join(self.repo, PKG_REL)
        if not os.path.isdir(self.pkg_dir):
            raise AnalysisError(f"package directory {self.pkg_dir} not found")
        self.modules: dict[str, Module] = {}
        for root, dirs, files in os.walk(self.pkg_dir):
            dirs.sort()
            dirs[:] = [d for d in dirs if d != "__pycache__"]
            for f in sorted(files):
                if not f.endswith(".py"):
                    continue
                path = os.path.join(root, f)
                rel = os.path.relpath(path, self.repo)
                modparts = os.path.relpath(path, os.path.join(self.repo, "src"))[:-3].split(os.sep)
                if modparts[-1] == "__init__":
                    modparts = modparts[:-1]
                name = ".".join(modparts)
                with open(path, encoding="utf-8") as fh:
                    text = fh.read()
                self.modules[name] = Module(name, path, rel, text)
        # simple names of the package's functions whose return annotation excludes None (unanimously, when a name occurs more
        # than once): `x = f(..)` then decides a later `x is None` for the CFG's jump threading (annotations are trusted: the
        # project is mypy-checked)
        from . import cfg as _cfg

        seen_ann: dict[str, bool] = {}
        for m_ in self.modules.values():
            for f_ in m_.functions.values():
                r_ = getattr(f_.node, "returns", None)
                txt_ = ast.unparse(r_) if r_ is not None else ""
                notnone = bool(txt_) and "None" not in txt_ and "Optional" not in txt_ and "Any" not in txt_ and not any(isinstance(n_, (ast.Yield, ast.YieldFrom)) for n_ in walk_no_nested(f_.node)) and not isinstance(f_.node, ast.AsyncFunctionDef)
                seen_ann[f_.name] = seen_ann.get(f_.name, True) and notnone
        _cfg.RETURNS_NOT_NONE.clear()
        _cfg.RETURNS_NOT_NONE.update({k for k, v in seen_ann.items() if v})
        self._fold_cache: dict[tuple[str, str], Any] = {}
        self._folding: set[tuple[str, str]] = set()

    # ------------------------------------------------------------------ access
    def mod(self, short: str) -> Module:
        """short: 'core.lexer' or full 'octave_mcp.core.lexer'"""
        name = short if short.startswith("octave_mcp") else ("octave_mcp." + short if short else "octave_mcp")
        m = self.modules.get(name)
        if m is None:
            raise AnalysisError(f"anchor vanished: module {name} not found under {self.pkg_dir}")
        return m

    def all_functions(self) -> Iterator[FuncInfo]:
        for m in self.modules.values():
            yield from m.functions.values()

    def digest(self) -> str:
        h = hashlib.sha256()
        for name in sorted(self.modules):
            h.update(name.encode())
            h.update(self.modules[name].digest.encode())
        return h.hexdigest()

    def units(self) -> dict[str, int]:
        return {
            "modules": len(self.modules),
            "functions": sum(len(m.functions) for m in self.modules.values()),
            "classes": sum(len(m.classes) for m in self.modules.values()),
            "lines": sum(m.text.count("\n") + 1 for m in self.modules.values()),
        }

    # ----------------------------------------------------------- const folding
    def const(self, mod: str | Module, name: str) -> Any:
        m = mod if isinstance(mod, Module) else self.mod(mod)
        key = (m.name, name)
        if key in self._fold_cache:
            return self._fold_cache[key]
        if key in self._folding:
            raise AnalysisError(f"cyclic constant {name} in {m.relpath}")
        self._folding.add(key)
        try:
            try:
                val = self.fold(m, m.const_node(name))
            except Unfoldable as e:
                raise AnalysisError(f"constant {name} in {m.relpath} does not fold: {e}") from e
        finally:
            self._folding.discard(key)
        self._fold_cache[key] = val
        return val

    def try_fold(self, m: Module, node: ast.AST, local: dict[str, Any] | None = None) -> Any:
        try:
            return self.fold(m, node, local)
        except (Unfoldable, AnalysisError):
            return Unfoldable

    def fold(self, m: Module, node: ast.AST, local: dict[str, Any] | None = None) -> Any:
        f = lambda n: self.fold(m, n, local)  # noqa: E731
        if isinstance(node, ast.Constant):
            return node.value
        if isinstance(node, ast.Tuple):
            return tuple(f(e) for e in node.elts)
        if isinstance(node, ast.List):
            return [f(e) for e in node.elts]
        if isinstance(node, ast.Set):
            return frozenset(f(e) for e in node.elts)
        if isinstance(node, ast.Dict):
            out = {}
            for k, v in zip(node.keys, node.values):
                if k is None:
                    sub = f(v)
                    if not isinstance(sub, dict):
                        raise Unfoldable("** of non-dict")
                    out.update(sub)
                else:
                    out[f(k)] = f(v)
            return out
        if isinstance(node, ast.JoinedStr):
            parts = []
            for v in node.values:
                if isinstance(v, ast.Constant):
                    parts.append(str(v.value))
                elif isinstance(v, ast.FormattedValue) and v.format_spec is None and v.conversion == -1:
                    val = f(v.value)
                    if not isinstance(val, (str, int)):
                        raise Unfoldable("f-string part not str")
                    parts.append(str(val))
                else:
                    raise Unfoldable("formatted f-string part")
            return "".join(parts)
        if isinstance(node, ast.BinOp):
            l, r = f(node.left), f(node.right)
            try:
                if isinstance(node.op, ast.Add):
                    return l + r
                if isinstance(node.op, ast.Mult):
                    return l * r
                if isinstance(node.op, ast.BitOr):
                    return l | r
                if isinstance(node.op, ast.Sub):
                    return l - r
                if isinstance(node.op, ast.Mod) and isinstance(l, str):
                    return l % r
            except Exception as e:  # noqa: BLE001
                raise Unfoldable(f"binop failed: {e}")
            raise Unfoldable(f"binop {type(node.op).__name__}")
        if isinstance(node, ast.UnaryOp) and isinstance(node.op, ast.USub):
            return -f(node.operand)
        if isinstance(node, ast.Name):
            if local and node.id in local:
                return local[node.id]
            if m.has_const(node.id):
                return self.const(m, node.id)
            tgt = m.imports.get(node.id)
            if tgt and tgt.startswith("octave_mcp"):
                modname, _, attr = tgt.rpartition(".")
                if modname in self.modules and self.modules[modname].has_const(attr):
                    return self.const(self.modules[modname], attr)
            if node.id in ("True", "False", "None"):
                return {"True": True, "False": False, "None": None}[node.id]
            raise Unfoldable(f"name {node.id}")
        if isinstance(node, ast.Attribute):
            # Enum member reference Cls.MEMBER or re flags
            if isinstance(node.value, ast.Name):
                base = node.value.id
                tgt = m.imports.get(base, base)
                if tgt == "re":
                    import re as _re

                    if hasattr(_re, node.attr) and node.attr.isupper():
                        return int(getattr(_re, node.attr))
                if base[:1].isupper():
                    return EnumRef(base, node.attr)
            raise Unfoldable(f"attribute {ast.unparse(node)}")
        if isinstance(node, ast.Call):
            fn = node.func
            fname = ast.unparse(fn)
            if fname in ("frozenset", "set", "tuple", "list") and not node.keywords:
                if not node.args:
                    return frozenset() if fname in ("frozenset", "set") else (() if fname == "tuple" else [])
                inner = f(node.args[0])
                if fname in ("frozenset", "set"):
                    return frozenset(inner)
                return tuple(inner) if fname == "tuple" else list(inner)
            if isinstance(fn, ast.Attribute) and fn.attr == "compile" and isinstance(fn.value, ast.Name) and m.imports.get(fn.value.id, fn.value.id) == "re":
                pat = f(node.args[0])
                flags = 0
                if len(node.args) > 1:
                    flags = f(node.args[1])
                for kw in node.keywords:
                    if kw.arg == "flags":
                        flags = f(kw.value)
                if not isinstance(pat, str):
                    raise Unfoldable("re.compile of non-str")
                return RegexConst(pat, int(flags))
            if isinstance(fn, ast.Attribute) and fn.attr == "join" and len(node.args) == 1:
                sep = f(fn.value)
                seq = f(node.args[0])
                if isinstance(sep, str) and all(isinstance(x, str) for x in seq):
                    return sep.join(seq)
            if fname == "dict" and not node.args:
                return {kw.arg: f(kw.value) for kw in node.keywords}
            raise Unfoldable(f"call {fname}")
        if isinstance(node, ast.Starred):
            raise Unfoldable("starred")
        raise Unfoldable(type(node).__name__)


def enum_members(project: Project, mod: str, cls: str) -> list[str]:
    """names of members of an Enum class, read from the class body"""
    ci = project.mod(mod).cls(cls)
    out = []
    for st in ci.node.body:
        if isinstance(st, ast.Assign) and len(st.targets) == 1 and isinstance(st.targets[0], ast.Name):
            n = st.targets[0].id
            if not n.startswith("_"):
                out.append(n)
        elif isinstance(st, ast.AnnAssign) and isinstance(st.target, ast.Name) and st.value is not None:
            out.append(st.target.id)
    if not out:
        raise AnalysisError(f"enum {cls} in {mod} has no members")
    return out


def norm(node: ast.AST) -> str:
    """normalised construct text used in finding keys (never line numbers)"""
    try:
        s = ast.unparse(node)
    except Exception:  # noqa: BLE001
        s = type(node).__name__
    s = " ".join(s.split())
    return s if len(s) <= 160 else s[:157] + "..."


def normalise_locals(fi: "FuncInfo", specs: list[tuple[str, Callable[[ast.AST], bool]]], loop_specs: list[tuple[tuple[str, ...], Callable[[ast.AST], bool]]] | None = None, finders: list[tuple[str, Callable[[ast.AST], "str | None"]]] | None = None) -> "FuncInfo":
    """alpha-normalisation for rules that read a function by the names of its locals: returns a copy of `fi` in which a local
    whose (single) definition satisfies a spec predicate is renamed to the spec's expected name, and the targets of a `for`
    loop whose iterable satisfies a loop spec are renamed to the expected names. The rules then match the normalised copy, so
    a consistent renaming of locals in the repository does not change what they see. Nothing is renamed when the expected
    name is already in use for something else."""
    import copy

    node = copy.deepcopy(fi.node)
    for parent in ast.walk(node):
        for child in ast.iter_child_nodes(parent):
            child._parent = parent  # type: ignore[attr-defined]
    node._parent = None  # type: ignore[attr-defined]

    def rename(old: str, new: str) -> None:
        if old == new:
            return
        if any(isinstance(n, ast.Name) and n.id == new for n in ast.walk(node)) or any(isinstance(n, ast.arg) and n.arg == new for n in ast.walk(node)):
            return
        for n in ast.walk(node):
            if isinstance(n, ast.Name) and n.id == old:
                n.id = new

    for expected, pred in specs:
        for n in list(walk_no_nested(node)):
            if isinstance(n, (ast.Assign, ast.AnnAssign)):
                tg = n.targets[0] if isinstance(n, ast.Assign) and len(n.targets) == 1 else (n.target if isinstance(n, ast.AnnAssign) else None)
                if isinstance(tg, ast.Name) and n.value is not None and tg.id != expected:
                    try:
                        if pred(n.value):
                            rename(tg.id, expected)
                            break
                    except Exception:  # noqa: BLE001
                        pass
    # locals recognised by how they are USED (e.g. the list joined in the return): finder(function copy) -> current name
    for expected, finder in finders or []:
        try:
            cur = finder(node)
        except Exception:  # noqa: BLE001
            cur = None
        if cur:
            rename(cur, expected)
    for names, pred in loop_specs or []:
        for n in list(walk_no_nested(node)):
            if isinstance(n, (ast.For, ast.AsyncFor)):
                try:
                    hit = pred(n.iter)
                except Exception:  # noqa: BLE001
                    hit = False
                if hit:
                    elts = n.target.elts if isinstance(n.target, ast.Tuple) else [n.target]
                    for e, want in zip(elts, names):
                        if isinstance(e, ast.Name):
                            rename(e.id, want)
                    break
    return FuncInfo(fi.module, fi.qualname, node, fi.cls, fi.parent_func)


def joined_local(sep: "str | None"):
    """finder for normalise_locals: the local passed to `<sep>.join(<local>)` (any constant separator when sep is None)"""
    def find(fn: ast.AST) -> "str | None":
        for n in walk_no_nested(fn):
            if isinstance(n, ast.Call) and isinstance(n.func, ast.Attribute) and n.func.attr == "join" and isinstance(n.func.value, ast.Constant) and (sep is None or n.func.value.value == sep) and len(n.args) == 1 and isinstance(n.args[0], ast.Name):
                return n.args[0].id
        return None

    return find

