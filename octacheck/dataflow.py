"""Small flow-insensitive helpers: local alias / taint closure, reaching assignment lookups, regex alphabets."""
from __future__ import annotations

import ast
import re._parser as sre_parser  # type: ignore[import-not-found]
import re._constants as sre_c  # type: ignore[import-not-found]
from typing import Callable, Iterable

from .source import AnalysisError, walk_no_nested


def assigned_names(target: ast.AST) -> list[str]:
    out = []
    for n in ast.walk(target):
        if isinstance(n, ast.Name):
            out.append(n.id)
    return out


def taint_closure(fn: ast.AST, seeds: Iterable[str], skip_value: Callable[[ast.AST], bool] | None = None) -> set[str]:
    """names that (flow-insensitively) derive from the seeds by assignment inside fn.
    skip_value(value) -> True stops propagation through that right-hand side."""
    tainted = set(seeds)
    changed = True
    while changed:
        changed = False
        for n in walk_no_nested(fn):
            pairs: list[tuple[ast.AST, ast.AST]] = []
            if isinstance(n, ast.Assign):
                for t in n.targets:
                    pairs.append((t, n.value))
            elif isinstance(n, ast.AnnAssign) and n.value is not None:
                pairs.append((n.target, n.value))
            elif isinstance(n, ast.AugAssign):
                pairs.append((n.target, n.value))
            elif isinstance(n, ast.withitem) and n.optional_vars is not None:
                pairs.append((n.optional_vars, n.context_expr))
            elif isinstance(n, (ast.For, ast.AsyncFor)):
                pairs.append((n.target, n.iter))
            elif isinstance(n, ast.NamedExpr):
                pairs.append((n.target, n.value))
            elif isinstance(n, ast.comprehension):
                pairs.append((n.target, n.iter))
            for tgt, val in pairs:
                if skip_value is not None and skip_value(val):
                    continue
                if {x.id for x in ast.walk(val) if isinstance(x, ast.Name)} & tainted:
                    for nm in assigned_names(tgt):
                        if nm not in tainted:
                            tainted.add(nm)
                            changed = True
    return tainted


def param_names(fn: ast.AST) -> list[str]:
    a = fn.args  # type: ignore[attr-defined]
    return [x.arg for x in list(a.posonlyargs) + list(a.args) + list(a.kwonlyargs)]


def locals_from_params_get(fn: ast.AST, key: str) -> set[str]:
    """locals bound as  x = <params>.get("key"...)  or  x = <params>["key"]"""
    out = set()
    for n in walk_no_nested(fn):
        if isinstance(n, ast.Assign) and len(n.targets) == 1 and isinstance(n.targets[0], ast.Name):
            v = n.value
            if isinstance(v, ast.Call) and isinstance(v.func, ast.Attribute) and v.func.attr == "get" and v.args and isinstance(v.args[0], ast.Constant) and v.args[0].value == key:
                out.add(n.targets[0].id)
            elif isinstance(v, ast.Subscript) and isinstance(v.slice, ast.Constant) and v.slice.value == key:
                out.add(n.targets[0].id)
    return out


# --------------------------------------------------------------------------- regex alphabets

ASCII = frozenset(chr(i) for i in range(128))


def _category_chars(cat) -> frozenset[str]:
    import re

    table = {
        sre_c.CATEGORY_DIGIT: r"\d", sre_c.CATEGORY_NOT_DIGIT: r"\D",
        sre_c.CATEGORY_SPACE: r"\s", sre_c.CATEGORY_NOT_SPACE: r"\S",
        sre_c.CATEGORY_WORD: r"\w", sre_c.CATEGORY_NOT_WORD: r"\W",
    }
    if cat not in table:
        raise AnalysisError(f"unsupported regex category {cat}")
    rx = re.compile(table[cat], re.ASCII)
    return frozenset(c for c in ASCII if rx.fullmatch(c))


def regex_alphabet(pattern: str, flags: int = 0) -> tuple[frozenset[str], bool]:
    """(set of ASCII characters that can occur in a match, may-match-non-ASCII flag).
    Over-approximation: union over every consuming item of the pattern."""
    tree = sre_parser.parse(pattern, flags)
    chars: set[str] = set()
    non_ascii = False

    def walk(items) -> None:
        nonlocal non_ascii
        for op, av in items:
            if op is sre_c.LITERAL:
                if av < 128:
                    chars.add(chr(av))
                else:
                    non_ascii = True
            elif op is sre_c.NOT_LITERAL:
                chars.update(c for c in ASCII if ord(c) != av)
                non_ascii = True
            elif op is sre_c.ANY:
                chars.update(ASCII)
                non_ascii = True
            elif op is sre_c.IN:
                neg = False
                s: set[str] = set()
                na = False
                for iop, iav in av:
                    if iop is sre_c.NEGATE:
                        neg = True
                    elif iop is sre_c.LITERAL:
                        if iav < 128:
                            s.add(chr(iav))
                        else:
                            na = True
                    elif iop is sre_c.RANGE:
                        lo, hi = iav
                        s.update(chr(i) for i in range(lo, min(hi, 127) + 1))
                        if hi > 127:
                            na = True
                    elif iop is sre_c.CATEGORY:
                        s.update(_category_chars(iav))
                        na = True  # unicode categories reach beyond ASCII unless re.ASCII
                    else:
                        raise AnalysisError(f"unsupported regex class item {iop}")
                if neg:
                    chars.update(ASCII - s)
                    non_ascii = True
                else:
                    chars.update(s)
                    non_ascii = non_ascii or na
            elif op in (sre_c.MAX_REPEAT, sre_c.MIN_REPEAT, sre_c.POSSESSIVE_REPEAT):
                walk(av[2])
            elif op is sre_c.SUBPATTERN:
                walk(av[3])
            elif op is sre_c.BRANCH:
                for alt in av[1]:
                    walk(alt)
            elif op in (sre_c.AT,):
                pass
            elif op in (sre_c.ASSERT, sre_c.ASSERT_NOT):
                pass
            elif op is sre_c.ATOMIC_GROUP:
                walk(av)
            else:
                raise AnalysisError(f"unsupported regex construct {op} in {pattern!r}")

    walk(tree)
    return frozenset(chars), non_ascii


def regex_anchored(pattern: str, flags: int = 0) -> tuple[bool, bool]:
    """(anchored at start, anchored at end) by a top-level ^ / $ or \\A / \\Z"""
    tree = list(sre_parser.parse(pattern, flags))
    start = bool(tree) and tree[0][0] is sre_c.AT and tree[0][1] in (sre_c.AT_BEGINNING, sre_c.AT_BEGINNING_STRING)
    end = bool(tree) and tree[-1][0] is sre_c.AT and tree[-1][1] in (sre_c.AT_END, sre_c.AT_END_STRING)
    return start, end
