"""E8, new module-level compiled regexes: `NAME = re.compile(P[, flags])` at module level, where NAME is not a module-level name
of the pinned tree (octacheck/known_functions.json, entry `<consts>`), is bound once and only ever used as `NAME.<method>(...)`,
is read where it is used as the module-level function it abbreviates:

    _STRICT_DATE_RE = re.compile(r"^\\d{4}-\\d{2}-\\d{2}$")
    ... _STRICT_DATE_RE.match(value_str)            ==>      re.match('^\\d{4}-\\d{2}-\\d{2}$', value_str)

Only calls whose arguments mean the same in both spellings are rewritten (match / fullmatch / search / findall / finditer /
split with the string alone; sub / subn with repl, string[, count]); flags become the `flags=` keyword. Anything else keeps the
name. The rules read regexes where they are applied (`re.match(<constant>, x)`); hoisting a pattern into a compiled constant is
one of the most common maintenance edits. No-op on the pinned tree.
"""
from __future__ import annotations

import ast

from .inline import clone

_ONE = {"match", "fullmatch", "search", "findall", "finditer", "split"}
_SUB = {"sub", "subn"}


def inline_new_compiled_regexes(tree: ast.Module, pinned: set[str]) -> int:
    cands: dict[str, ast.Call] = {}
    for st in tree.body:
        tgt, val = None, None
        if isinstance(st, ast.Assign) and len(st.targets) == 1 and isinstance(st.targets[0], ast.Name):
            tgt, val = st.targets[0].id, st.value
        elif isinstance(st, ast.AnnAssign) and isinstance(st.target, ast.Name) and st.value is not None:
            tgt, val = st.target.id, st.value
        if tgt is None or tgt in pinned:
            continue
        if isinstance(val, ast.Call) and ast.unparse(val.func) == "re.compile" and 1 <= len(val.args) <= 2 and all(k.arg == "flags" for k in val.keywords) and not any(isinstance(n, ast.Name) and n.id not in ("re",) for a in val.args[1:] + [k.value for k in val.keywords] for n in ast.walk(a)):
            if isinstance(val.args[0], (ast.Constant, ast.JoinedStr, ast.BinOp, ast.Name)):
                cands[tgt] = val
    if not cands:
        return 0
    for parent in ast.walk(tree):
        for child in ast.iter_child_nodes(parent):
            child._parent = parent  # type: ignore[attr-defined]
    # bound once; every load is the receiver of a rewritable method call
    sites: dict[str, list[ast.Call]] = {k: [] for k in cands}
    for n in ast.walk(tree):
        if isinstance(n, ast.Name) and n.id in cands:
            if isinstance(n.ctx, (ast.Store, ast.Del)):
                par = getattr(n, "_parent", None)
                if not (isinstance(par, (ast.Assign, ast.AnnAssign)) and getattr(par, "_parent", None) is tree):
                    cands.pop(n.id, None)
                continue
            at = getattr(n, "_parent", None)
            c = getattr(at, "_parent", None)
            ok = isinstance(at, ast.Attribute) and at.value is n and isinstance(c, ast.Call) and c.func is at and not c.keywords and not any(isinstance(a, ast.Starred) for a in c.args) and ((at.attr in _ONE and len(c.args) == 1) or (at.attr in _SUB and 2 <= len(c.args) <= 3))
            if not ok:
                cands.pop(n.id, None)
            elif n.id in sites:
                sites[n.id].append(c)
    # a function parameter / local of the same name shadows the constant: leave such modules alone
    for fn in ast.walk(tree):
        if isinstance(fn, (ast.FunctionDef, ast.AsyncFunctionDef, ast.Lambda)):
            for a in ast.walk(fn.args):
                if isinstance(a, ast.arg) and a.arg in cands:
                    cands.pop(a.arg, None)
    count = 0
    for name, comp in cands.items():
        flags = comp.args[1] if len(comp.args) == 2 else next((k.value for k in comp.keywords if k.arg == "flags"), None)
        for c in sites.get(name, []):
            meth = c.func.attr  # type: ignore[attr-defined]
            c.func = ast.copy_location(ast.Attribute(value=ast.Name(id="re", ctx=ast.Load()), attr=meth, ctx=ast.Load()), c.func)
            c.args = [clone(comp.args[0])] + list(c.args)
            if flags is not None:
                c.keywords = [ast.keyword(arg="flags", value=clone(flags))]
            ast.fix_missing_locations(c)
            count += 1
    return count


def inline_new_string_constants(tree: ast.Module, pinned: set[str]) -> int:
    """E8, hoisted literals: `_NAME = "text"` at module level, where _NAME is not a module-level name of the pinned tree, is
    bound once, never shadowed by a parameter / local and only ever read, is read as the literal it names at every use inside a
    function; a `{_NAME}` field of an f-string becomes part of the f-string's text. Hoisting layout literals (`"==="`,
    `"===END==="`, `"// "`, `"  "`) into named constants is ordinary maintenance; the rules read the literals where they are
    written out. No-op on the pinned tree."""
    cands: dict[str, ast.Constant] = {}
    for st in tree.body:
        tgt, val = None, None
        if isinstance(st, ast.Assign) and len(st.targets) == 1 and isinstance(st.targets[0], ast.Name):
            tgt, val = st.targets[0].id, st.value
        elif isinstance(st, ast.AnnAssign) and isinstance(st.target, ast.Name) and st.value is not None:
            tgt, val = st.target.id, st.value
        if tgt is None or tgt in pinned:
            continue

        def _fold(e):
            if isinstance(e, ast.Constant) and isinstance(e.value, str):
                return e.value
            if isinstance(e, ast.Name) and e.id in cands:
                return cands[e.id].value
            if isinstance(e, ast.BinOp) and isinstance(e.op, ast.Add):
                a, b = _fold(e.left), _fold(e.right)
                return a + b if a is not None and b is not None else None
            if isinstance(e, ast.JoinedStr):
                parts = [(_fold(v.value) if isinstance(v, ast.FormattedValue) and v.conversion == -1 and v.format_spec is None else (v.value if isinstance(v, ast.Constant) else None)) for v in e.values]
                return "".join(parts) if all(isinstance(x, str) for x in parts) else None
            return None

        folded = _fold(val)
        if folded is None:
            continue
        cands[tgt] = ast.Constant(value=folded)
    if not cands:
        return 0
    stores: dict[str, int] = {}
    for n in ast.walk(tree):
        if isinstance(n, ast.Name) and n.id in cands and isinstance(n.ctx, (ast.Store, ast.Del)):
            stores[n.id] = stores.get(n.id, 0) + 1
        if isinstance(n, ast.arg) and n.arg in cands:
            stores[n.arg] = 99
        if isinstance(n, ast.Global) and any(x in cands for x in n.names):
            for x in n.names:
                stores[x] = 99
    for k, v in stores.items():
        if v != 1:
            cands.pop(k, None)
    if not cands:
        return 0
    count = 0

    class _Sub(ast.NodeTransformer):
        def visit_Name(self, n: ast.Name):  # noqa: N802
            nonlocal count
            if isinstance(n.ctx, ast.Load) and n.id in cands:
                count += 1
                return ast.copy_location(ast.Constant(value=cands[n.id].value), n)
            return n

        def visit_JoinedStr(self, n: ast.JoinedStr):  # noqa: N802
            self.generic_visit(n)
            out: list[ast.expr] = []
            for v in n.values:
                if isinstance(v, ast.FormattedValue) and isinstance(v.value, ast.Constant) and isinstance(v.value.value, str) and v.conversion == -1 and v.format_spec is None:
                    v = ast.copy_location(ast.Constant(value=v.value.value), v)
                if isinstance(v, ast.Constant) and out and isinstance(out[-1], ast.Constant):
                    out[-1] = ast.copy_location(ast.Constant(value=out[-1].value + v.value), out[-1])
                else:
                    out.append(v)
            if len(out) == 1 and isinstance(out[0], ast.Constant):
                return ast.copy_location(out[0], n)
            n.values = out
            return n

    for fn in [f for f in ast.walk(tree) if isinstance(f, (ast.FunctionDef, ast.AsyncFunctionDef))]:
        fn.body = [_Sub().visit(st) for st in fn.body]
    ast.fix_missing_locations(tree)
    return count
