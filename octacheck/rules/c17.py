"""C17 base_hash is a real compare-and-swap; failed and dry calls change nothing.

Structural necessary conditions decided on every install function (a function that renames a temp
file onto a target): entry compare, pre-replace recompare, guard strength, dry-run return dominates
mutation, no error return after the replace, no await, inter-process critical section.
"""
from __future__ import annotations

import ast

from .. import fsmodel as fsm
from ..cfg import CFG, branch_conditions
from ..fsmodel import FuncAnalysis, is_name, names_in
from ..report import Run
from ..resolve import Resolver
from ..source import AnalysisError, norm, walk_no_nested
from .c16 import Install, install_functions, target_aliases


def bh_names(fa: FuncAnalysis) -> set[str]:
    """names that hold the caller's base_hash: a parameter called base_hash, or a local bound from
    <params>.get("base_hash") / <params>["base_hash"]"""
    out: set[str] = set()
    args = fa.fi.node.args  # type: ignore[attr-defined]
    for a in list(args.posonlyargs) + list(args.args) + list(args.kwonlyargs):
        if a.arg == "base_hash":
            out.add(a.arg)
    for n in walk_no_nested(fa.fi.node):
        if isinstance(n, ast.Assign) and len(n.targets) == 1 and isinstance(n.targets[0], ast.Name):
            v = n.value
            if isinstance(v, ast.Call) and isinstance(v.func, ast.Attribute) and v.func.attr == "get" and v.args and isinstance(v.args[0], ast.Constant) and v.args[0].value == "base_hash":
                out.add(n.targets[0].id)
            if isinstance(v, ast.Subscript) and isinstance(v.slice, ast.Constant) and v.slice.value == "base_hash":
                out.add(n.targets[0].id)
    return out


# names of same-module helpers whose every return is an error envelope (learned per module by learn_error_helpers), and
# per-function locals that hold an error envelope when they are not None (bound from a CAS helper's tuple: see Cas)
_ERROR_HELPERS: set[str] = set()
_ERROR_VARS: dict[str, set[str]] = {}
_CURRENT_FUNC: list[str] = [""]


def learn_error_helpers(mod) -> None:
    changed = True
    while changed:
        changed = False
        for f in mod.functions.values():
            if f.name in _ERROR_HELPERS:
                continue
            rets = [n for n in walk_no_nested(f.node) if isinstance(n, ast.Return)]
            if rets and all(error_return(r) for r in rets):
                _ERROR_HELPERS.add(f.name)
                changed = True


_CURRENT_FN: list[ast.AST | None] = [None]
_ERR_NAMES: dict[int, set[str]] = {}


def err_names(fn: ast.AST | None) -> set[str]:
    """locals of `fn` that hold an error envelope whenever they are not None: every binding is `None` or an error value"""
    if fn is None:
        return set()
    if id(fn) not in _ERR_NAMES:
        _ERR_NAMES[id(fn)] = set()  # (recursion guard: error_value below consults this table)
        binds: dict[str, list[ast.AST]] = {}
        other: set[str] = set()
        for n in walk_no_nested(fn):
            if isinstance(n, ast.Assign) and len(n.targets) == 1 and isinstance(n.targets[0], ast.Name):
                binds.setdefault(n.targets[0].id, []).append(n.value)
            elif isinstance(n, (ast.Assign, ast.AugAssign, ast.AnnAssign, ast.For, ast.With, ast.NamedExpr)):
                for x in ast.walk(n):
                    if isinstance(x, ast.Name) and isinstance(x.ctx, ast.Store):
                        other.add(x.id)
        out: set[str] = set()
        changed = True
        while changed:  # (a binding to another None-or-error local is fine: fixpoint)
            changed = False
            for nm, vs in binds.items():
                if nm in other or nm in out:
                    continue
                if any(not (isinstance(v, ast.Constant) and v.value is None) for v in vs) and all((isinstance(v, ast.Constant) and v.value is None) or _is_error_call(v) or (isinstance(v, ast.Name) and v.id in out) for v in vs):
                    out.add(nm)
                    changed = True
        _ERR_NAMES[id(fn)] = out
    return _ERR_NAMES[id(fn)]


def _is_error_call(v: ast.AST) -> bool:
    if isinstance(v, ast.Call) and isinstance(v.func, (ast.Attribute, ast.Name)):
        name = v.func.attr if isinstance(v.func, ast.Attribute) else v.func.id
        return "error" in name.lower() or name in _ERROR_HELPERS
    if isinstance(v, ast.Dict):
        return any(isinstance(k, ast.Constant) and k.value == "status" and isinstance(val, ast.Constant) and val.value == "error" for k, val in zip(v.keys, v.values))
    return False


def error_value(v: ast.AST | None) -> bool:
    return v is not None and error_return(ast.Return(value=v))


def error_return(node: ast.AST) -> bool:
    """a return statement that yields an error envelope"""
    if not isinstance(node, ast.Return) or node.value is None:
        return False
    v = node.value
    if isinstance(v, ast.Call) and isinstance(v.func, (ast.Attribute, ast.Name)):
        name = v.func.attr if isinstance(v.func, ast.Attribute) else v.func.id
        if "error" in name.lower() or name in _ERROR_HELPERS:
            return True
        # a local bound once to functools.partial(<error helper>, ...)
        fn = _CURRENT_FN[0]
        if isinstance(v.func, ast.Name) and fn is not None:
            ds = [a.value for a in walk_no_nested(fn) if isinstance(a, ast.Assign) and len(a.targets) == 1 and isinstance(a.targets[0], ast.Name) and a.targets[0].id == name]
            if len(ds) == 1 and isinstance(ds[0], ast.Call) and ast.unparse(ds[0].func).split(".")[-1] == "partial" and ds[0].args and isinstance(ds[0].args[0], (ast.Name, ast.Attribute)):
                inner = ds[0].args[0].id if isinstance(ds[0].args[0], ast.Name) else ds[0].args[0].attr
                if "error" in inner.lower() or inner in _ERROR_HELPERS:
                    return True
    if isinstance(v, ast.Name) and v.id in _ERROR_VARS.get(_CURRENT_FUNC[0], set()):
        return True
    if isinstance(v, ast.Name) and v.id in err_names(_CURRENT_FN[0]):
        return True  # (None-or-error local: callers establish that it is not None on the path - see nn_reach)
    if isinstance(v, ast.Dict):
        for k, val in zip(v.keys, v.values):
            if isinstance(k, ast.Constant) and k.value == "status" and isinstance(val, ast.Constant) and val.value == "error":
                return True
    return False


class _HelperInst:
    """stand-in for an Install when the compare lives in a helper: the target is the helper's own parameter"""

    def __init__(self, fa: FuncAnalysis, target_param: str):
        self.fa = fa
        self.target = ast.Name(id=target_param)
        self.mkstemp = None
        self.replace = None


def cas_helper_summary(h, res: Resolver, target_param: str, bh_param: str) -> tuple[int, "Cas"] | None:
    """`h` is a CAS helper when (a) it touches the filesystem read-only, (b) every return is a tuple of one width in which one
    fixed position k holds either None (success) or an error envelope, (c) it contains a compare hash(read(<target_param>)) !=
    <bh_param> whose mismatch edge reaches only error returns, and (d) every path from its entry to a success return passes
    such a compare or leaves a base_hash-falsy guard. Returns (k, the helper's Cas) or None."""
    fa = FuncAnalysis(h, res)
    if fa.effects(fsm.MUTATING):
        return None
    _CURRENT_FN[0] = h.node
    cas = Cas(_HelperInst(fa, target_param), res, bh={bh_param})  # type: ignore[arg-type]
    _NN_EXTRA[id(h.node)] = (set(cas.read_vars), set(cas.bh))
    cfg = cas.cfg
    rets = [n for n in cfg.nodes if isinstance(n.ast, ast.Return)]
    if not rets or not all(isinstance(n.ast.value, ast.Tuple) for n in rets) or len({len(n.ast.value.elts) for n in rets}) != 1:  # type: ignore[union-attr]
        return None
    width = len(rets[0].ast.value.elts)  # type: ignore[union-attr]
    for k in range(width):
        is_none = lambda n: isinstance(n.ast.value.elts[k], ast.Constant) and n.ast.value.elts[k].value is None  # noqa: E731
        is_err = lambda n: error_value(n.ast.value.elts[k])  # noqa: E731
        if not all(is_none(n) or is_err(n) for n in rets) or not any(is_err(n) for n in rets):
            continue
        success = {n.id for n in rets if is_none(n)}
        valid = set()
        for tid, info in cas.compares.items():
            mis = [x for x, lab in cfg.succ[tid] if lab == info["mismatch"]]
            _nodes, rr = nn_reach(cfg, h.node, mis, stop=set())
            hv = info["hash_var"]
            computed = any(any(cfg.dominated_by(tid, a) for a in cfg.node_for_stmt_containing(st)) for st, _ in cas.hash_vars[hv])
            if rr and not (set(rr) & success) and computed:
                valid.add(tid)
        if not valid:
            return None
        if cas.path_without_compare(cfg.entry, success, valid) is not None:
            return None
        # R17.3 inside the helper: a base_hash guard conjoined with another fact discharges only if the complementary case
        # was rejected before (a dominating `not <fact>` test whose true edge reaches no success return)
        for g, prot in cas.protecting.items():
            for o in cas.guards[g]["others"]:
                want = ast.dump(o)
                rejected = False
                for d in cfg.dominators()[g]:
                    dn = cfg.nodes[d]
                    if dn.kind != "test" or d == g or dn.ast is None:
                        continue
                    ops = dn.ast.values if isinstance(dn.ast, ast.BoolOp) and isinstance(dn.ast.op, ast.And) else [dn.ast]
                    if any(isinstance(x, ast.UnaryOp) and isinstance(x.op, ast.Not) and ast.dump(x.operand) == want for x in ops):
                        ts = [x for x, lab in cfg.succ[d] if lab == "t"]
                        if not (set(_returns_reachable(cfg, ts, stop=set())) & success):
                            rejected = True
                if not rejected:
                    return None
        cas.valid_in_helper = valid
        return k, cas
    return None


class Cas:
    def __init__(self, inst: Install, res: Resolver, bh: set[str] | None = None):
        self.inst = inst
        self.fa = inst.fa
        self.cfg: CFG = inst.fa.cfg
        self.bh = bh if bh is not None else bh_names(self.fa)
        self.aliases = target_aliases(inst)
        self.M = inst.node(inst.mkstemp) if inst.mkstemp else None
        self.R = inst.node(inst.replace) if inst.replace else None
        self.hash_vars = self._hash_vars()
        self.compares = self._compare_nodes()
        self.helper_cas: dict[str, Cas] = {}
        if bh is None:
            self._helper_compares(res)
        self.guards = self._guard_nodes()
        # guards whose true edge leads to a compare they dominate: only these discharge by their false edge
        self.protecting: dict[int, list[int]] = {}
        for g in self.guards:
            t_succ = [s for s, lab in self.cfg.succ[g] if lab == "t"]
            prot = [t for t in self.compares if any(s == t or self.cfg.path_exists(s, t, {"x"}) for s in t_succ) and self.cfg.dominated_by(t, g)]
            if prot:
                self.protecting[g] = prot

    def _strict_reader_call(self, c: ast.AST) -> bool:
        """`h(<target>)` where h is a function / method of this module whose every return that can be taken with the constant
        arguments of this call is the text just read from its first parameter (open(p).read() / p.read_text()): a read of the
        target. A helper that can hand back a constant instead (a tolerant reader: \"\" when the file cannot be read) is not."""
        if not isinstance(c, ast.Call):
            return False
        f = c.func
        mod = self.fa.fi.module
        if isinstance(f, ast.Attribute) and isinstance(f.value, ast.Name) and f.value.id in ("self", "cls"):
            q = f"{self.fa.fi.qualname.split('.')[0]}.{f.attr}"
        elif isinstance(f, ast.Name):
            q = f.id
        else:
            return False
        if not mod.has_func(q) or not c.args or not (names_in(c.args[0]) & self.aliases):
            return False
        h = mod.func(q).node
        pos = [a.arg for a in h.args.args if a.arg not in ("self", "cls")]  # type: ignore[attr-defined]
        if not pos:
            return False
        bound: dict[str, object] = {}
        dflt = h.args.defaults  # type: ignore[attr-defined]
        for a, d in zip(h.args.args[len(h.args.args) - len(dflt):], dflt):  # type: ignore[attr-defined]
            if isinstance(d, ast.Constant):
                bound[a.arg] = d.value
        for a, d in zip(h.args.kwonlyargs, h.args.kw_defaults):  # type: ignore[attr-defined]
            if isinstance(d, ast.Constant):
                bound[a.arg] = d.value
        for i, a in enumerate(c.args[1:], start=1):
            if i < len(pos):
                bound.pop(pos[i], None)
                if isinstance(a, ast.Constant):
                    bound[pos[i]] = a.value
        for k in c.keywords:
            if k.arg is None:
                return False
            bound.pop(k.arg, None)
            if isinstance(k.value, ast.Constant):
                bound[k.arg] = k.value.value
        p0 = pos[0]
        handles = set()
        for n in walk_no_nested(h):
            if isinstance(n, ast.withitem) and isinstance(n.optional_vars, ast.Name) and isinstance(n.context_expr, ast.Call):
                cc = n.context_expr
                if ast.unparse(cc.func) in ("open", "io.open") and cc.args and is_name(cc.args[0], p0) and fsm.open_mode(cc, 1) in ("r", "rt", "rb"):
                    handles.add(n.optional_vars.id)
                if isinstance(cc.func, ast.Attribute) and cc.func.attr == "open" and p0 in names_in(cc.func.value) and fsm.open_mode(cc, 0) in ("r", "rt", "rb"):
                    handles.add(n.optional_vars.id)
        hcfg = CFG(h)
        reads = 0
        for rn in [x for x in hcfg.nodes if isinstance(x.ast, ast.Return)]:
            v = rn.ast.value  # type: ignore[union-attr]
            is_read = isinstance(v, ast.Call) and isinstance(v.func, ast.Attribute) and ((v.func.attr == "read" and isinstance(v.func.value, ast.Name) and v.func.value.id in handles and not v.args) or (v.func.attr in ("read_text", "read_bytes") and p0 in names_in(v.func.value)))
            if is_read:
                reads += 1
                continue
            # another return: it must be excluded by the constants this call passes
            excluded = False
            for t, val in branch_conditions(hcfg, rn.id):
                tt, vv = t, val
                while isinstance(tt, ast.UnaryOp) and isinstance(tt.op, ast.Not):
                    tt, vv = tt.operand, not vv
                if isinstance(tt, ast.Name) and tt.id in bound and bool(bound[tt.id]) != vv:
                    excluded = True
            if not excluded:
                return False
        return reads > 0

    def _read_vars(self) -> dict[str, list[ast.AST]]:
        """locals bound to the text read from the target: `with open(target) as f: v = f.read()` or v = path.read_text()"""
        fa = self.fa
        out: dict[str, list[ast.AST]] = {}
        handles: dict[str, ast.AST] = {}
        for n in walk_no_nested(fa.fi.node):
            if isinstance(n, ast.withitem) and isinstance(n.optional_vars, ast.Name) and isinstance(n.context_expr, ast.Call):
                c = n.context_expr
                if ast.unparse(c.func) in ("open", "io.open") and c.args and names_in(c.args[0]) & self.aliases and fsm.open_mode(c, 1) in ("r", "rt", "rb"):
                    handles[n.optional_vars.id] = n
                if isinstance(c.func, ast.Attribute) and c.func.attr == "open" and names_in(c.func.value) & self.aliases and fsm.open_mode(c, 0) in ("r", "rt", "rb"):
                    handles[n.optional_vars.id] = n
        self._read_handles = handles
        for n in walk_no_nested(fa.fi.node):
            if isinstance(n, ast.Assign) and len(n.targets) == 1 and isinstance(n.targets[0], ast.Name) and isinstance(n.value, ast.Call):
                c = n.value
                if isinstance(c.func, ast.Attribute) and c.func.attr == "read" and isinstance(c.func.value, ast.Name) and c.func.value.id in handles and not c.args:
                    out.setdefault(n.targets[0].id, []).append(n)
                if isinstance(c.func, ast.Attribute) and c.func.attr in ("read_text", "read_bytes") and names_in(c.func.value) & self.aliases:
                    out.setdefault(n.targets[0].id, []).append(n)
                if self._strict_reader_call(c):
                    out.setdefault(n.targets[0].id, []).append(n)
        return out

    def _hash_vars(self) -> dict[str, list[tuple[ast.AST, str]]]:
        """locals bound to hash(<text read from target>): var -> [(assign stmt, read var)]"""
        reads = self._read_vars()
        self.read_vars = reads
        handles = self._read_handles
        out: dict[str, list[tuple[ast.AST, str]]] = {}
        for n in walk_no_nested(self.fa.fi.node):
            if isinstance(n, ast.NamedExpr) and isinstance(n.target, ast.Name) and isinstance(n.value, ast.Call):
                # `(h := compute_hash(text)) != base_hash`: the binding written inside the comparison
                n = ast.copy_location(ast.Assign(targets=[n.target], value=n.value), n)
            if isinstance(n, ast.Assign) and len(n.targets) == 1 and isinstance(n.targets[0], ast.Name) and isinstance(n.value, ast.Call):
                c = n.value
                fname = ast.unparse(c.func)
                if fname.endswith("compute_hash") and len(c.args) == 1 and isinstance(c.args[0], ast.IfExp):
                    # compute_hash(<text> if <file exists> else None): where the hash is taken at all it is the hash of <text>
                    # (the None case is excluded by the guard in front of it - a path fact, NNState)
                    ie = c.args[0]
                    pick = ie.body if isinstance(ie.orelse, ast.Constant) and ie.orelse.value is None else ie.orelse if isinstance(ie.body, ast.Constant) and ie.body.value is None else None
                    if isinstance(pick, ast.Name) and pick.id in reads:
                        out.setdefault(n.targets[0].id, []).append((n, pick.id))
                        continue
                if fname.endswith("compute_hash") and len(c.args) == 1 and isinstance(c.args[0], ast.Name) and c.args[0].id in reads:
                    out.setdefault(n.targets[0].id, []).append((n, c.args[0].id))
                elif fname.endswith("compute_hash") and len(c.args) == 1 and isinstance(c.args[0], ast.Call) and isinstance(c.args[0].func, ast.Attribute):
                    # the text is read inside the hash call: compute_hash(<target>.read_text()) / compute_hash(<handle>.read())
                    r = c.args[0]
                    direct = self._strict_reader_call(r) or (r.func.attr == "read" and isinstance(r.func.value, ast.Name) and r.func.value.id in handles and not r.args) or (r.func.attr in ("read_text", "read_bytes") and bool(names_in(r.func.value) & self.aliases))
                    if direct:
                        key = f"<read at line {n.lineno}>" if f"<read at line {n.lineno}>" not in reads else f"<read at line {n.lineno} #{len(reads)}>"  # (two copies of an inlined helper share line numbers)
                        reads.setdefault(key, []).append(n)
                        out.setdefault(n.targets[0].id, []).append((n, key))
        # a local whose every binding is None or a copy of such a hash local holds that hash (or nothing): `h2 = h if .. else None`
        # written as statements, a field of a snapshot record read back
        grew = True
        while grew:
            grew = False
            binds: dict[str, list[ast.Assign]] = {}
            for n in walk_no_nested(self.fa.fi.node):
                if isinstance(n, ast.Assign) and len(n.targets) == 1 and isinstance(n.targets[0], ast.Name):
                    binds.setdefault(n.targets[0].id, []).append(n)
            none_locals = {nm_ for nm_, ds_ in binds.items() if all(isinstance(d_.value, ast.Constant) and d_.value.value is None for d_ in ds_)}
            for nm, ds in binds.items():
                if nm in out:
                    continue
                ds = [d for d in ds if not (isinstance(d.value, ast.Name) and d.value.id in none_locals)]  # (a copy of a local that is only ever None)
                srcs = [d for d in ds if not (isinstance(d.value, ast.Constant) and d.value.value is None)]
                if srcs and all(isinstance(d.value, ast.Name) and d.value.id in out for d in srcs) and len(srcs) + sum(1 for d in ds if isinstance(d.value, ast.Constant) and d.value.value is None) == len(ds):
                    for d in srcs:
                        for (_n0, rk) in out[d.value.id]:  # type: ignore[union-attr]
                            out.setdefault(nm, []).append((d, rk))
                    grew = True
        return out

    def _compare_nodes(self) -> dict[int, dict]:
        """test nodes `hashvar != base_hash` (or ==): node id -> info"""
        out: dict[int, dict] = {}
        for node in self.cfg.nodes:
            if node.kind != "test" or node.ast is None:
                continue
            t = node.ast
            neg = False
            if isinstance(t, ast.UnaryOp) and isinstance(t.op, ast.Not):
                t = t.operand
                neg = True
            if isinstance(t, ast.Compare) and len(t.ops) == 1 and isinstance(t.ops[0], (ast.NotEq, ast.Eq)):
                l, r = t.left, t.comparators[0]
                sides = [x.target if isinstance(x, ast.NamedExpr) else x for x in (l, r)]
                bh_side = [s for s in sides if isinstance(s, ast.Name) and s.id in self.bh]
                h_side = [s for s in sides if isinstance(s, ast.Name) and s.id in self.hash_vars]
                if len(bh_side) == 1 and len(h_side) == 1:
                    mismatch_label = "t" if isinstance(t.ops[0], ast.NotEq) != neg else "f"
                    out[node.id] = {"hash_var": h_side[0].id, "mismatch": mismatch_label, "match": "f" if mismatch_label == "t" else "t"}
        return out

    def _helper_compares(self, res: Resolver) -> None:
        """`(.., err, ..) = self.<helper>(<target>, .., <base_hash>, ..)` followed by a test of `err`: when the helper is a CAS
        helper (cas_helper_summary) the test is a compare node whose mismatch edge is the one on which err is not None"""
        fi = self.fa.fi
        errvars: dict[str, list[tuple[ast.Assign, str]]] = {}
        for n in walk_no_nested(fi.node):
            if not (isinstance(n, ast.Assign) and len(n.targets) == 1 and isinstance(n.targets[0], ast.Tuple) and isinstance(n.value, ast.Call)):
                continue
            call = n.value
            if call.keywords or any(isinstance(a, ast.Starred) for a in call.args):
                continue
            tpos = [i for i, a in enumerate(call.args) if isinstance(a, ast.Name) and a.id in self.aliases]
            bpos = [i for i, a in enumerate(call.args) if isinstance(a, ast.Name) and a.id in self.bh]
            if len(tpos) != 1 or len(bpos) != 1:
                continue
            for c in res.resolve_call(fi, call):
                if c.kind != "repo" or c.func is None or c.func.module is not fi.module:
                    continue
                params = [a.arg for a in c.func.node.args.args if a.arg not in ("self", "cls")]  # type: ignore[attr-defined]
                if len(params) != len(call.args):
                    continue
                summ = cas_helper_summary(c.func, res, params[tpos[0]], params[bpos[0]])
                if summ is None:
                    continue
                k, hcas = summ
                tgt = n.targets[0].elts
                if len(tgt) > k and isinstance(tgt[k], ast.Name):
                    errvars.setdefault(tgt[k].id, []).append((n, c.func.qualname))
                    self.helper_cas[c.func.qualname] = hcas
        for var, defs in errvars.items():
            all_defs = [st for st, _v in self.fa.assignments_to(var)]
            if {id(x) for x in all_defs} != {id(st) for st, _q in defs}:
                continue  # also bound by something else: the test says nothing about the helper's compare
            _ERROR_VARS.setdefault(fi.fqn, set()).add(var)
            def_nodes = {x for st, _q in defs for x in self.cfg.node_for_stmt_containing(st)}
            for node in self.cfg.nodes:
                if node.kind != "test" or node.ast is None:
                    continue
                t = node.ast
                neg = False
                if isinstance(t, ast.UnaryOp) and isinstance(t.op, ast.Not):
                    t, neg = t.operand, True
                if isinstance(t, ast.Compare) and len(t.ops) == 1 and isinstance(t.ops[0], (ast.Is, ast.IsNot)) and isinstance(t.comparators[0], ast.Constant) and t.comparators[0].value is None and is_name(t.left, var):
                    err_on_true = isinstance(t.ops[0], ast.IsNot)
                elif is_name(t, var):
                    err_on_true = True
                else:
                    continue
                if neg:
                    err_on_true = not err_on_true
                if not any(self.cfg.dominated_by(node.id, d) for d in def_nodes):
                    continue
                self.compares[node.id] = {"hash_var": None, "mismatch": "t" if err_on_true else "f", "match": "f" if err_on_true else "t", "via_helper": defs[0][1], "def_nodes": def_nodes}

    def _guard_nodes(self) -> dict[int, dict]:
        """test nodes that mention base_hash by truthiness (not the compare itself)"""
        out: dict[int, dict] = {}
        for node in self.cfg.nodes:
            if node.kind != "test" or node.ast is None or node.id in self.compares:
                continue
            t = node.ast
            operands = t.values if isinstance(t, ast.BoolOp) and isinstance(t.op, ast.And) else [t]
            bh_ops = [o for o in operands if self._is_bh_truth(o)]
            if bh_ops:
                others = [o for o in operands if o not in bh_ops]
                out[node.id] = {"others": others}
        return out

    def _is_bh_truth(self, o: ast.AST) -> bool:
        if isinstance(o, ast.Name) and o.id in self.bh:
            return True
        if isinstance(o, ast.Compare) and len(o.ops) == 1 and isinstance(o.ops[0], ast.IsNot) and isinstance(o.left, ast.Name) and o.left.id in self.bh and isinstance(o.comparators[0], ast.Constant) and o.comparators[0].value is None:
            return True
        return False

    def path_without_compare(self, src: int, dsts: set[int], valid: set[int]) -> list[int] | None:
        """a path src -> any dst that neither passes a valid compare node on its 'match' edge nor
        leaves a base_hash guard by its false edge (base_hash falsy: nothing to compare)"""
        cfg = self.cfg
        nn = NNState(self.fa.fi.node)
        start = (src, frozenset())
        prev: dict[tuple[int, frozenset], tuple[int, frozenset]] = {}
        seen = {start}
        stack = [start]
        while stack:
            key = stack.pop()
            n, st = key
            if n in dsts and n != src:
                path = [key]
                while path[-1] != start:
                    path.append(prev[path[-1]])
                return [k[0] for k in reversed(path)]
            if n in valid:
                continue  # passing the compare (either edge) discharges the obligation
            if self.bh and all(dict(st).get("bh:" + b) == "F" for b in self.bh):
                continue  # base_hash is known falsy on this path: there is nothing to compare
            for s, lab, st2 in nn.edges(cfg, n, st, follow_exc=True):
                if lab == "x" and cfg.nodes[s].kind != "handler":
                    continue  # (an exception that is CAUGHT in the function continues in its handler: ordinary control flow)
                if (s, st2) in seen:
                    continue
                if n in self.protecting and lab == "f":
                    continue
                seen.add((s, st2))
                prev[(s, st2)] = key
                stack.append((s, st2))
        return None


def check(run: Run) -> None:
    res = Resolver(run.project)
    all_installs = [i for i in install_functions(run, res) if i.replace is not None]
    installs = [i for i in all_installs if i.mkstemp is not None and i.tmp is not None]
    run.extra["install_functions"] = [i.fa.fi.fqn for i in installs]
    run.rule("R17.1", "entry compare: every path from the function entry to the first mutating filesystem call passes `hash(read(target)) != base_hash -> error` (or leaves a base_hash guard because base_hash is falsy)", 2)
    run.rule("R17.2", "pre-replace recompare: every path mkstemp -> os.replace passes a second compare on text re-read after mkstemp, and nothing is called between that compare and the replace", 2)
    run.rule("R17.3", "guard strength: a base_hash guard may not be conjoined with a fact that lets a stale hash through (e.g. `and file_exists`) unless the complementary case is rejected first", 4)
    run.rule("R17.4", "dry run: `if corrections_only: return` dominates every mutating filesystem call of the tool", 1)
    run.rule("R17.5", "no error return is reachable after os.replace has succeeded", 2)
    run.rule("R17.6", "no await inside the install functions or anything they call (calls served by one event loop are serial)", 2)
    run.rule("R17.7", "critical section: compare -> replace is enclosed by an inter-process lock (flock/lockf/O_EXCL lock file)", 2)
    run.rule("R17.8", "a call that returns status=error leaves the filesystem as it was: no error return is reachable after a mutation that is not undone", 2)
    run.assume("hashing helper names end in compute_hash and are the same function used for canonical_hash (checked in C16 R16.7)")
    run.rule("R17.10", "the private temp file never outlives a failed call: every path from mkstemp to an exit of the install function that does not complete os.replace passes os.unlink(<temp>) (or a test showing the temp path no longer exists)", 2)
    run.rule("R17.9", "writers never share a temp file: the source of every os.replace is the private path returned by tempfile.mkstemp", 2)
    for i in all_installs:
        fi0 = i.fa.fi
        ok = i.mkstemp is not None and i.tmp is not None and len(i.replace.call.args) >= 1 and is_name(i.replace.call.args[0], i.tmp)
        run.instance("R17.9", f"{fi0.module.relpath}:{i.replace.call.lineno}", f"{fi0.qualname}: `{norm(i.replace.call)}` renames the mkstemp path", ok=ok)
        if not ok:
            run.violation("R17.9", fi0.module, fi0.qualname, i.replace.call, "the file renamed onto the target is not a private mkstemp file: two writers can share (and overwrite) the same temp path, so a writer whose compare passed may install the other writer's bytes")
    if len(all_installs) < 2:
        raise AnalysisError("fewer than 2 install functions (functions that rename onto a target) found")

    for inst in installs:
        learn_error_helpers(inst.fa.fi.module)
        _CURRENT_FUNC[0] = inst.fa.fi.fqn
        cas = Cas(inst, res)
        _CURRENT_FN[0] = inst.fa.fi.node  # (after Cas: its helper summaries set their own function)
        _NN_EXTRA[id(inst.fa.fi.node)] = (set(cas.read_vars), set(cas.bh))
        fa, cfg, fi, mod = cas.fa, cas.cfg, cas.fa.fi, cas.fa.fi.module
        if not cas.bh:
            raise AnalysisError(f"{fi.fqn}: no base_hash parameter/local recognised")
        M, R = cas.M, cas.R
        assert M is not None and R is not None
        mut_nodes = {n for s in fa.effects(fsm.MUTATING) for n in s.nodes}
        where = f"{mod.relpath}:{fi.node.lineno}"

        # validity of compare nodes: mismatch edge must not reach the replace, and its returns are error returns
        valid: set[int] = set()
        for tid, info in cas.compares.items():
            mis_succ = [s for s, lab in cfg.succ[tid] if lab == info["mismatch"]]
            reached, rets = nn_reach(cfg, fi.node, mis_succ, stop={R})
            reaches_replace = R in reached
            all_err = bool(rets) and all(error_return(cfg.nodes[r].ast) for r in rets)
            ok = not reaches_replace and all_err
            if ok:
                valid.add(tid)
            else:
                run.violation("R17.1", mod, fi.qualname, cfg.nodes[tid].ast, "hash mismatch branch does not end in an error return (the replace is still reachable after a mismatch)",  # type: ignore[arg-type]
                              reaches_replace=reaches_replace, returns=[cfg.nodes[r].lineno for r in rets])

        # ------------------------------------------------------------ R17.1
        entry_valid = {t for t in valid if not cfg.dominated_by(t, M)}
        w = cas.path_without_compare(cfg.entry, mut_nodes, entry_valid)
        run.instance("R17.1", where, f"{fi.qualname}: {len(entry_valid)} entry compare(s); every path entry -> first mutation passes one or a base_hash-falsy guard edge", ok=w is None,
                     compares=[cfg.nodes[t].lineno for t in sorted(entry_valid)])
        if w is not None:
            run.violation("R17.1", mod, fi.qualname, "entry CAS compare before first mutation", "a path reaches a mutating filesystem call with base_hash set but never compared with the hash of the file's current content",
                          path=cfg.describe_path(w, mod.relpath))
        # the compared hash must derive from a read that happens before the compare on all paths (dominance)
        for t in sorted(entry_valid):
            hv = cas.compares[t]["hash_var"]
            if hv is None:
                continue  # compare done inside a CAS helper: checked there (cas_helper_summary)
            ok = any(any(cfg.dominated_by(t, a) for a in cfg.node_for_stmt_containing(st)) for st, _ in cas.hash_vars[hv])
            if not ok:
                run.violation("R17.1", mod, fi.qualname, cfg.nodes[t].ast, f"compared hash `{hv}` is not computed on every path before the compare")  # type: ignore[arg-type]

        # ------------------------------------------------------------ R17.2
        late_valid = set()
        for t in valid:
            if not cfg.dominated_by(t, M):
                continue
            hv = cas.compares[t]["hash_var"]
            # the read feeding the compared hash must itself happen after mkstemp
            fresh = False
            if hv is None:
                # the helper reads the target itself on every call: fresh when the call happens after mkstemp
                fresh = all(cfg.dominated_by(x, M) for x in cas.compares[t]["def_nodes"])
                if fresh:
                    late_valid.add(t)
                continue
            for st, rv in cas.hash_vars[hv]:
                for rst in cas.read_vars.get(rv, []):
                    rn = cfg.node_for_stmt_containing(rst)
                    if rn and all(cfg.dominated_by(x, M) for x in rn) and any(cfg.dominated_by(t, x) for x in rn):
                        fresh = True
            if fresh:
                late_valid.add(t)
        w = cas.path_without_compare(M, {R}, late_valid)
        run.instance("R17.2", f"{mod.relpath}:{inst.replace.call.lineno}", f"{fi.qualname}: {len(late_valid)} recompare(s) after mkstemp on freshly re-read content; all paths mkstemp -> replace pass one", ok=w is None and bool(late_valid))
        if w is not None or not late_valid:
            run.violation("R17.2", mod, fi.qualname, "recompare base_hash immediately before os.replace", "a path from mkstemp to os.replace does not re-read the target and compare its hash with base_hash (TOCTOU window from entry to replace is unchecked)",
                          path=cfg.describe_path(w, mod.relpath) if w else "no compare on content re-read after mkstemp", line=inst.replace.call.lineno)
        for t in sorted(late_valid):
            # nothing between the recompare's match edge and the replace
            between = _nodes_between(cfg, t, cas.compares[t]["match"], R)
            calls = [b for b in between if b != R and cfg.nodes[b].ast is not None and any(isinstance(x, ast.Call) for x in ast.walk(cfg.nodes[b].ast))]  # type: ignore[arg-type]
            run.instance("R17.2", f"{mod.relpath}:{cfg.nodes[t].lineno}", f"{fi.qualname}: no call between the recompare and os.replace", ok=not calls)
            if calls:
                run.violation("R17.2", mod, fi.qualname, cfg.nodes[calls[0]].ast, "work is done between the base_hash recompare and os.replace: the window in which another writer can slip in is widened")  # type: ignore[arg-type]
            # the write of the temp file must be complete before the recompare (fsync dominates it)
            fsyncs = {n for s in fa.sites if s.is_ext("os.fsync") for n in s.nodes}
            ok = any(cfg.dominated_by(t, f) for f in fsyncs)
            run.instance("R17.2", f"{mod.relpath}:{cfg.nodes[t].lineno}", f"{fi.qualname}: the recompare happens after the temp file is written and fsynced", ok=ok)
            if not ok:
                run.violation("R17.2", mod, fi.qualname, cfg.nodes[t].ast, "the recompare happens before the temp file has been written and synced (long window before the replace)")  # type: ignore[arg-type]

        # ------------------------------------------------------------ R17.3
        for g, info in sorted(cas.guards.items()):
            gnode = cfg.nodes[g]
            # only guards that protect a compare (a compare is reachable from the true edge)
            protects = cas.protecting.get(g)
            if not protects:
                continue
            others = info["others"]
            ok = True
            detail = ""
            for o in others:
                if not _complement_rejected(cas, g, o):
                    ok = False
                    detail = ast.unparse(o)
            run.instance("R17.3", f"{mod.relpath}:{gnode.lineno}", f"{fi.qualname}: guard `{norm(gnode.ast)}` protects compare(s) at line(s) {[cfg.nodes[t].lineno for t in protects]}", ok=ok)  # type: ignore[arg-type]
            if not ok:
                run.violation("R17.3", mod, fi.qualname, gnode.ast, f"base_hash guard is conjoined with `{detail}`: when that is false a caller's base_hash is silently ignored (e.g. file absent or deleted: stale hash accepted, file (re)created)",  # type: ignore[arg-type]
                              failing_input="write with base_hash=<any stale hash> on a path whose file does not exist -> status success, file created")

        # ------------------------------------------------------------ R17.4
        if fi.qualname.endswith("WriteTool.execute"):
            dry = None
            for n in walk_no_nested(fi.node):
                if isinstance(n, ast.Assign) and len(n.targets) == 1 and isinstance(n.targets[0], ast.Name) and isinstance(n.value, ast.Call) and isinstance(n.value.func, ast.Attribute) and n.value.func.attr == "get" and n.value.args and isinstance(n.value.args[0], ast.Constant) and n.value.args[0].value == "corrections_only":
                    dry = n.targets[0].id
            if dry is None:
                raise AnalysisError(f"{fi.fqn}: corrections_only local not found")
            bad = []
            for n in sorted(mut_nodes):
                conds = branch_conditions(cfg, n)
                if not any(is_name(t, dry) and val is False for t, val in conds):
                    bad.append(n)
            run.instance("R17.4", where, f"{fi.qualname}: {len(mut_nodes)} mutating call node(s) all on the corrections_only-false side", ok=not bad)
            for n in bad:
                run.violation("R17.4", mod, fi.qualname, cfg.nodes[n].ast, "a mutating filesystem call is reachable when corrections_only is true (dry run must not touch the filesystem)")  # type: ignore[arg-type]

        # ------------------------------------------------------------ R17.5
        check_no_error_after_replace(run, "R17.5", mod, fi, cfg, R, inst)

        # ------------------------------------------------------------ R17.6
        reach = res.reachable_from([fi.fqn])
        aw = []
        for fq in sorted(reach):
            f2 = res.func_by_fqn(fq)
            for n in walk_no_nested(f2.node):
                if isinstance(n, (ast.Await, ast.AsyncFor, ast.AsyncWith)):
                    aw.append((f2, n))
        run.instance("R17.6", where, f"{fi.qualname}: {len(reach)} reachable function(s) contain no await/async for/async with", ok=not aw, reachable=len(reach))
        for f2, n in aw:
            run.violation("R17.6", f2.module, f2.qualname, n, f"await point reachable from {fi.qualname}: two write calls on one event loop can interleave between compare and replace")

        # ------------------------------------------------------------ R17.7
        lock = [s for s in fa.sites if any(c.kind == "ext" and c.name in ("fcntl.flock", "fcntl.lockf", "msvcrt.locking", "filelock.FileLock", "portalocker.lock") for c in s.callees)]
        lock += [s for s in fa.sites if s.is_ext("os.open") and any(isinstance(a, ast.Attribute) and a.attr == "O_EXCL" for a in ast.walk(s.call))]
        ok = bool(lock) and all(any(cfg.dominated_by(t, n) for s in lock for n in s.nodes) for t in valid) and any(cfg.dominated_by(R, n) for s in lock for n in s.nodes)
        run.instance("R17.7", f"{mod.relpath}:{inst.replace.call.lineno}", f"{fi.qualname}: lock acquisition dominating compare and replace", ok=ok)
        if not ok:
            run.violation("R17.7", mod, fi.qualname, "inter-process lock around compare -> os.replace", "no inter-process lock encloses the base_hash compare and the replace: two writers holding the same base_hash can both pass the recompare and both succeed",
                          failing_history="writers A and B, same base_hash: A recompare ok, B recompare ok, A replace, B replace -> both status success")

        # ------------------------------------------------------------ R17.10
        _temp_cleanup(run, inst, cas)

        # ------------------------------------------------------------ R17.8
        undone_classes = {fsm.MKDIR}
        for s in fa.effects(undone_classes):
            for n in s.nodes:
                succs = [x for x, lab in cfg.succ[n] if lab != "x"]
                rets = _returns_reachable(cfg, succs, stop=set(), follow_exc=True)
                errs = [r for r in rets if error_return(cfg.nodes[r].ast)]
                conditional_create = True  # mkdir(parents=True, exist_ok=True) creates only what is missing
                run.instance("R17.8", f"{mod.relpath}:{s.call.lineno}", f"{fi.qualname}: error returns reachable after {norm(s.call)}: {len(errs)}", ok=not errs)
                if errs and conditional_create:
                    run.violation("R17.8", mod, fi.qualname, "<target>.parent.mkdir(parents=True, exist_ok=True)" if norm(s.call).endswith(".parent.mkdir(parents=True, exist_ok=True)") else norm(s.call), "parent directories created by this call are not removed when a later step fails and the call returns status=error",
                                  error_returns=[cfg.nodes[r].lineno for r in errs], failing_input="target in a not-yet-existing directory + mkstemp/write failure (e.g. ENOSPC): status=error but the directory now exists")


def _temp_cleanup(run: Run, inst: Install, cas: Cas) -> None:
    """R17.10: explore (normal and exception edges) from the statement after mkstemp; the state is whether the temp file has
    been removed. Completing os.replace ends a path (the temp file has become the target). Reaching a return or the function's
    raising exit with the temp file still there is a violation."""
    fa, cfg, fi, mod = cas.fa, cas.cfg, cas.fa.fi, cas.fa.fi.module
    M, R, tmp = cas.M, cas.R, inst.tmp
    assert M is not None and R is not None and tmp is not None

    def unlinks(a: ast.AST | None) -> bool:
        if a is None:
            return False
        for c in walk_no_nested(a):
            if isinstance(c, ast.Call):
                f = ast.unparse(c.func)
                if f in ("os.unlink", "os.remove") and c.args and is_name(c.args[0], tmp):
                    return True
                if isinstance(c.func, ast.Attribute) and c.func.attr == "unlink" and tmp in names_in(c.func.value):
                    return True
        return False

    def exists_test(a: ast.AST | None) -> bool:
        return a is not None and isinstance(a, ast.Call) and ast.unparse(a.func) in ("os.path.exists", "os.path.isfile", "os.path.lexists") and bool(a.args) and is_name(a.args[0], tmp)

    bad: list[list[int]] = []
    seen: set[tuple[int, bool]] = set()
    work: list[tuple[int, bool, tuple[int, ...]]] = [(s, False, (M, s)) for s, lab in cfg.succ[M] if lab != "x"]
    n_exits = 0
    while work:
        n, gone, path = work.pop()
        if (n, gone) in seen:
            continue
        seen.add((n, gone))
        node = cfg.nodes[n]
        if n in (cfg.exit, cfg.raise_exit) or isinstance(node.ast, ast.Return):
            n_exits += 1
            if not gone:
                bad.append(list(path))
            continue
        for s, lab in cfg.succ[n]:
            g2 = gone
            if n == R and lab != "x":
                continue  # replace completed: the temp file is the target now
            if node.kind == "stmt" and unlinks(node.ast):
                g2 = True  # (an unlink that itself fails cannot be helped: counted as done on its exception edge too)
            if node.kind == "test" and exists_test(node.ast):
                if lab == "x":
                    continue  # os.path.exists() reports False instead of raising
                if lab == "f":
                    g2 = True
            work.append((s, g2, path + (s,)))
    ok = not bad
    run.instance("R17.10", f"{mod.relpath}:{inst.mkstemp.call.lineno}", f"{fi.qualname}: {n_exits} exit state(s) reachable from mkstemp without completing os.replace; the temp file is removed on all of them", ok=ok)  # type: ignore[union-attr]
    reported: set[int] = set()
    for pth in bad:
        end = pth[-1]
        if end in reported:
            continue
        reported.add(end)
        endn = cfg.nodes[end]
        what = norm(endn.ast)[:80] if endn.ast is not None else ("raise" if end == cfg.raise_exit else "fall off the end")
        run.violation("R17.10", mod, fi.qualname, f"temp file not removed before `{what}`", "a failing exit of the install function is reachable after mkstemp without os.unlink(<temp>): the call reports an error (or raises) and leaves its fully written temp file next to the target - the file system is not as it was",
                      path=cfg.describe_path(pth[-12:], mod.relpath), line=endn.lineno)


_NN_EXTRA: dict[int, tuple[set[str], set[str]]] = {}  # per function: (locals that hold text read from the target, base_hash names)


class NNState:
    """what is known along a path about (a) the None-ness of the None-or-error locals (err_names) and of the locals that hold
    text read from the target (never None), (b) the truthiness of the base_hash names. `x = None` / `x = <error value>` /
    `x = <handle>.read()` set (a); tests refine both; a test is followed only on the edges its three-valued evaluation under
    the known facts allows (`not base_hash or on_disk is None` has no true edge where base_hash is known truthy and on_disk was
    just read)."""

    def __init__(self, fn: ast.AST):
        self.tracked = set(err_names(fn))
        reads, bh = _NN_EXTRA.get(id(fn), (set(), set()))
        self.reads = set(reads)
        self.bh = set(bh)
        self.tracked |= self.reads
        # locals bound exactly once (`file_exists = path.exists()`) and tested as plain names: their truth is a path fact too
        stores: dict[str, int] = {}
        for n in walk_no_nested(fn):
            if isinstance(n, ast.Name) and isinstance(n.ctx, (ast.Store, ast.Del)):
                stores[n.id] = stores.get(n.id, 0) + 1
        params = {a.arg for a in ast.walk(fn.args) if isinstance(a, ast.arg)} if hasattr(fn, "args") else set()
        self.flags = {nm for nm, k in stores.items() if k == 1 and nm not in self.tracked and nm not in self.bh and nm not in params}

    # -- atoms
    def _atom(self, t: ast.AST):
        """('nn', var, polarity: test true <=> not None) | ('tr', var, polarity: test true <=> truthy) | None"""
        neg = False
        while isinstance(t, ast.UnaryOp) and isinstance(t.op, ast.Not):
            t, neg = t.operand, not neg
        if isinstance(t, ast.Name) and t.id in self.bh:
            return ("tr", t.id, not neg)
        if isinstance(t, ast.Name) and t.id in self.tracked and t.id not in self.reads:
            return ("nn", t.id, not neg)  # (a None-or-error local: truthy <=> not None)
        if isinstance(t, ast.Name) and t.id in self.flags:
            return ("fl", t.id, not neg)
        if isinstance(t, ast.Compare) and len(t.ops) == 1 and isinstance(t.left, ast.Name) and isinstance(t.comparators[0], ast.Constant) and t.comparators[0].value is None and isinstance(t.ops[0], (ast.Is, ast.IsNot)):
            if t.left.id in self.tracked:
                return ("nn", t.left.id, isinstance(t.ops[0], ast.IsNot) != neg)
            if t.left.id in self.bh:
                return ("tr_nn", t.left.id, isinstance(t.ops[0], ast.IsNot) != neg)
        return None

    def evaluate(self, t: ast.AST, d: dict) -> bool | None:
        if isinstance(t, ast.BoolOp):
            vals = [self.evaluate(v, d) for v in t.values]
            if isinstance(t.op, ast.And):
                return False if False in vals else (True if all(v is True for v in vals) else None)
            return True if True in vals else (False if all(v is False for v in vals) else None)
        if isinstance(t, ast.UnaryOp) and isinstance(t.op, ast.Not) and isinstance(t.operand, ast.BoolOp):
            v = self.evaluate(t.operand, d)
            return None if v is None else not v
        if isinstance(t, ast.UnaryOp) and isinstance(t.op, ast.Not) and isinstance(t.operand, ast.Compare):
            v = self.evaluate(t.operand, d)
            return None if v is None else not v
        if isinstance(t, ast.Compare) and len(t.ops) == 1 and isinstance(t.ops[0], (ast.Is, ast.IsNot)) and isinstance(t.comparators[0], ast.Constant) and t.comparators[0].value is None:
            # `(A if c else B) is None` under a known c; `None is None`
            if isinstance(t.left, ast.IfExp):
                c = self.evaluate(t.left.test, d)
                if c is None:
                    return None
                return self.evaluate(ast.Compare(left=t.left.body if c else t.left.orelse, ops=t.ops, comparators=t.comparators), d)
            if isinstance(t.left, ast.Constant):
                return (t.left.value is None) == isinstance(t.ops[0], ast.Is)
        a = self._atom(t)
        if a is None:
            return None
        kind, var, pol = a
        if kind == "fl":
            k = d.get("fl:" + var)
            return None if k is None else ((k == "T") == pol)
        if kind == "nn":
            k = d.get(var)
            return None if k is None else ((k != "N") == pol)
        if kind == "tr":
            k = d.get("bh:" + var)
            return None if k is None else ((k == "T") == pol)
        if kind == "tr_nn":
            k = d.get("bh:" + var)
            return (True == pol) if k == "T" else None  # truthy => not None
        return None

    def refine(self, t: ast.AST, val: bool, d: dict) -> None:
        if isinstance(t, ast.BoolOp):
            if (isinstance(t.op, ast.And) and val) or (isinstance(t.op, ast.Or) and not val):
                for v in t.values:
                    self.refine(v, val, d)
            else:
                # `a or b` true with a known false => b true ; `a and b` false with a known true => b false
                decided = [self.evaluate(v, d) for v in t.values]
                open_ = [v for v, e in zip(t.values, decided) if e is None]
                others = [e for e in decided if e is not None]
                if len(open_) == 1 and all(e is (not val) for e in others):
                    self.refine(open_[0], val, d)
            return
        a = self._atom(t)
        if a is None:
            return
        kind, var, pol = a
        if kind == "nn":
            d[var] = ("E" if d.get(var) != "R" else "R") if (val == pol) else "N"
        elif kind == "tr":
            d["bh:" + var] = "T" if (val == pol) else "F"
        elif kind == "fl":
            d["fl:" + var] = "T" if (val == pol) else "F"

    def test_of(self, t: ast.AST) -> tuple[str, bool] | None:  # (kept for callers that only need the simple form)
        a = self._atom(t) if t is not None else None
        return (a[1], a[2]) if a is not None and a[0] == "nn" else None

    def edges(self, cfg: CFG, n: int, st: frozenset, follow_exc: bool = False):
        """(successor, label, state after) for the feasible edges out of n in state st"""
        node = cfg.nodes[n]
        d = dict(st)
        if node.kind == "stmt" and isinstance(node.ast, ast.Assign) and len(node.ast.targets) == 1 and isinstance(node.ast.targets[0], ast.Name):
            tg = node.ast.targets[0].id
            v = node.ast.value
            if tg in self.reads:
                # text just read is never None - but only where it IS read: the same local may be preset to None, or get None
                # from the branch that found no file
                if isinstance(v, ast.Constant) and v.value is None:
                    d[tg] = "N"
                elif isinstance(v, ast.Name) and v.id in self.tracked:
                    if v.id in d:
                        d[tg] = d[v.id]
                    else:
                        d.pop(tg, None)
                elif any(isinstance(c, ast.Call) and isinstance(c.func, ast.Attribute) and c.func.attr in ("read", "read_text", "read_bytes", "decode") for c in ast.walk(v)) or isinstance(v, (ast.Constant, ast.JoinedStr)):
                    d[tg] = "R"
                else:
                    d.pop(tg, None)
            elif tg in self.tracked:
                if isinstance(v, ast.Name) and v.id in self.tracked:
                    if v.id in d:
                        d[tg] = d[v.id]
                    else:
                        d.pop(tg, None)
                else:
                    d[tg] = "N" if isinstance(v, ast.Constant) and v.value is None else "E"
            elif tg in self.bh:
                d.pop("bh:" + tg, None)
        is_test = node.kind == "test" and node.ast is not None
        ev = self.evaluate(node.ast, d) if is_test else None
        for s, lab in cfg.succ[n]:
            if lab == "x":
                if follow_exc:
                    yield s, lab, st  # (the statement did not complete)
                continue
            d2 = d
            if is_test and lab in ("t", "f"):
                if ev is not None and ev != (lab == "t"):
                    continue  # infeasible edge
                d2 = dict(d)
                self.refine(node.ast, lab == "t", d2)
            yield s, lab, frozenset(d2.items())


def nn_reach(cfg: CFG, fn: ast.AST, starts: list[int], stop: set[int]) -> tuple[set[int], list[int]]:
    """nodes and return nodes reachable from `starts` along feasible normal edges (NNState), not continuing past `stop`"""
    nn = NNState(fn)
    seen: set[tuple[int, frozenset]] = set()
    nodes: set[int] = set()
    rets: list[int] = []
    work: list[tuple[int, frozenset]] = [(s, frozenset()) for s in starts]
    while work:
        n, st = work.pop()
        if (n, st) in seen:
            continue
        seen.add((n, st))
        nodes.add(n)
        if n in stop:
            continue
        if isinstance(cfg.nodes[n].ast, ast.Return):
            if n not in rets:
                rets.append(n)
            continue
        for s, _lab, st2 in nn.edges(cfg, n, st):
            work.append((s, st2))
    return nodes, sorted(rets)


def _returns_reachable(cfg: CFG, starts: list[int], stop: set[int], follow_exc: bool = False) -> list[int]:
    out = []
    seen: set[int] = set()
    stack = list(starts)
    while stack:
        n = stack.pop()
        if n in seen or n in stop:
            continue
        seen.add(n)
        node = cfg.nodes[n]
        if isinstance(node.ast, ast.Return):
            out.append(n)
            continue
        for s, lab in cfg.succ[n]:
            if lab == "x" and not follow_exc:
                continue
            stack.append(s)
    return sorted(out)


def check_no_error_after_replace(run: Run, rule: str, mod, fi, cfg: CFG, R: int, inst) -> None:
    """once os.replace has succeeded the call cannot end in an error envelope (shared: C17 R17.5, C16 R16.9)"""
    after = [s for s, lab in cfg.succ[R] if lab != "x"]
    rets = _returns_reachable(cfg, after, stop=set())
    bad_rets = [r for r in rets if error_return(cfg.nodes[r].ast)]
    # statements after replace that may raise into an error-returning handler
    raising_after = []
    seen: set[int] = set()
    stack = list(after)
    while stack:
        n = stack.pop()
        if n in seen or n in (cfg.exit, cfg.raise_exit):
            continue
        seen.add(n)
        for s, lab in cfg.succ[n]:
            if lab == "x" and _os_call_caught_locally(cfg, n, s):
                continue  # an os.* call (raises OSError only) inside a try that catches OSError: outer handlers never see it
            if lab == "x":
                # only exceptions that are turned into an error envelope matter here
                # (what the handler itself does: a handler that swallows the exception and carries on is not an error
                # path; whatever raises later is judged where it stands)
                if cfg.nodes[s].kind == "handler" and any(error_return(cfg.nodes[r].ast) for r in _handler_outcomes(cfg, s)):
                    raising_after.append(n)
            else:
                stack.append(s)
    ok = not bad_rets and not raising_after
    run.instance(rule, f"{mod.relpath}:{inst.replace.call.lineno}", f"{fi.qualname}: {len(rets)} return(s) reachable after os.replace, none is an error envelope; no raising statement follows the replace", ok=ok)
    for r in bad_rets:
        run.violation(rule, mod, fi.qualname, "error return after os.replace", "an error envelope can be returned after the new content was installed", line=cfg.nodes[r].lineno)
    for n in raising_after:
        run.violation(rule, mod, fi.qualname, cfg.nodes[n].ast or "?", "a statement that may raise follows os.replace inside the protected region: its failure is reported as a write error although the file was replaced")


def _os_call_caught_locally(cfg: CFG, n: int, handler_node: int) -> bool:
    """the statement at n only calls os.* functions (which raise OSError and nothing else on well-typed arguments) and sits in
    a try whose own handler catches OSError / Exception; `handler_node` is a handler of an OUTER try"""
    a = cfg.nodes[n].ast
    if a is None:
        return False
    calls = [c for c in ast.walk(a) if isinstance(c, ast.Call)]
    if not calls or not all(ast.unparse(c.func).startswith("os.") or (isinstance(c.func, ast.Name) and c.func.id == "getattr") for c in calls):
        return False
    cur = getattr(a, "_parent", None)
    prev = a
    while cur is not None and not isinstance(cur, (ast.FunctionDef, ast.AsyncFunctionDef)):
        if isinstance(cur, ast.Try) and prev in cur.body and cur.handlers:
            catches = any(h.type is None or any(nm in ast.unparse(h.type) for nm in ("OSError", "Exception", "BaseException", "IOError", "EnvironmentError")) for h in cur.handlers)
            if catches:
                own = cfg.nodes[handler_node].ast
                return not any(own is h for h in cur.handlers)
            return False
        prev, cur = cur, getattr(cur, "_parent", None)
    return False


def _handler_outcomes(cfg: CFG, h: int, depth: int = 0) -> list[int]:
    """returns the handling of an exception can end in: normal flow out of the handler, plus - for statements INSIDE the handler
    body only (a re-raise, a cleanup call that fails) - the handlers further out. Statements after the handler has completed are
    not part of the handling; what they raise is judged where they stand."""
    hast = cfg.nodes[h].ast
    inside = {id(x) for st in getattr(hast, "body", []) for x in ast.walk(st)} if hast is not None else set()
    out: list[int] = []
    seen: set[int] = set()
    stack = [h]
    while stack:
        n = stack.pop()
        if n in seen:
            continue
        seen.add(n)
        node = cfg.nodes[n]
        if isinstance(node.ast, ast.Return):
            out.append(n)
            continue
        in_body = n == h or (node.ast is not None and id(node.ast) in inside)
        for s_, lab in cfg.succ[n]:
            if lab == "x":
                if in_body and depth < 4 and cfg.nodes[s_].kind == "handler":
                    out.extend(_handler_outcomes(cfg, s_, depth + 1))
                continue
            stack.append(s_)
    return sorted(set(out))


def _nodes_between(cfg: CFG, t: int, label: str, dst: int) -> set[int]:
    """nodes on paths from t's `label` edge to dst (excluding t), normal edges only"""
    starts = [s for s, lab in cfg.succ[t] if lab == label]
    fwd: set[int] = set()
    stack = list(starts)
    while stack:
        n = stack.pop()
        if n in fwd:
            continue
        fwd.add(n)
        if n == dst:
            continue
        for s, lab in cfg.succ[n]:
            if lab != "x":
                stack.append(s)
    # keep those that reach dst
    return {n for n in fwd if n == dst or cfg.path_exists(n, dst, {"x"})}


def _complement_rejected(cas: Cas, g: int, other: ast.AST) -> bool:
    """is there a test dominating guard g of the shape `base_hash and not <other>` whose true edge cannot reach the replace?"""
    cfg = cas.cfg
    want = ast.dump(other)
    for d in cfg.dominators()[g]:
        node = cfg.nodes[d]
        if node.kind != "test" or d == g or node.ast is None:
            continue
        t = node.ast
        ops = t.values if isinstance(t, ast.BoolOp) and isinstance(t.op, ast.And) else [t]
        has_bh = any(cas._is_bh_truth(o) for o in ops)
        has_neg = any(isinstance(o, ast.UnaryOp) and isinstance(o.op, ast.Not) and ast.dump(o.operand) == want for o in ops)
        if has_bh and has_neg and len(ops) == 2:
            t_succ = [s for s, lab in cfg.succ[d] if lab == "t"]
            if cas.R is not None and not any(s == cas.R or cfg.path_exists(s, cas.R, {"x"}) for s in t_succ):
                return True
    return False
