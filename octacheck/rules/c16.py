"""C16 Writes are all-or-nothing: the temp-file install protocol on every path.

Decides (structural necessary conditions): who may write the target, must-pass-through
write->flush->fsync->close before replace, cleanup of the temp file on every exceptional or early
exit, temp file created beside the target, permission copy, validate-before-mutate, and that the
returned hash is the hash of the value written.
"""
from __future__ import annotations

import ast

from .. import fsmodel as fsm
from ..cfg import branch_conditions
from ..fsmodel import CallSite, FuncAnalysis, is_name, names_in
from ..report import Run
from ..resolve import Resolver
from ..source import AnalysisError, norm, walk_no_nested

INSTALL_MIN = 2  # WriteTool.execute, file_ops.atomic_write_octave (confirmed by reading)


class Install:
    """facts about one install function (a function that renames a temp file onto a target)"""

    def __init__(self, fa: FuncAnalysis):
        self.fa = fa
        self.mkstemp: CallSite | None = None
        self.replace: CallSite | None = None
        self.fd: str | None = None
        self.tmp: str | None = None
        self.target: ast.AST | None = None
        self.problems: list[tuple[ast.AST, str]] = []
        self._discover()

    def _discover(self) -> None:
        fa = self.fa
        renames = fa.effects({fsm.RENAME})
        temps = fa.effects({fsm.CREATE_TEMP})
        if len(renames) != 1:
            for r in renames[1:]:
                self.problems.append((r.call, "more than one rename-class call in an install function"))
        self.replace = renames[0] if renames else None
        ms = [t for t in temps if t.is_ext("tempfile.mkstemp")]
        for t in temps:
            if t not in ms:
                self.problems.append((t.call, "temp file created by something other than tempfile.mkstemp"))
        if len(ms) > 1:
            for t in ms[1:]:
                self.problems.append((t.call, "more than one mkstemp in an install function"))
        self.mkstemp = ms[0] if ms else None
        if self.mkstemp is not None:
            par = getattr(self.mkstemp.call, "_parent", None)
            if isinstance(par, ast.Assign) and len(par.targets) == 1 and isinstance(par.targets[0], ast.Tuple) and len(par.targets[0].elts) == 2 and all(isinstance(e, ast.Name) for e in par.targets[0].elts):
                self.fd = par.targets[0].elts[0].id  # type: ignore[attr-defined]
                self.tmp = par.targets[0].elts[1].id  # type: ignore[attr-defined]
            else:
                self.problems.append((self.mkstemp.call, "mkstemp result is not unpacked into (fd, path) names"))
        if self.replace is not None and len(self.replace.call.args) >= 2:
            self.target = self.replace.call.args[1]

    # helper: nodes
    def node(self, site: CallSite) -> int:
        if not site.nodes:
            raise AnalysisError(f"call {norm(site.call)} has no CFG node")
        return site.nodes[0]


def install_functions(run: Run, res: Resolver) -> list[Install]:
    out = []
    for fi in run.project.all_functions():
        has = False
        for n in walk_no_nested(fi.node):
            if isinstance(n, ast.Call):
                cs = res.resolve_call(fi, n)
                if fsm.classify(n, cs) in (fsm.RENAME, fsm.CREATE_TEMP):
                    has = True
                    break
        if has:
            out.append(Install(FuncAnalysis(fi, res)))
    return out


def target_aliases(inst: Install) -> set[str]:
    """names that denote the target path: the name passed to os.replace, and names bound to Path(<that>)"""
    fa = inst.fa
    out: set[str] = set()
    if isinstance(inst.target, ast.Name):
        out.add(inst.target.id)
    changed = True
    while changed:
        changed = False
        for n in walk_no_nested(fa.fi.node):
            if isinstance(n, ast.Assign) and len(n.targets) == 1 and isinstance(n.targets[0], ast.Name):
                v = n.value
                tgt = n.targets[0].id
                if tgt in out:
                    # reverse: target = str(path_obj) / Path(x)
                    if isinstance(v, ast.Call) and len(v.args) == 1 and isinstance(v.args[0], ast.Name) and ast.unparse(v.func) in ("Path", "str", "pathlib.Path", "os.fspath"):
                        if v.args[0].id not in out:
                            out.add(v.args[0].id)
                            changed = True
                    continue
                if isinstance(v, ast.Call) and len(v.args) == 1 and isinstance(v.args[0], ast.Name) and v.args[0].id in out and ast.unparse(v.func) in ("Path", "str", "pathlib.Path", "os.fspath"):
                    out.add(tgt)
                    changed = True
                elif isinstance(v, ast.Name) and v.id in out:
                    out.add(tgt)
                    changed = True
    return out


def check_success_after_install(run: Run) -> None:
    from ..cfg import CFG, branch_conditions
    from ..fsmodel import names_in
    run.rule("R16.8", "octave_write acknowledges success only for what is on disk: every return of the success envelope in WriteTool.execute is either dominated by os.replace(temp, target) or is the explicit dry run (control-dependent on the caller's corrections_only flag)", 2)
    from .c11 import flag_vars

    mod = run.project.mod("mcp.write")
    fi = mod.func("WriteTool.execute")
    cfg = CFG(fi.node)
    replaces = [n.id for n in cfg.nodes if n.ast is not None and n.kind == "stmt" and any(isinstance(c, ast.Call) and ast.unparse(c.func) == "os.replace" for c in ast.walk(n.ast))]
    if not replaces:
        raise AnalysisError("WriteTool.execute: os.replace not found")
    # the success envelope: the variable returned by the return statement that os.replace dominates
    env = None
    for n in cfg.nodes:
        if n.kind == "stmt" and isinstance(n.ast, ast.Return) and isinstance(n.ast.value, ast.Name) and any(cfg.dominated_by(n.id, r) for r in replaces):
            env = n.ast.value.id
    if env is None:
        raise AnalysisError("WriteTool.execute: success return after os.replace not found")
    dry = flag_vars(fi, ("corrections_only",))
    if not dry:
        raise AnalysisError("WriteTool.execute: corrections_only flag not found")
    n_ret = 0
    for n in cfg.nodes:
        if n.kind == "stmt" and isinstance(n.ast, ast.Return) and isinstance(n.ast.value, ast.Name) and n.ast.value.id == env:
            n_ret += 1
            after = any(cfg.dominated_by(n.id, r) for r in replaces)
            conds = branch_conditions(cfg, n.id)
            is_dry = any(val is True and (dry & names_in(t)) for t, val in conds)
            ok = after or is_dry
            run.instance("R16.8", mod.loc(n.ast), f"WriteTool.execute: `return {env}` " + ("after os.replace" if after else ("under the corrections_only dry run" if is_dry else "BEFORE the install and not a dry run")), ok=ok)
            if not ok:
                run.violation("R16.8", mod, fi.qualname, f"return {env} before os.replace (not a dry run)", f"a success envelope (with canonical_hash of the canonical text) is returned without the file having been installed and without corrections_only: the bytes on disk are whatever was there before (e.g. the same text with CRLF line endings), so status=success and canonical_hash describe a file that does not exist")
    if n_ret < 2:
        raise AnalysisError(f"WriteTool.execute: only {n_ret} return(s) of the success envelope found")


def check(run: Run) -> None:
    res = Resolver(run.project)
    installs = install_functions(run, res)
    run.extra["install_functions"] = [i.fa.fi.fqn for i in installs]

    run.rule("R16.1", "who may write: every mutating filesystem call in the package is one of the allowed roles of the install protocol (mkstemp, fdopen(fd,'w'), fchmod(fd), unlink(temp), replace(temp,target), parent mkdir)", 8)
    run.rule("R16.2", "must-pass-through: every path mkstemp -> replace passes write -> flush -> fsync(fileno) in order and has left the `with` (close) before the replace", INSTALL_MIN * 4)
    run.rule("R16.3", "cleanup: every exceptional edge between mkstemp and replace reaches a handler that unlinks the temp path on all its paths; every early return in that region is preceded by unlink(temp)", INSTALL_MIN * 2)
    run.rule("R16.4", "the temp file is created in the target's own directory (mkstemp(dir=<target>.parent))", INSTALL_MIN)
    run.rule("R16.5", "permission bits captured from os.stat(target) are applied to the temp descriptor before the replace", INSTALL_MIN)
    run.rule("R16.6", "validate before mutate: path check (and, in the tool, the XOR check and a successful emit) dominate the first mutating call", INSTALL_MIN + 2)
    run.rule("R16.7", "the value hashed as canonical_hash is the value written, with the same encoding", INSTALL_MIN * 2)
    run.assume("POSIX rename(2) atomicity: os.replace installs the complete temp file or leaves the target untouched")
    run.assume("may-raise approximation: any statement containing a call, raise or await may raise; other statements do not")

    if len(installs) < INSTALL_MIN:
        raise AnalysisError(f"only {len(installs)} install function(s) found; expected at least {INSTALL_MIN} (WriteTool.execute, atomic_write_octave)")

    install_by_func = {i.fa.fi.fqn: i for i in installs}

    # ---------------------------------------------------------------- R16.9 (= C17 R17.5)
    run.rule("R16.9", "an error means nothing was installed: after os.replace has succeeded no error envelope is returned and no statement can raise into a handler that returns one (a failure reported after the rename leaves the NEW bytes in place while the caller is told the write failed)", INSTALL_MIN)
    from . import c17

    for i in installs:
        if i.replace is None:
            continue
        c17.learn_error_helpers(i.fa.fi.module)
        c17.check_no_error_after_replace(run, "R16.9", i.fa.fi.module, i.fa.fi, i.fa.cfg, i.node(i.replace), i)

    # ---------------------------------------------------------------- R16.1
    for fi in run.project.all_functions():
        for n in walk_no_nested(fi.node):
            if not isinstance(n, ast.Call):
                continue
            cs = res.resolve_call(fi, n)
            eff = fsm.classify(n, cs)
            if eff not in fsm.MUTATING:
                continue
            where = f"{fi.module.relpath}:{n.lineno}"
            inst = install_by_func.get(fi.fqn)
            ok, why = _allowed_role(inst, n, eff)
            run.instance("R16.1", where, f"{eff}: {norm(n)}", ok=ok, role=why)
            if not ok:
                run.violation("R16.1", fi.module, fi.qualname, n, f"mutating filesystem call outside the install protocol: {why}", effect=eff)

    # whole-module check that no module-level code mutates the filesystem
    for inst in installs:
        _check_install(run, inst, res)
    check_success_after_install(run)


def _allowed_role(inst: Install | None, call: ast.Call, eff: str) -> tuple[bool, str]:
    if inst is None:
        return False, "function is not an install function (no mkstemp/replace protocol here)"
    fn = ast.unparse(call.func)
    args = call.args
    if eff == fsm.CREATE_TEMP:
        return (inst.mkstemp is not None and call is inst.mkstemp.call), "mkstemp of the protocol"
    if eff == fsm.RENAME:
        if inst.replace is None or call is not inst.replace.call:
            return False, "second rename"
        if fn != "os.replace":
            return False, f"{fn} is not os.replace (no overwrite-atomic guarantee)"
        if not (len(args) == 2 and is_name(args[0], inst.tmp or "")):
            return False, "os.replace source is not the mkstemp path"
        return True, "replace(temp, target)"
    if eff == fsm.WRITE_OPEN:
        if fn == "os.fdopen" and args and is_name(args[0], inst.fd or ""):
            return True, "fdopen(mkstemp fd)"
        return False, "file opened for writing is not the mkstemp descriptor"
    if eff == fsm.CHMOD:
        if fn == "os.fchmod" and args and is_name(args[0], inst.fd or ""):
            return True, "fchmod(mkstemp fd)"
        if fn == "os.chmod" and args and is_name(args[0], inst.tmp or ""):
            return True, "chmod(temp path)"
        return False, "chmod of something other than the temp file"
    if eff == fsm.DELETE:
        if fn in ("os.unlink", "os.remove") and args and is_name(args[0], inst.tmp or ""):
            return True, "unlink(temp)"
        return False, "delete of something other than the temp file"
    if eff == fsm.MKDIR:
        f = call.func
        if isinstance(f, ast.Attribute) and f.attr == "mkdir" and isinstance(f.value, ast.Attribute) and f.value.attr == "parent" and isinstance(f.value.value, ast.Name) and f.value.value.id in target_aliases(inst):
            return True, "mkdir of the target's parent"
        return False, "mkdir of something other than the target's parent"
    return False, f"{eff} is never part of the protocol"


def _check_install(run: Run, inst: Install, res: Resolver) -> None:
    fa = inst.fa
    fi = fa.fi
    mod = fi.module
    cfg = fa.cfg
    for node, msg in inst.problems:
        run.violation("R16.1", mod, fi.qualname, node, msg)
    if inst.mkstemp is None or inst.replace is None or inst.fd is None or inst.tmp is None:
        run.instance("R16.2", f"{mod.relpath}:{fi.node.lineno}", f"{fi.qualname}: protocol anchors", ok=False)
        run.violation("R16.2", mod, fi.qualname, fi.node.name, "install function lacks mkstemp or replace: the temp-file protocol is not recognisable",
                      mkstemp=bool(inst.mkstemp), replace=bool(inst.replace))
        return
    M = inst.node(inst.mkstemp)
    R = inst.node(inst.replace)
    where = f"{mod.relpath}:{inst.replace.call.lineno}"

    # the write handle: `with os.fdopen(fd, 'w', ...) as f`
    handle = None
    with_node = None
    fdopen_site = None
    for s in fa.effects({fsm.WRITE_OPEN}):
        if s.is_ext("os.fdopen") and s.call.args and is_name(s.call.args[0], inst.fd):
            fdopen_site = s
            par = getattr(s.call, "_parent", None)
            if isinstance(par, ast.withitem) and isinstance(par.optional_vars, ast.Name):
                handle = par.optional_vars.id
                with_node = getattr(par, "_parent", None)
            elif isinstance(par, ast.Assign) and len(par.targets) == 1 and isinstance(par.targets[0], ast.Name):
                handle = par.targets[0].id
    # ---------------------------------------------------------------- R16.2
    def method_on_handle(attr: str) -> list[CallSite]:
        return [s for s in fa.sites if isinstance(s.call.func, ast.Attribute) and s.call.func.attr == attr and is_name(s.call.func.value, handle or "\0")]

    writes = method_on_handle("write")
    flushes = method_on_handle("flush")
    fsyncs = [s for s in fa.sites if s.is_ext("os.fsync") and s.call.args and (
        (isinstance(s.call.args[0], ast.Call) and isinstance(s.call.args[0].func, ast.Attribute) and s.call.args[0].func.attr == "fileno" and is_name(s.call.args[0].func.value, handle or "\0"))
        or is_name(s.call.args[0], inst.fd))]

    def nodes_of(sites: list[CallSite]) -> set[int]:
        return {n for s in sites for n in s.nodes}

    stages = [("write", writes), ("flush", flushes), ("fsync", fsyncs)]
    prev_nodes: set[int] = {M}
    prev_name = "mkstemp"
    for name, sites in stages:
        ns = nodes_of(sites)
        ok = bool(ns)
        witness = None
        if ok:
            for pn in sorted(prev_nodes):
                w2 = cfg.all_paths_pass(pn, R, lambda n, ns=ns: n.id in ns, {"x"})
                if w2 is not None:
                    ok = False
                    witness = w2
                    break
        run.instance("R16.2", where, f"{fi.qualname}: every path {prev_name}->replace passes {name}", ok=ok)
        if not ok:
            run.violation("R16.2", mod, fi.qualname, f"{name} before os.replace", f"a path from {prev_name} to os.replace does not pass through {name} on the temp handle",
                          path=cfg.describe_path(witness, mod.relpath) if witness else "no such call on the mkstemp handle", line=inst.replace.call.lineno)
        if ns:
            prev_nodes = ns
            prev_name = name
    # closed before replace: replace must not be inside the `with` that owns the handle; handle opened in a with
    closed_ok = with_node is not None and not _is_inside(inst.replace.call, with_node)
    if with_node is None and handle is not None:
        closes = method_on_handle("close")
        cn = nodes_of(closes)
        closed_ok = bool(cn) and cfg.all_paths_pass(M, R, lambda n: n.id in cn, {"x"}) is None
    run.instance("R16.2", where, f"{fi.qualname}: temp handle closed before replace", ok=closed_ok)
    if not closed_ok:
        run.violation("R16.2", mod, fi.qualname, "close before os.replace", "the temp file handle is not closed (with-block left / close()) on every path before os.replace", line=inst.replace.call.lineno)
    # the written value reaches the descriptor in one write of a name (used by R16.7)
    written = writes[0].call.args[0] if writes and writes[0].call.args else None

    # ---------------------------------------------------------------- R16.3
    unlink_nodes = {n for s in fa.effects({fsm.DELETE}) if s.call.args and is_name(s.call.args[0], inst.tmp) for n in s.nodes}
    exists_tests = {n.id for n in cfg.nodes if n.kind == "test" and n.ast is not None and any(
        isinstance(c, ast.Call) and ast.unparse(c.func) in ("os.path.exists", "os.path.lexists") and c.args and is_name(c.args[0], inst.tmp) for c in ast.walk(n.ast))}
    # region: nodes reachable from mkstemp's normal successors without passing the replace node, plus replace itself
    region: set[int] = set()
    stack = [s for s, lab in cfg.succ[M] if lab != "x"]
    while stack:
        n = stack.pop()
        if n in region or n in (cfg.exit, cfg.raise_exit):
            continue
        region.add(n)
        if n == R:
            continue
        for s, lab in cfg.succ[n]:
            if lab == "x":
                continue
            stack.append(s)
    # handlers entered from the region are cleanup code, not region
    exc_edges = [(n, t) for n in sorted(region) for t, lab in cfg.succ[n] if lab == "x"]
    handler_targets = {t for _, t in exc_edges}
    # region must not include handler bodies (handlers are only reachable through x edges, so they are not in region)
    n_exc = 0
    for n, t in exc_edges:
        n_exc += 1
        node = cfg.nodes[n]
        if t == cfg.raise_exit or cfg.nodes[t].kind != "handler":
            run.violation("R16.3", mod, fi.qualname, node.ast if node.ast is not None else "?", "an exception raised here (after mkstemp, before the replace completed) leaves the function without passing a handler: the temp file is leaked",
                          target=repr(cfg.nodes[t]))
    bad_handlers = []
    for t in sorted(handler_targets):
        if cfg.nodes[t].kind != "handler":
            continue
        # from the handler entry every path to exit/raise must pass unlink(temp) or the exists(temp) test
        for ex in (cfg.exit, cfg.raise_exit):
            w = cfg.all_paths_pass(t, ex, lambda nn: nn.id in unlink_nodes or nn.id in exists_tests)
            if w is not None:
                bad_handlers.append((t, w))
                break
    run.instance("R16.3", where, f"{fi.qualname}: {n_exc} exceptional edge(s) out of the mkstemp..replace region all enter unlinking handlers", ok=not bad_handlers, edges=n_exc, handlers=len(handler_targets))
    for t, w in bad_handlers:
        h = cfg.nodes[t]
        run.violation("R16.3", mod, fi.qualname, f"except {ast.unparse(h.ast.type) if getattr(h.ast, 'type', None) is not None else ''} (cleanup handler)".strip(),
                      "a handler entered from the mkstemp..replace region has a path to the function exit that does not unlink the temp file",
                      path=cfg.describe_path(w, mod.relpath), line=h.lineno)
    # the exists(temp) test must only skip the unlink, i.e. its true branch unlinks
    for tnode in sorted(exists_tests):
        t_succ = [s for s, lab in cfg.succ[tnode] if lab == "t"]
        ok = bool(t_succ) and all(s in unlink_nodes for s in t_succ)
        run.instance("R16.3", f"{mod.relpath}:{cfg.nodes[tnode].lineno}", f"{fi.qualname}: exists(temp) guard leads straight to unlink(temp)", ok=ok)
        if not ok:
            run.violation("R16.3", mod, fi.qualname, cfg.nodes[tnode].ast, "the exists(temp) test in the cleanup handler does not lead to unlink(temp)")  # type: ignore[arg-type]
    # early returns in the region
    for n in sorted(region):
        node = cfg.nodes[n]
        if isinstance(node.ast, ast.Return):
            w = cfg.all_paths_pass(M, n, lambda nn: nn.id in unlink_nodes, {"x"})
            run.instance("R16.3", f"{mod.relpath}:{node.lineno}", f"{fi.qualname}: early return between mkstemp and replace is preceded by unlink(temp)", ok=w is None)
            if w is not None:
                run.violation("R16.3", mod, fi.qualname, "return before os.replace (temp file pending)", "a return between mkstemp and os.replace is not preceded by unlink(temp) on every path: the temp file is left beside the target",
                              path=cfg.describe_path(w, mod.relpath), line=node.lineno)
    # falling out of the region without replace (e.g. conditional replace)
    for n in sorted(region):
        if n == R:
            continue
        for s, lab in cfg.succ[n]:
            if lab != "x" and s == cfg.exit and not isinstance(cfg.nodes[n].ast, ast.Return):
                run.violation("R16.3", mod, fi.qualname, cfg.nodes[n].ast or "?", "the function can fall off its end between mkstemp and replace")

    # ---------------------------------------------------------------- R16.4
    dir_kw = None
    for kw in inst.mkstemp.call.keywords:
        if kw.arg == "dir":
            dir_kw = kw.value
    aliases = target_aliases(inst)
    ok = False
    if dir_kw is not None:
        if isinstance(dir_kw, ast.Attribute) and dir_kw.attr == "parent" and isinstance(dir_kw.value, ast.Name) and dir_kw.value.id in aliases:
            ok = True
        elif isinstance(dir_kw, ast.Attribute) and dir_kw.attr == "parent" and isinstance(dir_kw.value, ast.Call) and ast.unparse(dir_kw.value.func) in ("Path", "pathlib.Path") and len(dir_kw.value.args) == 1 and isinstance(dir_kw.value.args[0], ast.Name) and dir_kw.value.args[0].id in aliases:
            ok = True  # Path(<target>).parent
        elif isinstance(dir_kw, ast.Call) and ast.unparse(dir_kw.func) in ("os.path.dirname", "str") and names_in(dir_kw) & aliases:
            ok = True
    run.instance("R16.4", f"{mod.relpath}:{inst.mkstemp.call.lineno}", f"{fi.qualname}: mkstemp dir={ast.unparse(dir_kw) if dir_kw is not None else None}", ok=ok, target_aliases=sorted(aliases))
    if not ok:
        run.violation("R16.4", mod, fi.qualname, inst.mkstemp.call, "the temp file is not created in the target's directory (rename across directories/filesystems is not atomic)")

    # ---------------------------------------------------------------- R16.5
    mode_vars = set()
    for n in walk_no_nested(fi.node):
        if isinstance(n, ast.Assign) and len(n.targets) == 1 and isinstance(n.targets[0], ast.Name):
            if any(isinstance(a, ast.Attribute) and a.attr == "st_mode" for a in ast.walk(n.value)):
                mode_vars.add(n.targets[0].id)
    chmods = [s for s in fa.effects({fsm.CHMOD}) if len(s.call.args) >= 2 and names_in(s.call.args[1]) & mode_vars]
    cn = nodes_of(chmods)
    ok = bool(mode_vars) and bool(cn)
    w = None
    if ok:
        w = _path_avoiding_with_guard(cfg, M, R, cn, mode_vars)
        ok = w is None
    # the stat that captures the mode must be of the target
    stat_ok = any(s.is_ext("os.stat") and s.call.args and names_in(s.call.args[0]) & aliases for s in fa.sites) or any(
        s.is_method(".stat") and isinstance(s.call.func, ast.Attribute) and names_in(s.call.func.value) & aliases for s in fa.sites)
    run.instance("R16.5", where, f"{fi.qualname}: mode captured in {sorted(mode_vars)} applied by fchmod before replace", ok=ok and stat_ok)
    if not (ok and stat_ok):
        run.violation("R16.5", mod, fi.qualname, "fchmod(fd, mode) before os.replace", "an existing file's permission bits are not copied to the temp file on every path before the replace (the new file would get mkstemp's 0600)",
                      path=cfg.describe_path(w, mod.relpath) if w else "no stat(target).st_mode capture or no fchmod with it", line=inst.replace.call.lineno)

    # ---------------------------------------------------------------- R16.6
    mutating_nodes = sorted({n for s in fa.effects(fsm.MUTATING) for n in s.nodes})
    first_mut = mutating_nodes  # every mutating node must be dominated by the validations
    validators = [s for s in fa.sites if s.is_repo("._validate_path", ":validate_octave_path", "WriteTool._validate_path")]
    ok = False
    detail = "no call to the path validator"
    if validators:
        v = validators[0]
        par = getattr(v.call, "_parent", None)
        okvar = None
        if isinstance(par, ast.Assign) and isinstance(par.targets[0], ast.Tuple) and isinstance(par.targets[0].elts[0], ast.Name):
            okvar = par.targets[0].elts[0].id
        arg_ok = bool(v.call.args) and bool(names_in(v.call.args[0]) & aliases)
        if okvar and arg_ok:
            ok = all(_guarded_by_truth(cfg, n, okvar) for n in first_mut)
            detail = f"validator result {okvar} tested before every mutating call" if ok else f"a mutating call is reachable without `{okvar}` having been tested true"
        else:
            detail = "validator not applied to the target or result not unpacked"
    run.instance("R16.6", f"{mod.relpath}:{fi.node.lineno}", f"{fi.qualname}: path validation dominates {len(first_mut)} mutating call node(s)", ok=ok)
    if not ok:
        run.violation("R16.6", mod, fi.qualname, "path validation before first mutation", detail)
    if fi.qualname.endswith("WriteTool.execute"):
        # XOR check: a dominating test mentioning both `content is not None` and `changes is not None`
        xor_ok = True
        emit_ok = True
        for n in first_mut:
            conds = branch_conditions(cfg, n)
            # the two payload variables are those bound from params.get("content") / params.get("changes"), whatever they are called
            pv = {}
            for a in ast.walk(fi.node):
                if isinstance(a, ast.Assign) and len(a.targets) == 1 and isinstance(a.targets[0], ast.Name) and isinstance(a.value, ast.Call) and isinstance(a.value.func, ast.Attribute) and a.value.func.attr == "get" and a.value.args and isinstance(a.value.args[0], ast.Constant) and a.value.args[0].value in ("content", "changes"):
                    pv[a.value.args[0].value] = a.targets[0].id
            payload = set(pv.values()) if len(pv) == 2 else {"content", "changes"}
            has_xor = any(val is False and isinstance(t, ast.BoolOp) and isinstance(t.op, ast.And) and payload <= names_in(t) and sum(isinstance(c, ast.Compare) and isinstance(c.ops[0], ast.IsNot) for c in t.values) == 2 for t, val in conds)
            xor_ok = xor_ok and has_xor
            doms = cfg.dominators()[n]
            has_emit = False
            for d in doms:
                a = cfg.nodes[d].ast
                if isinstance(a, ast.Assign) and isinstance(a.value, ast.Call) and isinstance(a.value.func, ast.Name) and a.value.func.id == "emit" and isinstance(written, ast.Name) and any(is_name(t, written.id) for t in a.targets):
                    has_emit = True
            emit_ok = emit_ok and has_emit
        run.instance("R16.6", f"{mod.relpath}:{fi.node.lineno}", f"{fi.qualname}: content-XOR-changes rejection dominates every mutating call", ok=xor_ok)
        run.instance("R16.6", f"{mod.relpath}:{fi.node.lineno}", f"{fi.qualname}: a successful emit() of the written value dominates every mutating call", ok=emit_ok)
        if not xor_ok:
            run.violation("R16.6", mod, fi.qualname, "content XOR changes check before first mutation", "a mutating filesystem call is reachable without the content/changes exclusivity check having rejected the call")
        if not emit_ok:
            run.violation("R16.6", mod, fi.qualname, "emit before first mutation", "a mutating filesystem call is not dominated by the emit() that produces the text to be written")

    # ---------------------------------------------------------------- R16.7
    hash_calls = [s for s in fa.sites if (s.is_repo("._compute_hash", ":compute_hash") or ast.unparse(s.call.func).endswith("compute_hash")) and s.call.args]
    ok = False
    detail = ""
    if isinstance(written, ast.Name):
        cands = [s for s in hash_calls if is_name(s.call.args[0], written.id) and _feeds_canonical_hash(s.call)]
        if cands:
            h = cands[-1]
            hn = h.nodes[0]
            wn = writes[0].nodes[0]
            # no rebinding of the written name between the hash and the write, in either order
            rebinding = {n2 for st, _ in fa.assignments_to(written.id) for n2 in cfg.node_for_stmt_containing(st)}
            a, b = (hn, wn) if cfg.path_exists(hn, wn, {"x"}) else (wn, hn)
            between_rebind = [r for r in rebinding if r not in (a,) and cfg.path_exists(a, r, {"x"}) and cfg.path_exists(r, b, {"x"})]
            ok = not between_rebind
            detail = "written value rebound between hashing and writing" if between_rebind else ""
        else:
            detail = f"no canonical_hash computed from the written name `{written.id}`"
    else:
        detail = "written value is not a plain name"
    run.instance("R16.7", where, f"{fi.qualname}: canonical_hash = hash(<the name written to the temp file>)", ok=ok, written=ast.unparse(written) if written is not None else None)
    if not ok:
        run.violation("R16.7", mod, fi.qualname, "canonical_hash of the written value", f"the hash returned as canonical_hash is not provably the hash of the text written: {detail}")
    # encoding agreement
    enc_write = None
    if fdopen_site is not None:
        for kw in fdopen_site.call.keywords:
            if kw.arg == "encoding" and isinstance(kw.value, ast.Constant):
                enc_write = kw.value.value
    enc_hash = _hash_encoding(run, res, hash_calls)
    ok = enc_write is not None and enc_hash is not None and str(enc_write).lower().replace("_", "-") == str(enc_hash).lower().replace("_", "-")
    run.instance("R16.7", where, f"{fi.qualname}: write encoding {enc_write!r} == hash encoding {enc_hash!r}", ok=ok)
    if not ok:
        run.violation("R16.7", mod, fi.qualname, "encoding of write vs hash", f"temp file is written with encoding {enc_write!r} but the hash encodes with {enc_hash!r}: bytes on disk would not hash to canonical_hash")


def _is_inside(node: ast.AST, anc: ast.AST) -> bool:
    cur = node
    while cur is not None:
        if cur is anc:
            return True
        cur = getattr(cur, "_parent", None)
    return False


def _feeds_canonical_hash(call: ast.Call) -> bool:
    par = getattr(call, "_parent", None)
    if isinstance(par, ast.Assign):
        for t in par.targets:
            if isinstance(t, ast.Subscript) and isinstance(t.slice, ast.Constant) and t.slice.value == "canonical_hash":
                return True
            if isinstance(t, ast.Name):
                if t.id == "canonical_hash":
                    return True
                # a local later placed under the key "canonical_hash" of the returned envelope
                fn = par
                while fn is not None and not isinstance(fn, (ast.FunctionDef, ast.AsyncFunctionDef)):
                    fn = getattr(fn, "_parent", None)
                for d in ast.walk(fn) if fn is not None else []:
                    if isinstance(d, ast.Dict):
                        for k, v in zip(d.keys, d.values):
                            if isinstance(k, ast.Constant) and k.value == "canonical_hash" and isinstance(v, ast.Name) and v.id == t.id:
                                return True
                    if isinstance(d, ast.Assign) and isinstance(d.value, ast.Name) and d.value.id == t.id and any(isinstance(x, ast.Subscript) and isinstance(x.slice, ast.Constant) and x.slice.value == "canonical_hash" for x in d.targets):
                        return True
    if isinstance(par, ast.Dict):
        for k, v in zip(par.keys, par.values):
            if v is call and isinstance(k, ast.Constant) and k.value == "canonical_hash":
                return True
    return False


def _hash_encoding(run: Run, res: Resolver, hash_calls: list[CallSite]) -> str | None:
    for s in hash_calls:
        for c in s.callees:
            if c.kind == "repo" and c.func is not None:
                for n in ast.walk(c.func.node):
                    if isinstance(n, ast.Call) and isinstance(n.func, ast.Attribute) and n.func.attr == "encode":
                        if n.args and isinstance(n.args[0], ast.Constant):
                            return n.args[0].value
                        if not n.args:
                            return "utf-8"
    return None


def _guarded_by_truth(cfg, n: int, var: str) -> bool:
    """node n executes only when `var` was tested true (e.g. after `if not var: return`)"""
    for t, val in branch_conditions(cfg, n):
        if isinstance(t, ast.UnaryOp) and isinstance(t.op, ast.Not) and is_name(t.operand, var) and val is False:
            return True
        if is_name(t, var) and val is True:
            return True
    return False


def _path_avoiding_with_guard(cfg, src: int, dst: int, must: set[int], guard_vars: set[str]):
    """path src->dst avoiding `must` nodes and not using the 'mode is None' escape edges; None if none exists"""
    prev: dict[int, int] = {}
    seen = {src}
    stack = [src]
    while stack:
        n = stack.pop()
        if n == dst:
            path = [n]
            while path[-1] != src:
                path.append(prev[path[-1]])
            return list(reversed(path))
        node = cfg.nodes[n]
        for s, lab in cfg.succ[n]:
            if lab == "x" or s in seen or s in must:
                continue
            if node.kind == "test" and node.ast is not None:
                t = node.ast
                # `if mode is not None:` false edge / `if mode is None:` true edge / `if mode:` false edge are legitimate skips
                if isinstance(t, ast.Compare) and len(t.ops) == 1 and isinstance(t.left, ast.Name) and t.left.id in guard_vars and isinstance(t.comparators[0], ast.Constant) and t.comparators[0].value is None:
                    if isinstance(t.ops[0], ast.IsNot) and lab == "f":
                        continue
                    if isinstance(t.ops[0], ast.Is) and lab == "t":
                        continue
            seen.add(s)
            prev[s] = n
            stack.append(s)
    return None
