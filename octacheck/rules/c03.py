"""C03 All lenient spellings converge on one canonical text in strict profile.

Decided (structural necessary conditions; equality of the canonical bytes of two spellings is not decided):
  R03.1  alias <-> token table: every ASCII alias lexes to the token kind of its canonical operator and is replaced by it
  R03.2  no token pattern is shadowed by an earlier pattern of another kind (regular-language check on the ordered table)
  R03.3  layout comes from the AST only: the emitter reads no source positions or tokens
  R03.4  strict-profile constants: no tab, no space around ::, no ASCII operator alias in the emitter's output fragments; the
         envelope lines and the final newline are unconditional
  R03.5  two spaces of indentation per level (shared with C01 R01.4)
  R03.6  blank-line tolerance: the NEWLINE tokens between a header (KEY:, §n::NAME, META:) and its first child are skipped
         exhaustively before the INDENT that opens the child region is tested
  R03.7  octave_write's lenient structure detection recognises every envelope line the lexer accepts (with trailing spaces)
  R03.8  ===END=== and the envelope are optional on input: parse_document never requires them
"""
from __future__ import annotations

import ast
import re

from .. import lexmodel, rx
from ..progress import ParserModel
from ..report import Run
from ..source import AnalysisError, enum_members, norm, walk_no_nested
from . import c01


def _text(n: ast.AST) -> str:
    return " ".join(ast.unparse(n).split())


# ======================================================================================= R03.1 / R03.2
def _first_match(patterns: list[tuple[str, str]], text: str) -> str | None:
    """kind of the first pattern of the ordered table that matches the whole of `text` at position 0 (evaluation of the
    extracted regex constants with the stdlib, not of repository code)"""
    for pat, kind in patterns:
        if kind == "GRAMMAR_SENTINEL":
            continue
        m = re.compile(pat).match(text)
        if m and m.end() == len(text):
            return kind
        if m and m.end() > 0:
            return f"{kind} (prefix {text[:m.end()]!r} only)"
    return None


def check_alias_table(run: Run, lm: lexmodel.LexModel) -> None:
    run.rule("R03.1", "for every alias -> canon in ASCII_ALIASES: the first token pattern matching the alias (or the '+' branch of tokenize) and the first matching the canonical operator have the same TokenType; tokenize replaces the value by ASCII_ALIASES[matched_text]", 7)
    lx = run.project.mod("core.lexer")
    fi = lx.func("tokenize")
    src = _text(fi.node)
    plus_kind = None
    for n in walk_no_nested(fi.node):
        if isinstance(n, ast.Call) and isinstance(n.func, ast.Name) and n.func.id == "Token" and len(n.args) > 4 and isinstance(n.args[4], ast.Constant) and n.args[4].value == "+":
            plus_kind = _text(n.args[0]).split(".")[-1]
            plus_val = n.args[1].value if isinstance(n.args[1], ast.Constant) else None
    for alias, canon in sorted(lm.aliases.items()):
        k_alias = _first_match(lm.token_patterns, alias)
        if alias == "+" and k_alias is None:
            k_alias = plus_kind
            if plus_val != canon:
                run.violation("R03.1", lx, "tokenize", "'+' branch value", f"the '+' branch builds a token with value {plus_val!r}, the alias table says {canon!r}")
        k_canon = _first_match(lm.token_patterns, canon)
        ok = k_alias is not None and k_alias == k_canon
        run.instance("R03.1", lx.relpath, f"alias {alias!r} -> {k_alias}; canonical {canon!r} -> {k_canon}", ok=ok)
        if not ok:
            run.violation("R03.1", lx, "<module>", f"ASCII_ALIASES[{alias!r}]", f"the alias {alias!r} lexes as {k_alias} but its canonical form {canon!r} as {k_canon}: the two spellings do not converge on the same token")
    ok = any(isinstance(n, ast.Assign) and isinstance(n.value, ast.Subscript) and isinstance(n.value.value, ast.Name) and n.value.value.id == "ASCII_ALIASES" and isinstance(n.value.slice, ast.Name) for n in walk_no_nested(fi.node))
    run.instance("R03.1", lx.loc(fi.node), "tokenize replaces an alias by ASCII_ALIASES[matched_text]", ok=ok)
    if not ok:
        run.violation("R03.1", lx, "tokenize", "value = ASCII_ALIASES[matched_text]", "tokenize no longer replaces the matched alias by its table entry")


def check_shadowing(run: Run, lm: lexmodel.LexModel) -> None:
    run.rule("R03.2", "no token pattern is shadowed: for patterns i < j of different kinds there is no string that pattern j matches completely while pattern i matches a prefix of it at the same position, unless pattern j can never start there (first match wins at a position)", 200)
    lx = run.project.mod("core.lexer")
    pats = [(p, k) for p, k in lm.token_patterns if k != "GRAMMAR_SENTINEL"]
    sims_full = []
    sims_pre = []
    for p, _k in pats:
        try:
            sims_full.append(lexmodel.regex_sim(lm, p))
            sims_pre.append(lexmodel.regex_sim(lm, p, prefix=True))
        except rx.Unsupported:
            b = rx.Builder(lm.alphabet, ignore_lookaround=True)  # type: ignore[arg-type]
            sims_full.append(rx.Sim(b.finish(b.regex(p)), lm.alphabet))  # type: ignore[arg-type]
            b2 = rx.Builder(lm.alphabet, ignore_lookaround=True)  # type: ignore[arg-type]
            sims_pre.append(rx.Sim(b2.finish(b2.seq(b2.regex(p), b2.any_star())), lm.alphabet))  # type: ignore[arg-type]
    n = 0
    for j in range(len(pats)):
        for i in range(j):
            if pats[i][1] == pats[j][1]:
                continue
            n += 1
            w = rx.intersect_witness(sims_pre[i], sims_full[j], lm.alphabet)  # type: ignore[arg-type]
            if w is not None and re.escape(pats[i][0]) == pats[i][0].replace("=", "\\=") or (w is not None and not any(ch in pats[i][0] for ch in "\\[](){}*+?|^$.")):
                # deliberate specific-before-general: an earlier pure literal that is itself a lexeme of the later pattern
                # (===END=== before ===NAME===). Only that one string may be taken; look for any other stolen string.
                lit = lexmodel.literal_set_sim(lm, [pats[i][0]])
                w = rx.search_n([sims_pre[i], sims_full[j], lit], lm.alphabet, lambda v: v[0] and v[1] and not v[2], need=(0, 1))  # type: ignore[arg-type]
            ok = w is None
            run.instance("R03.2", lx.relpath, f"#{i} {pats[i][1]} before #{j} {pats[j][1]}: " + ("disjoint at token start" if ok else f"#{i} takes a prefix of {rx.show(w, lm.alphabet)!r}"), ok=ok, nontrivial=not ok or (pats[i][0][0] == pats[j][0][0]))  # type: ignore[arg-type]
            if not ok:
                run.violation("R03.2", lx, "<module>", f"TOKEN_PATTERNS #{i} {pats[i][1]} shadows #{j} {pats[j][1]}", f"the text {rx.show(w, lm.alphabet)!r} is a complete {pats[j][1]} lexeme, but the earlier {pats[i][1]} pattern {pats[i][0]!r} matches a prefix of it and wins: that spelling never reaches the {pats[j][1]} pattern {pats[j][0]!r}", witness=rx.show(w, lm.alphabet))  # type: ignore[arg-type]
    run.extra["pattern_pairs_checked"] = n


# ======================================================================================= R03.3 / R03.4
POSITION_ATTRS = {"line", "column", "tokens", "raw", "normalized_from"}
ASCII_OPS = ["->", "<->", " vs ", "~", "|", "&"]


def check_emitter_profile(run: Run, lm: lexmodel.LexModel) -> None:
    run.rule("R03.3", "no function of emitter.py reads .line / .column / .tokens or a Token: canonical layout is a function of the AST content only", 1)
    run.rule("R03.4", "strict-profile constants in emitter.py: no tab in an output fragment (only the escape table names it), no space next to '::', no ASCII alias of an operator, leading spaces of literal prefixes come in twos; emit() writes ===NAME=== and ===END=== unconditionally and appends the final newline when missing", 20)
    em = run.project.mod("core.emitter")
    n_fn = 0
    for fi in em.functions.values():
        n_fn += 1
        for n in walk_no_nested(fi.node):
            if isinstance(n, ast.Attribute) and n.attr in POSITION_ATTRS and isinstance(n.ctx, ast.Load) and not (isinstance(n.value, ast.Name) and n.value.id in ("re", "self")):
                run.violation("R03.3", em, fi.qualname, f"reads {_text(n)}", f"{fi.qualname} reads `{_text(n)}`: the canonical text then depends on how the input was spelled (positions / tokens), so two spellings of the same document need not converge")
            if isinstance(n, ast.Name) and n.id in ("Token", "TokenType", "tokenize"):
                run.violation("R03.3", em, fi.qualname, f"uses {n.id}", f"{fi.qualname} refers to `{n.id}`: emission consults lexer-level information")
    run.instance("R03.3", em.relpath, f"{n_fn} emitter functions scanned for position/token reads", ok=True)
    # positive control: the rule's matcher recognises a position read
    ctl = ast.parse("def f(a):\n    return ' ' * a.column\n").body[0]
    fired = any(isinstance(n, ast.Attribute) and n.attr in POSITION_ATTRS for n in ast.walk(ctl))
    run.control("R03.3", "a read of `.column` in a sample emitter function is recognised", fired)

    # ---- output fragments
    escape_consts: set[int] = set()
    for fi in em.functions.values():
        for n in walk_no_nested(fi.node):
            if isinstance(n, ast.Call) and isinstance(n.func, ast.Attribute) and n.func.attr == "replace":
                for a in n.args:
                    escape_consts.add(id(a))
    for st in em.tree.body:
        if isinstance(st, (ast.Assign, ast.AnnAssign)):
            for c in ast.walk(st):
                escape_consts.add(id(c))
    n_frag = 0
    for fi in em.functions.values():
        if fi.name in ("needs_quotes", "_sort_children_by_key", "is_absent"):
            continue
        doc = ast.get_docstring(fi.node)
        for n in walk_no_nested(fi.node):
            frags: list[str] = []
            if isinstance(n, ast.JoinedStr):
                frags = [v.value for v in n.values if isinstance(v, ast.Constant) and isinstance(v.value, str)]
            elif isinstance(n, ast.Constant) and isinstance(n.value, str) and id(n) not in escape_consts and not isinstance(getattr(n, "_parent", None), (ast.JoinedStr, ast.Expr)) and n.value != doc:
                par = getattr(n, "_parent", None)
                # only constants that can flow to output: appended / concatenated / returned / joined
                if isinstance(par, ast.Call) and (isinstance(par.func, ast.Attribute) and par.func.attr in ("append", "join", "extend") or False) or isinstance(par, (ast.BinOp, ast.Return, ast.AugAssign)):
                    frags = [n.value]
            for fr in frags:
                n_frag += 1
                problems = []
                if "\t" in fr:
                    problems.append("contains a TAB")
                if " ::" in fr or ":: " in fr:
                    problems.append("has a space next to '::'")
                for op in ASCII_OPS:
                    if op in fr and not fr.lstrip().startswith("//"):
                        problems.append(f"contains the ASCII operator alias {op!r}")
                lead = len(fr) - len(fr.lstrip(" "))
                if fr.strip() and lead % 2 == 1 and fr[:lead] == " " * lead and not fr.startswith(" //") and lead == len(fr) - len(fr.lstrip()):
                    # an odd number of leading spaces on a fragment that starts a line
                    par = getattr(n, "_parent", None)
                    starts_line = isinstance(n, ast.JoinedStr) and isinstance(n.values[0], ast.Constant) and n.values[0].value == fr
                    if starts_line:
                        problems.append(f"starts a line with {lead} space(s)")
                ok = not problems
                run.instance("R03.4", em.loc(n), f"{fi.qualname}: fragment {fr[:30]!r}", ok=ok, nontrivial=bool(fr.strip()))
                if not ok:
                    run.violation("R03.4", em, fi.qualname, f"output fragment {fr[:40]!r}", f"the emitter writes the constant fragment {fr[:40]!r}, which {'; '.join(problems)}: canonical text leaves the strict profile")
    run.extra["emitter_output_fragments"] = n_frag
    # ---- envelope and final newline
    fi = em.func("emit")
    top = fi.node.body  # type: ignore[attr-defined]
    def _appended(st):
        if isinstance(st, ast.Expr) and isinstance(st.value, ast.Call) and isinstance(st.value.func, ast.Attribute) and st.value.func.attr == "append" and st.value.args:
            return st.value.args[0]
        return None
    name_line = any(isinstance(_appended(s), ast.JoinedStr) and len(_appended(s).values) == 3 and isinstance(_appended(s).values[0], ast.Constant) and _appended(s).values[0].value == "===" and isinstance(_appended(s).values[2], ast.Constant) and _appended(s).values[2].value == "===" and _text(_appended(s).values[1].value).endswith(".name") for s in top)
    end_line = any(isinstance(_appended(s), ast.Constant) and _appended(s).value == "===END===" for s in top)
    nl = any(isinstance(s, ast.If) and "endswith('\\n')" in _text(s.test) and "not" in _text(s.test) and any(isinstance(b, ast.AugAssign) and _text(b.value) == "'\\n'" for b in s.body) for s in top)
    # ... or as one expression: `return X if X.endswith("\n") else X + "\n"` (either polarity)
    for s_ in top:
        v = s_.value if isinstance(s_, (ast.Return, ast.Assign)) else None
        if isinstance(v, ast.IfExp) and "endswith('\\n')" in _text(v.test):
            neg = isinstance(v.test, ast.UnaryOp) and isinstance(v.test.op, ast.Not)
            plain, fixed = (v.orelse, v.body) if neg else (v.body, v.orelse)
            if isinstance(fixed, ast.BinOp) and isinstance(fixed.op, ast.Add) and _text(fixed.right) == "'\\n'" and _text(fixed.left) == _text(plain) and _text(plain) in _text(v.test):
                nl = True
    for what, ok in (("===NAME=== appended unconditionally", name_line), ("===END=== appended unconditionally", end_line), ("final newline appended when missing", nl)):
        run.instance("R03.4", em.loc(fi.node), f"emit(): {what}", ok=ok)
        if not ok:
            run.violation("R03.4", em, "emit", what, f"emit() does not guarantee: {what}")


# ======================================================================================= R03.6
def check_blank_lines(run: Run, pmodel: ParserModel) -> None:
    run.rule("R03.6", "blank lines between a header and its first child are dropped: at every test of the INDENT token that opens a child region (the next statement takes the indent width from it) the current token cannot be a NEWLINE, i.e. the NEWLINEs after the header were skipped by a loop", 3)
    pm = pmodel.pm
    n = 0
    for name in ("parse_section", "parse_section_marker", "parse_meta_block"):
        fi = pmodel.cls.methods[name]
        cfg = pmodel.cfg(fi)
        rt = pmodel.reaching_types(fi)
        for t in cfg.nodes:
            if t.kind != "test" or t.ast is None:
                continue
            txt = _text(t.ast)
            if txt not in ("self.current().type == TokenType.INDENT", "self.current().type != TokenType.INDENT"):
                continue
            lab = "t" if "==" in txt else "f"
            succ = [s for s, lb in cfg.succ[t.id] if lb == lab]
            opens = any(isinstance(cfg.nodes[s].ast, ast.Assign) and _text(cfg.nodes[s].ast.value) == "self.current().value" for s in succ)
            if not opens:
                continue
            # a header test opens a child loop: for `== INDENT` the loop is inside the true branch, for `!= INDENT` (early return)
            # it follows in the same block; re-tests of INDENT inside the child loop itself are not headers
            ifnode = t.owner
            if not isinstance(ifnode, ast.If):
                continue
            if "==" in txt:
                if not any(isinstance(x, ast.While) for b in ifnode.body for x in ast.walk(b)):
                    continue
            else:
                par = getattr(ifnode, "_parent", None)
                blk = next((getattr(par, f) for f in ("body", "orelse") if isinstance(getattr(par, f, None), list) and ifnode in getattr(par, f)), [])
                if not any(isinstance(x, ast.While) for b in blk[blk.index(ifnode) + 1:] for x in ast.walk(b)):
                    continue
            # loop-internal re-tests of INDENT (inside `while True`) are not headers: a header test is not inside the loop it opens
            n += 1
            ts = rt.get(t.id, frozenset())
            ok = "NEWLINE" not in ts
            run.instance("R03.6", pm.loc(t.ast), f"{name}: child region opened at line {t.lineno}; NEWLINE possible here: {not ok}", ok=ok)
            if not ok:
                run.violation("R03.6", pm, fi.qualname, f"child region INDENT test in {name}", f"when {name} looks for the INDENT that opens the children, the current token can still be a NEWLINE: a blank line between the header and its first child makes the header childless and re-parents the children (blank lines are a documented lenient freedom)")
    if n < 3:
        raise AnalysisError(f"only {n} child-region INDENT tests found")


# ======================================================================================= R03.7
def check_structure_detection(run: Run, lm: lexmodel.LexModel) -> None:
    run.rule("R03.7", "lenient octave_write decides 'this is OCTAVE' with regexes that accept every envelope line the lexer accepts, including trailing spaces: L(===NAME===[ ]*) ⊆ L(envelope_line), and L([ ]*KEY::) ⊆ L(assignment_line) for plain keys", 2)
    w = run.project.mod("mcp.write")
    fi = w.func("WriteTool.execute")
    found = {}
    # the two detectors are recognised by what they search for (a line of '===...===', a line-leading 'KEY::'), not by the
    # names of the locals they are stored in
    for n in walk_no_nested(fi.node):
        if isinstance(n, ast.Assign) and len(n.targets) == 1 and isinstance(n.targets[0], ast.Name):
            for c in ast.walk(n.value):
                if isinstance(c, ast.Call) and _text(c.func) in ("re.search", "re.match") and c.args and isinstance(c.args[0], ast.Constant) and isinstance(c.args[0].value, str):
                    pat0 = c.args[0].value
                    if "^" in pat0 and "===" in pat0:
                        found["envelope_line"] = (pat0, n)
                    elif "^" in pat0 and pat0.rstrip(")").endswith("::"):
                        found["assignment_line"] = (pat0, n)
    if set(found) != {"envelope_line", "assignment_line"}:
        raise AnalysisError(f"WriteTool.execute: structure-detection regexes not found ({sorted(found)})")
    env_pat = next(p for p, k in lm.token_patterns if k == "ENVELOPE_START")
    for name, lexer_side in (("envelope_line", env_pat.replace("(", "(?:") + "[ ]*"), ("assignment_line", r"[ ]*[A-Za-z_][A-Za-z0-9_]*::")):
        pat, node = found[name]
        single = pat[4:] if pat.startswith("(?m)") else pat
        try:
            a = lexmodel.regex_sim(lm, lexer_side)
            # the detector is a search on one line: ^...$ anchors handled by the automaton, prefix allowed when it has no `$`
            b = lexmodel.regex_sim(lm, single, prefix=not single.endswith("$"))
        except rx.Unsupported as e:
            raise AnalysisError(f"structure-detection regex {name} not translatable: {e}")
        wit = rx.not_included_witness(a, b, lm.alphabet)  # type: ignore[arg-type]
        ok = wit is None
        run.instance("R03.7", w.loc(node), f"{name} = {pat!r} accepts every line of L({lexer_side!r})" if ok else f"{name} rejects {rx.show(wit, lm.alphabet)!r}", ok=ok)  # type: ignore[arg-type]
        if not ok:
            run.violation("R03.7", w, "WriteTool.execute", f"{name} regex", f"the line {rx.show(wit, lm.alphabet)!r} is valid lenient OCTAVE for the lexer but `{name}` = {pat!r} does not recognise it: such a spelling can be classified as plain prose and wrapped instead of parsed, so it does not converge with the other spellings", witness=rx.show(wit, lm.alphabet))  # type: ignore[arg-type]


# ======================================================================================= R03.8
def check_optional_envelope(run: Run) -> None:
    run.rule("R03.8", "parse_document never requires the envelope: ENVELOPE_START and ENVELOPE_END are consumed only under a test that they are present (no unconditional expect)", 2)
    pm = run.project.mod("core.parser")
    fi = pm.func("Parser.parse_document")
    for kind in ("ENVELOPE_START", "ENVELOPE_END"):
        bad = [n for n in walk_no_nested(fi.node) if isinstance(n, ast.Call) and _text(n.func) == "self.expect" and n.args and _text(n.args[0]) == f"TokenType.{kind}"]
        guarded = []
        for b in bad:
            cur = b
            ok = False
            while cur is not None and cur is not fi.node:
                par = getattr(cur, "_parent", None)
                if isinstance(par, ast.If) and f"TokenType.{kind}" in _text(par.test) and cur in par.body:
                    ok = True
                cur = par
            guarded.append(ok)
        ok = all(guarded)
        run.instance("R03.8", pm.loc(fi.node), f"parse_document: {kind} " + ("never required" if ok else "REQUIRED by an unguarded expect()"), ok=ok)
        if not ok:
            run.violation("R03.8", pm, "Parser.parse_document", f"expect({kind}) unguarded", f"parse_document requires {kind}: a document that omits the envelope line (a documented lenient freedom) is refused instead of converging on the canonical text")


# ======================================================================================= R03.9 / R03.10
def check_end_optional_sets(run: Run) -> None:
    run.rule("R03.9", "===END=== is optional, so end of input must behave like it: every collection of TokenType members in parser.py (tuples/sets in membership tests, module frozensets) that contains ENVELOPE_END also contains EOF", 6)
    pm = run.project.mod("core.parser")
    n = 0
    for node in ast.walk(pm.tree):
        if isinstance(node, (ast.Tuple, ast.Set, ast.List)) and node.elts and all(isinstance(e, ast.Attribute) and isinstance(e.value, ast.Name) and e.value.id == "TokenType" for e in node.elts):
            names = [e.attr for e in node.elts]  # type: ignore[union-attr]
            if "ENVELOPE_END" not in names:
                continue
            n += 1
            ok = "EOF" in names
            fn = pm.enclosing_function(node) or "<module>"
            run.instance("R03.9", pm.loc(node), f"{fn}: {names}", ok=ok)
            if not ok:
                run.violation("R03.9", pm, fn, f"token set {sorted(names)} without EOF", f"this set treats ===END=== as a terminator but not the end of input: a document that omits ===END=== (a documented lenient freedom) takes the other branch here and does not converge with the spelling that has it")
    if n < 6:
        raise AnalysisError(f"only {n} token sets with ENVELOPE_END found in parser.py")


def check_indent_units(run: Run) -> None:
    run.rule("R03.10", "indent widths (0-based counts of spaces carried by INDENT tokens) are never compared with token columns (1-based) without an explicit +/-1: a mixed comparison is off by one exactly for 1-space indentation", 1)
    pm = run.project.mod("core.parser")
    n_cmp = 0
    for fi in pm.functions.values():
        for node in walk_no_nested(fi.node):
            if not isinstance(node, ast.Compare):
                continue
            sides = [node.left] + list(node.comparators)
            def kind(e):
                names = {x.id for x in ast.walk(e) if isinstance(x, ast.Name)}
                is_indent = any("indent" in nm.lower() for nm in names) or (isinstance(e, ast.Attribute) and e.attr == "value" and "INDENT" in _text(fi.node)[max(0, 0):0])
                is_col = any(isinstance(x, ast.Attribute) and x.attr == "column" for x in ast.walk(e))
                adj = any(isinstance(x, ast.BinOp) and isinstance(x.op, (ast.Add, ast.Sub)) and any(isinstance(y, ast.Constant) and y.value == 1 for y in (x.left, x.right)) for x in ast.walk(e))
                return is_indent, is_col, adj
            ks = [kind(e) for e in sides]
            if any(k[0] and not k[1] for k in ks):
                n_cmp += 1
            indent_side = any(k[0] and not k[1] for k in ks)
            # `.value` of the current token compared with a column inside a function that handles INDENT tokens
            value_side = any(isinstance(e, ast.Attribute) and e.attr == "value" and _text(e.value) in ("self.current()", "token", "tok") for e in sides)
            col_side = any(k[1] and not k[0] for k in ks)
            adjusted = any(k[2] for k in ks)
            if (indent_side or value_side) and col_side and not adjusted:
                run.violation("R03.10", pm, fi.qualname, f"{_text(node)[:70]}", f"`{_text(node)[:70]}` compares an indentation width (0-based count of spaces) with a token column (1-based): the test is off by one, which changes the parentage of children for documents indented by a single space per level")
    run.instance("R03.10", pm.relpath, f"{n_cmp} comparisons on indentation widths, none against a column", ok=True)


def check_rebuilt_text_is_canonical(run: Run) -> None:
    """R03.12: text the parser rebuilds from tokens for verbatim emission uses the canonical token values only"""
    run.rule("R03.12", "text rebuilt from tokens is spelled canonically: the functions of the parser that turn tokens back into text which the emitter writes verbatim (holographic patterns, section annotations: _reconstruct_pattern_from_tokens, _token_to_str, _string_token_source) never read .normalized_from (the author's ASCII spelling of an operator; .raw of a NUMBER token - its lexeme - is a different matter and allowed) - so `|` and `∨` give the same canonical text", 2)
    pm = run.project.mod("core.parser")
    n = 0
    for q, fi in pm.functions.items():
        short = q.split(".")[-1]
        if not (short.startswith("_reconstruct") or short in ("_token_to_str", "_string_token_source")):
            continue
        n += 1
        bad = [a for a in walk_no_nested(fi.node) if isinstance(a, ast.Attribute) and a.attr in ("normalized_from", "original") and isinstance(a.ctx, ast.Load)]
        run.instance("R03.12", pm.loc(fi.node), f"{q}: reads of spelling-carrying token attributes: {len(bad)}", ok=not bad)
        for a in bad[:3]:
            run.violation("R03.12", pm, q, a, f"{q} puts `{norm(a)}` - the spelling the author used - into text that the emitter writes verbatim: an ASCII alias (|, +, ~, <->) stays in the canonical text outside strings, and two inputs that differ only in the spelling of an operator no longer canonicalise to the same bytes")
    if n < 2:
        raise AnalysisError(f"only {n} token-to-text function(s) found in the parser (_reconstruct_pattern_from_tokens, _token_to_str expected)")


def check_indent_emission(run: Run) -> None:
    """R03.11: an INDENT token stands in front of content only, and measures the whole run of leading spaces"""
    import re._constants as sc  # type: ignore[import-not-found]
    import re._parser as sp  # type: ignore[import-not-found]

    from ..cfg import CFG, atomic_conditions

    run.rule("R03.11", "INDENT is emitted for the whole run of leading spaces and only when content follows on the line: the construction of the INDENT token is reached only where the character after the run is known to be neither a space nor a newline (the counting loop has left on a non-space and `content[pos] != '\\n'` holds; or the run was taken by a regex ` +` with a look-ahead that excludes both) - otherwise a whitespace-only line yields an INDENT and closes the enclosing block", 1)
    lx = run.project.mod("core.lexer")
    fi = lx.func("tokenize")
    cfg = CFG(fi.node)
    sites = [c for c in walk_no_nested(fi.node) if isinstance(c, ast.Call) and isinstance(c.func, ast.Name) and c.func.id == "Token" and c.args and ast.unparse(c.args[0]).endswith("TokenType.INDENT")]
    if not sites:
        raise AnalysisError("tokenize: construction of the INDENT token not found")
    for c in sites:
        holder = next((n.id for n in cfg.nodes if n.ast is not None and n.kind == "stmt" and any(x is c for x in ast.walk(n.ast))), None)
        conds = atomic_conditions(cfg, holder) if holder is not None else []
        why = None
        ok = False
        # (a) counting loop + explicit newline test
        not_nl = any(val and isinstance(t, ast.Compare) and isinstance(t.ops[0], ast.NotEq) and isinstance(t.comparators[0], ast.Constant) and t.comparators[0].value == "\n" and isinstance(t.left, ast.Subscript) for t, val in conds)
        loops = [w for w in walk_no_nested(fi.node) if isinstance(w, ast.While) and any(isinstance(x, ast.Compare) and isinstance(x.ops[0], ast.Eq) and isinstance(x.comparators[0], ast.Constant) and x.comparators[0].value == " " and isinstance(x.left, ast.Subscript) for x in ast.walk(w.test))]
        if not_nl and loops:
            ok, why = True, "the counting loop leaves on a non-space and `content[pos] != newline` holds"
        # (b) a regex match decides
        if not ok:
            for t, val in conds:
                if not (val and isinstance(t, ast.Name)):
                    continue
                defs = [a.value for a in walk_no_nested(fi.node) if isinstance(a, ast.Assign) and any(isinstance(tg, ast.Name) and tg.id == t.id for tg in a.targets)]
                for d in defs:
                    if isinstance(d, ast.Call) and isinstance(d.func, ast.Attribute) and d.func.attr == "match" and isinstance(d.func.value, ast.Name) and lx.has_const(d.func.value.id):
                        cn = lx.const_node(d.func.value.id)
                        pat = run.project.try_fold(lx, cn.args[0]) if isinstance(cn, ast.Call) and cn.args else None
                        if not isinstance(pat, str):
                            continue
                        items = list(sp.parse(pat))
                        look = [av for op, av in items if op is sc.ASSERT and av[0] == 1]
                        if len(items) == 2 and items[0][0] is sc.MAX_REPEAT and look:
                            sub = list(look[0][1])
                            import re as _re

                            admits = [ch for ch in (" ", "\n") if _re.match("(?:" + pat + ")", " " + ch) is not None and _re.match("(?:" + pat + ")", " " + ch).end() == 1]  # type: ignore[union-attr]
                            if not admits:
                                ok, why = True, f"the run is taken by {pat!r}, whose look-ahead excludes space and newline"
                            else:
                                why = f"the run is taken by {pat!r}, whose look-ahead is also satisfied by {admits!r}: on a line of two or more spaces and nothing else the match backs off by one space and an INDENT is emitted for a blank line"
                            del sub
        if why is None and loops and any(isinstance(x, ast.AugAssign) for w in loops for x in ast.walk(w)):
            why = "the spaces are counted by a loop, but the INDENT token is built without `content[pos] != newline` having held"
        if why is None:
            raise AnalysisError("tokenize: the condition under which the INDENT token is built is not in a form this check reads (counting loop + newline test, or a ` +` regex with a look-ahead); R03.11 is not decided")
        run.instance("R03.11", lx.loc(c), f"tokenize: INDENT token: {why}", ok=ok)
        if not ok:
            run.violation("R03.11", lx, "tokenize", c, f"an INDENT token can be emitted for a whitespace-only line: {why}. The parser reads an INDENT smaller than the block's child indent as a dedent, so a blank line carrying left-over spaces closes the block - two inputs that differ only in trailing spaces on a blank line no longer canonicalise to the same bytes")


def check(run: Run) -> None:
    lm = lexmodel.build(run.project)
    tt = enum_members(run.project, "core.lexer", "TokenType")
    pmodel = ParserModel(run.project, tt)
    check_alias_table(run, lm)
    check_shadowing(run, lm)
    check_emitter_profile(run, lm)
    c01.check_indent(run, "R03.5")
    check_indent_emission(run)
    check_rebuilt_text_is_canonical(run)
    check_blank_lines(run, pmodel)
    check_structure_detection(run, lm)
    check_optional_envelope(run)
    check_end_optional_sets(run)
    check_indent_units(run)
    run.assume("that two concrete spellings of one document yield identical canonical bytes is not decided (it rests on how the hand-written parser groups runtime token streams); only the table, profile and tolerance conditions above")
