"""C15 A seal verifies on the sealed content and on nothing else."""
from __future__ import annotations

import ast
import copy

from ..astmodel import AstModel
from ..cfg import CFG, branch_conditions
from ..fsmodel import is_name
from ..report import Run
from ..source import AnalysisError, FuncInfo, norm, walk_no_nested


def _single_defs(fi: FuncInfo) -> dict[str, ast.AST]:
    defs: dict[str, list[ast.AST]] = {}
    for n in walk_no_nested(fi.node):
        if isinstance(n, ast.Assign) and len(n.targets) == 1 and isinstance(n.targets[0], ast.Name):
            defs.setdefault(n.targets[0].id, []).append(n.value)
        elif isinstance(n, ast.AnnAssign) and isinstance(n.target, ast.Name) and n.value is not None:
            defs.setdefault(n.target.id, []).append(n.value)
    return {k: v[0] for k, v in defs.items() if len(v) == 1}


class _Expand(ast.NodeTransformer):
    def __init__(self, defs: dict[str, ast.AST], subst: dict[str, ast.AST] | None = None, depth: int = 0):
        self.defs = defs
        self.subst = subst or {}
        self.depth = depth

    def visit_Name(self, node: ast.Name):
        if isinstance(node.ctx, ast.Load):
            if node.id in self.subst:
                return copy.deepcopy(self.subst[node.id])
            if node.id in self.defs and self.depth < 12:
                return _Expand(self.defs, self.subst, self.depth + 1).visit(copy.deepcopy(self.defs[node.id]))
        return node


def expand(expr: ast.AST, defs: dict[str, ast.AST], subst: dict[str, ast.AST] | None = None) -> ast.AST:
    return _Expand(defs, subst).visit(copy.deepcopy(expr))


def check_seal_is_last(run: Run, am: AstModel, seal: FuncInfo) -> None:
    run.rule("R15.7", "the SEAL section is the last thing in the sealed text: the document seal_document hands to the emitter carries nothing that emit() writes after `sections` (today: trailing_comments) - such text would follow the SEAL section, be read back as part of it and be stripped before re-hashing, so the seal would not verify on the sealed file", 1)
    from .c01 import PARTS

    after_sections = PARTS[PARTS.index("sections") + 1:]
    mod = seal.module
    n = 0
    for call, cls in am.constructions(seal):
        if cls != "Document":
            continue
        kw = {k.arg: k.value for k in call.keywords}
        secs = kw.get("sections")
        if secs is None or "seal" not in (ast.unparse(secs) + ast.unparse(expand(secs, _single_defs(seal)))).lower():
            continue  # not the copy that receives the SEAL section
        n += 1
        for f in after_sections:
            v = kw.get(f)
            empty = v is None or (isinstance(v, (ast.List, ast.Tuple)) and not v.elts) or (isinstance(v, ast.Constant) and not v.value)
            run.instance("R15.7", mod.loc(call), f"seal_document: sealed copy carries `{f}`: {not empty}", ok=empty)
            if not empty:
                run.violation("R15.7", mod, seal.qualname, f"sealed Document(... {f}=...)", f"the document that receives the SEAL section also carries `{f}`, which the emitter writes after the sections: in the sealed file that text follows §SEAL::SEAL, the reader attaches it to the SEAL section, verification strips it with the section and recomputes a hash over text without it - VERIFIED in memory, INVALID on the untouched sealed file")
    if n < 1:
        raise AnalysisError("seal_document: the Document(...) that receives the SEAL section was not found")


def check(run: Run) -> None:
    am = AstModel(run.project)
    mod = run.project.mod("core.sealer")
    run.rule("R15.1", "seal and verify hash the same expression chain: sha256(emit(_remove_seal_section(doc)).encode('utf-8')).hexdigest()", 2)
    run.rule("R15.2", "comparator: VERIFIED is returned only under `recomputed == stored` (full equality; stored = seal HASH through at most strip('\"')), NO_SEAL only when extract_seal returned None, INVALID otherwise", 3)
    run.rule("R15.3", "document copies made while sealing/verifying carry every content field of Document, each taken from the same field of the source document", 12)
    run.rule("R15.4", "the SEAL section is recognised by one predicate (Section with key SEAL) in removal and extraction; only such sections are removed; the stored HASH assignment is the computed digest", 3)
    run.rule("R15.5", "CLI symmetry: `octave seal` and `octave validate --verify-seal` read the text with the same parser entry and seal/verify the parsed document directly", 2)

    from ..inline import inline_helpers

    # document-copy helpers extracted from the sealing functions are read in place (octacheck.inline); the sealer's own entry
    # points are never inlined into each other
    entry = {"seal_document", "verify_seal", "compute_seal", "_remove_seal_section", "extract_seal"}
    not_entry = lambda h, c, st: h.name not in entry  # noqa: E731
    seal, inl1 = inline_helpers(mod.func("seal_document"), not_entry)
    verify = mod.func("verify_seal")
    cs = mod.func("compute_seal")
    rm, inl2 = inline_helpers(mod.func("_remove_seal_section"), not_entry)
    ex = mod.func("extract_seal")
    run.extra["inlined_helpers"] = sorted(set(inl1 + inl2))

    # ---------------------------------------------------------------- R15.1
    cs_defs = _single_defs(cs)
    # value stored under "HASH" in compute_seal
    hash_expr = None
    for n in walk_no_nested(cs.node):
        if isinstance(n, ast.Dict):
            for k, v in zip(n.keys, n.values):
                if isinstance(k, ast.Constant) and k.value == "HASH":
                    hash_expr = v
    if hash_expr is None:
        raise AnalysisError("compute_seal: HASH entry not found")
    # strip quoting f'"{x}"' -> x
    inner = hash_expr
    if isinstance(inner, ast.JoinedStr):
        fv = [p for p in inner.values if isinstance(p, ast.FormattedValue)]
        lits = "".join(p.value for p in inner.values if isinstance(p, ast.Constant))
        if len(fv) == 1 and lits.strip('"') == "":
            inner = fv[0].value
    seal_defs = _single_defs(seal)
    call = None
    for n in walk_no_nested(seal.node):
        if isinstance(n, ast.Call) and ast.unparse(n.func) == "compute_seal":
            call = n
    if call is None:
        # seal_document does not go through compute_seal: the digest it stores is the value of its own HASH assignment
        hv = None
        for n in walk_no_nested(seal.node):
            if isinstance(n, ast.Call) and ast.unparse(n.func) == "Assignment":
                kw = {k.arg: k.value for k in n.keywords}
                if isinstance(kw.get("key"), ast.Constant) and kw["key"].value == "HASH" and "value" in kw:
                    hv = kw["value"]
        if hv is None:
            raise AnalysisError("seal_document: neither a compute_seal call nor a HASH assignment found")
        seal_chain = expand(hv, seal_defs)
        # the same function must also feed compute_seal's HASH for `octave seal` consumers of the dict: both spell the digest alike
        cs_chain = expand(inner, cs_defs)
        p_content = cs.node.args.args[0].arg  # type: ignore[attr-defined]
        if ast.unparse(cs_chain).replace(p_content, "X") != ast.unparse(seal_chain).replace("emit(_remove_seal_section(doc))", "X"):
            run.violation("R15.1", mod, seal.qualname, "digest chain (seal_document vs compute_seal)", f"seal_document stores `{ast.unparse(seal_chain)}` but compute_seal computes `{ast.unparse(cs_chain)}` over its content: the two ways of sealing disagree")
    else:
        p_content = cs.node.args.args[0].arg  # type: ignore[attr-defined]
        seal_chain = expand(expand(inner, cs_defs), {}, {p_content: expand(call.args[0], seal_defs)})
    def find_cmp(cfg_):
        found = None
        for n in cfg_.nodes:
            if n.kind == "test" and isinstance(n.ast, ast.Compare) and len(n.ast.ops) == 1 and isinstance(n.ast.ops[0], (ast.Eq, ast.NotEq)) and all(isinstance(s, ast.Name) for s in (n.ast.left, n.ast.comparators[0])):
                found = n
        return found

    cfgv = CFG(verify.node)
    cmp_node = find_cmp(cfgv)
    if cmp_node is None:
        # single exit with a conditional status (`return R(status=VERIFIED if same else INVALID, ...)`): one return per case
        from ..inline import split_conditional_returns

        v2 = split_conditional_returns(verify)
        if v2 is not verify:
            cfg2 = CFG(v2.node)
            c2 = find_cmp(cfg2)
            if c2 is not None:
                verify, cfgv, cmp_node = v2, cfg2, c2
    ver_defs = _single_defs(verify)
    if cmp_node is None:
        run.instance("R15.2", mod.loc(verify.node), "verify_seal: equality test between two names", ok=False)
        run.violation("R15.2", mod, verify.qualname, "recomputed == stored", "verify_seal has no equality test between the recomputed digest and the stored one (prefix/containment tests accept tampered hashes)")
        return
    sides = [cmp_node.ast.left, cmp_node.ast.comparators[0]]  # type: ignore[union-attr]
    chains = {s.id: expand(s, ver_defs) for s in sides}  # type: ignore[union-attr]
    computed_name = None
    for nm, ch in chains.items():
        if "sha256" in ast.unparse(ch):
            computed_name = nm
    stored_name = [s.id for s in sides if s.id != computed_name][0] if computed_name else None  # type: ignore[union-attr]
    want = "hashlib.sha256(emit(_remove_seal_section(doc)).encode('utf-8')).hexdigest()"
    s_txt = ast.unparse(seal_chain)
    v_txt = ast.unparse(chains[computed_name]) if computed_name else "<none>"
    ok = s_txt == v_txt
    run.instance("R15.1", mod.loc(seal.node), f"seal chain  : {s_txt}", ok=ok)
    run.instance("R15.1", mod.loc(verify.node), f"verify chain: {v_txt}", ok=ok)
    if not ok:
        run.violation("R15.1", mod, verify.qualname, "digest chain (seal vs verify)", f"sealing hashes `{s_txt}` but verification hashes `{v_txt}`: a freshly sealed document would not verify, or tampering outside the hashed text would go unnoticed")
    shape_ok = s_txt == want
    if ok and not shape_ok:
        run.violation("R15.1", mod, seal.qualname, "digest chain shape", f"the sealed digest is `{s_txt}`, not SHA-256 of the canonical emission of the document minus its SEAL section with default options")

    # ---------------------------------------------------------------- R15.2
    # stored derives from seal_data.get("HASH") via strip only
    stored_ok = False
    if stored_name:
        binds = [n.value for n in walk_no_nested(verify.node) if isinstance(n, ast.Assign) and any(is_name(t, stored_name) for t in n.targets)]
        srcs = []
        for b in binds:
            t = b
            if isinstance(t, ast.Call) and isinstance(t.func, ast.Attribute) and t.func.attr == "strip" and is_name(t.func.value, stored_name):
                srcs.append("strip")
            elif isinstance(t, ast.Call) and isinstance(t.func, ast.Attribute) and t.func.attr == "get" and t.args and isinstance(t.args[0], ast.Constant) and t.args[0].value == "HASH":
                srcs.append("get")
            elif isinstance(t, ast.Subscript) and isinstance(t.slice, ast.Constant) and t.slice.value == "HASH":
                srcs.append("get")
            else:
                srcs.append("other:" + ast.unparse(t))
        stored_ok = "get" in srcs and all(s in ("get", "strip") for s in srcs)
    seal_var = None
    for n in walk_no_nested(verify.node):
        if isinstance(n, ast.Assign) and isinstance(n.value, ast.Call) and ast.unparse(n.value.func) == "extract_seal" and isinstance(n.targets[0], ast.Name):
            seal_var = n.targets[0].id
    from ..cfg import reaching_assignments

    cases: list[tuple[object, str | None, int]] = []  # (return node, status member, node whose branch conditions decide it)
    for rn in [n for n in cfgv.nodes if isinstance(n.ast, ast.Return)]:
        status = None
        for c in ast.walk(rn.ast):
            if isinstance(c, ast.Attribute) and isinstance(c.value, ast.Name) and c.value.id == "SealStatus":
                status = c.attr
        if status is None:
            # `status=<local>`: one case per assignment of a status member that reaches the return (single exit, status chosen
            # in the branches above it)
            sv = next((k.value for c in ast.walk(rn.ast) if isinstance(c, ast.Call) for k in c.keywords if k.arg == "status" and isinstance(k.value, ast.Name)), None)
            defs = reaching_assignments(cfgv, rn.id, sv.id) if sv is not None else None
            if defs and all(isinstance(d, ast.Assign) and isinstance(d.value, ast.Attribute) and isinstance(d.value.value, ast.Name) and d.value.value.id == "SealStatus" for d in defs):
                for d in defs:
                    dn = [n for n in cfgv.nodes if n.ast is d]
                    if dn:
                        cases.append((rn, d.value.attr, dn[0].id))  # type: ignore[attr-defined]
                continue
        cases.append((rn, status, rn.id))
    for rn, status, cond_at in cases:
        conds = branch_conditions(cfgv, cond_at)
        eq = None
        for t, val in conds:
            if t is cmp_node.ast:
                eq = val if isinstance(t.ops[0], ast.Eq) else (not val)  # type: ignore[union-attr]
        none_seal = any(isinstance(t, ast.Compare) and is_name(t.left, seal_var or "\0") and isinstance(t.ops[0], ast.Is) and val is True for t, val in conds)
        ok = (status == "VERIFIED" and eq is True and stored_ok) or (status == "INVALID" and eq is False) or (status == "NO_SEAL" and none_seal)
        run.instance("R15.2", f"{mod.relpath}:{rn.lineno}", f"verify_seal: return {status} under {'recomputed == stored' if eq else ('recomputed != stored' if eq is False else ('no seal data' if none_seal else 'UNRELATED CONDITIONS'))}", ok=ok)
        if not ok:
            run.violation("R15.2", mod, verify.qualname, f"return SealStatus.{status}", f"verify_seal can return {status} under the wrong condition (equality of full digests={eq}, stored hash read from HASH via strip only={stored_ok}, extract_seal None={none_seal})", line=rn.lineno)

    # ---------------------------------------------------------------- R15.3
    doc_fields = [f for f in am.classes["Document"] if f not in ("line", "column", "leading_comments", "trailing_comment")]
    n_cons = 0
    for fi in (seal, rm):
        pdoc = fi.node.args.args[0].arg  # type: ignore[attr-defined]
        for call, cls in am.constructions(fi):
            if cls != "Document":
                continue
            n_cons += 1
            kw = {k.arg: k.value for k in call.keywords}
            for f in doc_fields:
                v = kw.get(f)
                ok = v is not None and (f == "sections" or any(isinstance(a, ast.Attribute) and a.attr == f and is_name(a.value, pdoc) for a in ast.walk(v)))
                if f == "sections" and v is not None:
                    # sections derive from the source document's sections
                    src = expand(v, _single_defs(fi))
                    # ... directly, or through the local bound from _remove_seal_section(<source doc>) (whatever it is called)
                    stripped = {a.targets[0].id for a in walk_no_nested(fi.node) if isinstance(a, ast.Assign) and len(a.targets) == 1 and isinstance(a.targets[0], ast.Name) and isinstance(a.value, ast.Call) and ast.unparse(a.value.func) == "_remove_seal_section" and a.value.args and is_name(a.value.args[0], pdoc)}
                    ok = f"{pdoc}.sections" in ast.unparse(src) or f"_remove_seal_section({pdoc}).sections" in ast.unparse(src) or any(f"{x}.sections" in ast.unparse(v) or f"{x}.sections" in ast.unparse(src) for x in stripped)
                run.instance("R15.3", mod.loc(call), f"{fi.qualname}: Document(... {f}=...) taken from {pdoc}.{f}", ok=ok)
                if not ok:
                    run.violation("R15.3", mod, fi.qualname, f"Document(...) without {f}", f"the document copy built in {fi.qualname} does not carry `{f}` from the source document: that part of the content is lost by sealing and is not covered by the hash",
                                  line=call.lineno, failing_input="document with a comment before ===END===: `octave seal` output no longer contains it" if f == "trailing_comments" else "")
    if n_cons < 2:
        raise AnalysisError("sealer.py: fewer than 2 Document(...) copies found")

    # ---------------------------------------------------------------- R15.4
    def seal_predicates(fi: FuncInfo) -> list[str]:
        out = []
        for n in walk_no_nested(fi.node):
            if isinstance(n, ast.BoolOp) and isinstance(n.op, ast.And):
                txt = [ast.unparse(v) for v in n.values]
                if any("'SEAL'" in t for t in txt):
                    # normalise the loop variable name
                    n2 = copy.deepcopy(n)
                    for x in ast.walk(n2):
                        if isinstance(x, ast.Name) and x.id not in ("isinstance", "Section"):
                            x.id = "_"
                    out.append(ast.unparse(n2))
                elif any(isinstance(x, ast.Name) and mod.has_const(x.id) and run.project.try_fold(mod, x) == "SEAL" for v in n.values for x in ast.walk(v)):
                    # the key spelled as a module-level constant
                    from ..inline import clone

                    n2 = clone(n)
                    class K(ast.NodeTransformer):
                        def visit_Name(self, x: ast.Name):  # noqa: N802
                            if mod.has_const(x.id) and run.project.try_fold(mod, x) == "SEAL":
                                return ast.Constant(value="SEAL")
                            if x.id not in ("isinstance", "Section"):
                                x.id = "_"
                            return x
                    out.append(ast.unparse(ast.fix_missing_locations(K().visit(n2))))
        return out

    preds = {fi.qualname: seal_predicates(fi) for fi in (rm, ex)}
    want_pred = "isinstance(_, Section) and _.key == 'SEAL'"
    for q, ps in preds.items():
        ok = ps == [want_pred]
        run.instance("R15.4", mod.relpath, f"{q}: SEAL predicate {ps}", ok=ok)
        if not ok:
            run.violation("R15.4", mod, q, "SEAL section predicate", f"{q} recognises the SEAL section by {ps} instead of `{want_pred}`: removal and extraction would disagree, or non-SEAL content would be excluded from the hash")
    # removal comprehension keeps everything else
    comp = [n for n in walk_no_nested(rm.node) if isinstance(n, ast.ListComp) or (isinstance(n, ast.GeneratorExp) and isinstance(getattr(n, "_parent", None), ast.Call) and ast.unparse(n._parent.func) in ("list", "tuple") and len(n._parent.args) == 1)]  # type: ignore[attr-defined]
    ok = len(comp) == 1 and len(comp[0].generators) == 1 and len(comp[0].generators[0].ifs) == 1 and isinstance(comp[0].generators[0].ifs[0], ast.UnaryOp) and isinstance(comp[0].generators[0].ifs[0].op, ast.Not) and isinstance(comp[0].elt, ast.Name) and ast.unparse(comp[0].generators[0].iter).endswith(".sections")
    run.instance("R15.4", mod.loc(rm.node), "_remove_seal_section: keeps every section for which the SEAL predicate is false, unchanged", ok=ok)
    if not ok:
        run.violation("R15.4", mod, rm.qualname, "sections filter", "_remove_seal_section does more than dropping SEAL sections (content excluded from, or altered before, hashing)")
    # stored HASH is the digest
    hash_assign = [c for c, cls in am.constructions(seal) if cls == "Assignment" and any(k.arg == "key" and isinstance(k.value, ast.Constant) and k.value.value == "HASH" for k in c.keywords)]
    ok = False
    if hash_assign:
        v = [k.value for k in hash_assign[0].keywords if k.arg == "value"][0]
        # <local bound from compute_seal(...)>['HASH'] (optionally .strip('"'))
        digest_vars = {a.targets[0].id for a in walk_no_nested(seal.node) if isinstance(a, ast.Assign) and len(a.targets) == 1 and isinstance(a.targets[0], ast.Name) and isinstance(a.value, ast.Call) and ast.unparse(a.value.func) == "compute_seal"}
        src = ast.unparse(v)
        ok = any(src in (f"{d}['HASH'].strip('\"')", f"{d}['HASH']") for d in digest_vars)
        if not ok and not digest_vars:
            # no compute_seal call: the stored value must itself expand to the SHA-256 chain R15.1 compares with verification
            ok = ast.unparse(expand(v, _single_defs(seal))) == "hashlib.sha256(emit(_remove_seal_section(doc)).encode('utf-8')).hexdigest()"
    if not ok and not hash_assign:
        # table-driven: `Assignment(key=name, value=D[name]) for name in FIELDS` with D bound from compute_seal(...), "HASH" among the
        # constant FIELDS, and D['HASH'] rewritten at most by stripping its quotes
        digest_vars = {a.targets[0].id for a in walk_no_nested(seal.node) if isinstance(a, ast.Assign) and len(a.targets) == 1 and isinstance(a.targets[0], ast.Name) and isinstance(a.value, ast.Call) and ast.unparse(a.value.func) == "compute_seal"}
        for c, cls in am.constructions(seal):
            if cls != "Assignment":
                continue
            kw = {k.arg: k.value for k in c.keywords}
            comp = getattr(c, "_parent", None)
            if not (isinstance(comp, (ast.ListComp, ast.GeneratorExp)) and comp.elt is c and len(comp.generators) == 1 and isinstance(comp.generators[0].target, ast.Name)):
                continue
            lv = comp.generators[0].target.id
            fields = run.project.try_fold(mod, comp.generators[0].iter)
            v = kw.get("value")
            if is_name(kw.get("key"), lv) and isinstance(fields, (tuple, list)) and "HASH" in fields and isinstance(v, ast.Subscript) and isinstance(v.value, ast.Name) and v.value.id in digest_vars and is_name(v.slice, lv):
                d = v.value.id
                # the only filter allowed is presence in D
                filt_ok = all(ast.unparse(f) == f"{lv} in {d}" for f in comp.generators[0].ifs)
                stores = [a for a in walk_no_nested(seal.node) if isinstance(a, (ast.Assign, ast.AugAssign)) and any(isinstance(t, ast.Subscript) and is_name(t.value, d) for t in (a.targets if isinstance(a, ast.Assign) else [a.target]))]
                stores_ok = all(isinstance(a, ast.Assign) and ast.unparse(a.targets[0]) == f"{d}['HASH']" and ast.unparse(a.value) == f"{d}['HASH'].strip('\"')" for a in stores)
                ok = filt_ok and stores_ok
    run.instance("R15.4", mod.loc(seal.node), "seal_document: the HASH assignment stores compute_seal's digest", ok=ok)
    if not ok:
        run.violation("R15.4", mod, seal.qualname, "Assignment(key='HASH', ...)", "the stored HASH is not compute_seal's digest (through at most strip of the quotes)")

    # ---------------------------------------------------------------- R15.6
    run.rule("R15.6", "the hashed emission distinguishes value kinds: only str values are ever wrapped in quotes (so 404 and \"404\", true and \"true\" cannot hash alike); bool is tested before int", 4)
    from .c04 import check_bool_before_int
    from .c18 import check_quote_str_only

    check_quote_str_only(run, "R15.6")
    check_bool_before_int(run, "R15.6", [("core.emitter", "emit_value")])
    from .c04 import check_number_spelling

    check_number_spelling(run, "R15.8")
    from .c04 import check_parser_keeps_kind

    check_parser_keeps_kind(run, "R15.9")  # a sealed text that is read back with another kind of value no longer verifies
    check_seal_is_last(run, am, seal)

    # ---------------------------------------------------------------- R15.5
    cli = run.project.mod("cli.main")
    # the text the CLI writes for a sealed document is the plain emission the hash was computed from: no emit() with options on the seal path
    from ..resolve import Resolver

    res = Resolver(run.project)
    seal_reach = [f for f in res.reachable_from(["octave_mcp.cli.main:seal"]) if f.startswith("octave_mcp.cli.main:")]
    n_emit = 0
    for fq in sorted(seal_reach):
        f2 = res.func_by_fqn(fq)
        for n in walk_no_nested(f2.node):
            if isinstance(n, ast.Call) and isinstance(n.func, ast.Name) and n.func.id == "emit":
                n_emit += 1
                ok = len(n.args) == 1 and not n.keywords
                run.instance("R15.5", cli.loc(n), f"cli {f2.qualname}: `{norm(n)}` is the plain canonical emission (no format options)", ok=ok)
                if not ok:
                    run.violation("R15.5", cli, f2.qualname, n, "`octave seal` writes the sealed document through emit() with format options, while the HASH was computed from the plain emission: a freshly sealed file that contains anything the options change (trailing whitespace in a literal zone, comments) does not verify")
    if n_emit < 1:
        raise AnalysisError("cli seal: no emit() call found on the seal path")
    entries = {}
    for q, fn in (("seal", "seal_document"), ("validate", "do_verify_seal")):
        fi = cli.func(q)
        parses = sorted({ast.unparse(n.func) for n in walk_no_nested(fi.node) if isinstance(n, ast.Call) and ast.unparse(n.func) in ("parse", "parse_with_warnings", "parse_meta_only")})
        calls = [n for n in walk_no_nested(fi.node) if isinstance(n, ast.Call) and ast.unparse(n.func) == fn]
        direct = bool(calls) and all(len(c.args) == 1 and isinstance(c.args[0], ast.Name) for c in calls)
        entries[q] = parses
        run.instance("R15.5", cli.loc(fi.node), f"cli {q}: parser entry {parses}; {fn} applied to the parsed document directly={direct}", ok=direct and parses == ["parse"])
        if not (direct and parses == ["parse"]):
            run.violation("R15.5", cli, q, f"{fn}(doc) after parse(content)", f"`octave {q}` does not seal/verify the document exactly as parsed by parse(): sealing and verification would see different documents")
