"""C11 Schema repair changes only what it may, and logs every change."""
from __future__ import annotations

import ast
import math

from ..astmodel import AstModel
from ..cfg import CFG, atomic_conditions, branch_conditions
from ..fsmodel import is_name, names_in
from ..report import Run
from ..resolve import Resolver
from ..source import AnalysisError, FuncInfo, norm, walk_no_nested

REPAIR_ROOT = "octave_mcp.core.repair:repair"


def _own_outcome(run: Run) -> None:
    """R11.9: what is stored into a node is what THIS node's value and THIS field's constraint gave"""
    from ..cfg import CFG, reaching_assignments

    run.rule("R11.9", "a node receives the outcome computed for itself: every value stored into `<node>.value` by the schema repair walk is, on every path, the first result of repair_value(value=<that node>.value, field_def=<the field's own definition>, ...) made in the same visit - never something read back from a memo / table filled by another node (an outcome depends on the field's allowed values, not only on the raw token)", 1)
    rm = run.project.mod("core.repair")
    n = 0
    for q, fi in rm.functions.items():
        stores = [a for a in walk_no_nested(fi.node) if isinstance(a, ast.Assign) and len(a.targets) == 1 and isinstance(a.targets[0], ast.Attribute) and a.targets[0].attr == "value" and isinstance(a.targets[0].value, ast.Name)]
        if not stores:
            continue
        cfg = CFG(fi.node)
        for st in stores:
            node_name = st.targets[0].value.id  # type: ignore[union-attr]
            n += 1
            v = st.value
            holder = next((nd.id for nd in cfg.nodes if nd.ast is st), None)
            why = None
            if not isinstance(v, ast.Name) or holder is None:
                why = f"`{norm(v)[:50]}` is not a local bound from repair_value(...)"
            else:
                defs = reaching_assignments(cfg, holder, v.id)
                if not defs:
                    why = f"`{v.id}` may be unbound here"
                for d in defs or []:
                    val = getattr(d, "value", None)
                    ok = isinstance(val, ast.Call) and ast.unparse(val.func).split(".")[-1] == "repair_value" and any((k.arg == "value" and ast.unparse(k.value) == f"{node_name}.value") for k in val.keywords) or (isinstance(val, ast.Call) and ast.unparse(val.func).split(".")[-1] == "repair_value" and val.args and ast.unparse(val.args[0]) == f"{node_name}.value")
                    if not ok:
                        why = f"one binding of `{v.id}` that reaches the store is `{norm(d)[:70]}`"
            run.instance("R11.9", rm.loc(st), f"{q}: `{norm(st)}` takes the result of repair_value({node_name}.value, ...) on every path", ok=why is None)
            if why:
                run.violation("R11.9", rm, q, st, f"{q} stores a value into `{node_name}.value` that was not computed for this node: {why}. A repair outcome depends on the field's own constraint (its allowed values, its TYPE), so an outcome remembered from another field replaces a value that has no match in this field's ENUM, or with a value that fails it")
    if n == 0:
        raise AnalysisError("core.repair: no store into <node>.value found (the schema repair walk): anchor moved")


def check(run: Run) -> None:
    res = Resolver(run.project)
    am = AstModel(run.project)
    run.rule("R11.1", "effects: the repair engine's only store into the document is `<Assignment>.value = ...`; it never stores key/children/sections/meta/target, never calls a mutator on node containers and never constructs nodes", 5)
    run.rule("R11.2", "log before change: every `return (x, True)` of an _attempt_* repair is dominated by repair_log.add(before=<the original value>, after=<x or str(x)>, tier=RepairTier.REPAIR); callers apply a value only when was_repaired; tools surface the whole log", 6)
    run.rule("R11.3", "guards first: in repair_value the literal-zone, `not fix`, missing field_def/pattern/constraints and `value is None` returns dominate the repair loop", 6)
    run.rule("R11.4", "unique match: the case-fold return is reached only when the comparisons on len(matches) leave exactly [1,1]; matches are the case-insensitive equals; an exact match returns unchanged first", 3)
    run.rule("R11.5", "finiteness and kind: the coercion return is reached only for NUMBER constraints on str values and, on the float branch, after math.isfinite", 3)
    run.rule("R11.6", "gating: every call of repair(..., fix=True) is control-dependent on the caller's fix/lenient flag; _apply_schema_repairs runs only under `fix and schema is not None`; repair_value(fix=True) has no other caller", 5)
    run.rule("R11.7", "the inline META case-fold of octave_write stores only into an existing META key, only the unique case-insensitive match, and records it in corrections", 3)
    run.rule("R11.8", "octave_write copies the RepairLog of repair(fix=True) into corrections before any later step that can fail: every path (exception edges included) from the repair call to the write of the file passes the copy", 1)
    check_write_reports(run, res, "R11.8", None)
    _own_outcome(run)

    mod = run.project.mod("core.repair")
    reach = res.reachable_from([REPAIR_ROOT]) | {fi.fqn for fi in mod.functions.values()}
    repair_funcs = [res.func_by_fqn(f) for f in sorted(reach) if f.startswith("octave_mcp.core.repair:")]

    # ---------------------------------------------------------------- R11.1
    n_writes = 0
    for fi in repair_funcs:
        for node, kind, fld in am.ast_writes(fi, res):
            n_writes += 1
            ok = kind == "store" and fld == "value"
            run.instance("R11.1", fi.module.loc(node), f"{fi.qualname}: {kind} of `.{fld}`: {norm(node)}", ok=ok)
            if not ok:
                run.violation("R11.1", fi.module, fi.qualname, getattr(node, "_parent", node) if isinstance(node, (ast.Attribute, ast.Subscript)) else node, f"repair {kind} on document field `.{fld}`: repair may only replace an existing assignment's value, never keys, nesting, order, targets or META")
        for call, cls in am.constructions(fi):
            run.instance("R11.1", fi.module.loc(call), f"{fi.qualname}: constructs {cls}", ok=False)
            run.violation("R11.1", fi.module, fi.qualname, call, f"repair constructs a {cls}: fields, blocks and values are never invented by repair")
        run.instance("R11.1", fi.module.loc(fi.node), f"{fi.qualname}: scanned for document writes and node constructions", ok=True, nontrivial=False)
    if n_writes < 1:
        raise AnalysisError("repair.py: the `node.value = ...` store was not found")
    # other functions reached from repair() outside repair.py must not write the AST at all
    for f in sorted(reach):
        fi = res.func_by_fqn(f)
        if fi in repair_funcs or fi.module.name.endswith("repair_log"):
            continue
        for node, kind, fld in am.ast_writes(fi, res):
            run.violation("R11.1", fi.module, fi.qualname, node, f"function reached from repair() performs a document {kind} on `.{fld}`")

    # ---------------------------------------------------------------- R11.2
    attempts = [fi for fi in repair_funcs if fi.name.startswith("_attempt_")]
    if len(attempts) < 2:
        raise AnalysisError("fewer than 2 _attempt_* functions in repair.py")
    for fi in attempts:
        cfg = CFG(fi.node)
        pvalue = fi.node.args.args[0].arg  # type: ignore[attr-defined]
        plog = [a.arg for a in fi.node.args.args if "log" in a.arg]  # type: ignore[attr-defined]
        adds = [n for n in cfg.nodes if n.ast is not None and any(isinstance(c, ast.Call) and isinstance(c.func, ast.Attribute) and c.func.attr == "add" and isinstance(c.func.value, ast.Name) and c.func.value.id in plog for c in ast.walk(n.ast))]
        for rn in [n for n in cfg.nodes if isinstance(n.ast, ast.Return) and _true_pair(n.ast.value)]:
            x = rn.ast.value.elts[0]  # type: ignore[union-attr]
            dom_adds = [a for a in adds if cfg.dominated_by(rn.id, a.id)]
            ok = False
            detail = "no repair_log.add dominates this return"
            for a in dom_adds:
                call = [c for c in ast.walk(a.ast) if isinstance(c, ast.Call) and isinstance(c.func, ast.Attribute) and c.func.attr == "add"][0]  # type: ignore[arg-type]
                kw = {k.arg: k.value for k in call.keywords}
                before_ok = "before" in kw and is_name(kw["before"], pvalue) and not _rebound(fi, pvalue)
                after = kw.get("after")
                after_ok = after is not None and (ast.dump(after) == ast.dump(x) or (isinstance(after, ast.Call) and ast.unparse(after.func) == "str" and len(after.args) == 1 and ast.dump(after.args[0]) == ast.dump(x)))
                tier_ok = "tier" in kw and ast.unparse(kw["tier"]) == "RepairTier.REPAIR"
                if before_ok and after_ok and tier_ok:
                    ok = True
                else:
                    detail = f"before is the original value={before_ok}, after is the returned value={after_ok}, tier REPAIR={tier_ok}"
            run.instance("R11.2", f"{fi.module.relpath}:{rn.lineno}", f"{fi.qualname}: `{norm(rn.ast)}` is dominated by a faithful repair_log.add", ok=ok)
            if not ok:
                run.violation("R11.2", fi.module, fi.qualname, rn.ast, f"a changed value is returned without a log entry recording exactly this change: {detail}")  # type: ignore[arg-type]
        # nothing but (value_param, False) or (x, True) is returned
        for rn in [n for n in cfg.nodes if isinstance(n.ast, ast.Return)]:
            v = rn.ast.value  # type: ignore[union-attr]
            if _true_pair(v):
                continue
            ok = isinstance(v, ast.Tuple) and len(v.elts) == 2 and is_name(v.elts[0], pvalue) and isinstance(v.elts[1], ast.Constant) and v.elts[1].value is False
            # a dispatcher hands its own value to another _attempt_* function and returns that function's pair
            if not ok and isinstance(v, ast.Call) and isinstance(v.func, ast.Name) and any(a.name == v.func.id and a is not fi for a in attempts) and v.args and is_name(v.args[0], pvalue) and not _rebound(fi, pvalue):
                ok = True
            if not ok:
                run.violation("R11.2", fi.module, fi.qualname, rn.ast, "an _attempt_* repair returns something other than (original value, False) or (new value, True)")  # type: ignore[arg-type]
    # repair_value / _repair_ast_node apply only when the callee reported a repair
    rv = mod.func("repair_value")
    # every attempt is made on the field's own (running) value: the first argument is the value parameter or the local that
    # starts as it and is only ever replaced by an attempt's result
    rv_param = rv.node.args.args[0].arg  # type: ignore[attr-defined]
    running = {rv_param}
    for n in walk_no_nested(rv.node):
        if isinstance(n, ast.Assign) and len(n.targets) == 1 and isinstance(n.targets[0], ast.Name) and is_name(n.value, rv_param):
            running.add(n.targets[0].id)
    for c in walk_no_nested(rv.node):
        if isinstance(c, ast.Call) and isinstance(c.func, ast.Name) and c.func.id.startswith("_attempt_"):
            ok = bool(c.args) and isinstance(c.args[0], ast.Name) and c.args[0].id in running
            run.instance("R11.2", mod.loc(c), f"repair_value: `{norm(c)}` works on the field's own value", ok=ok)
            if not ok:
                run.violation("R11.2", mod, rv.qualname, c, "a repair attempt is made on something other than the field's own value: what is logged as `before` (and compared with the constraint) is not what the document holds")
    for n in walk_no_nested(rv.node):
        if isinstance(n, ast.Assign) and any(is_name(t, "current_value") for t in n.targets) and not is_name(n.value, rv.node.args.args[0].arg):  # type: ignore[attr-defined]
            cfg = CFG(rv.node)
            nodes = cfg.node_for_stmt_containing(n)
            ok = all(any(isinstance(t, ast.Name) and val is True and t.id.startswith("did") for t, val in branch_conditions(cfg, x)) for x in nodes)
            run.instance("R11.2", mod.loc(n), f"repair_value: `{norm(n)}` only under did_repair", ok=ok)
            if not ok:
                run.violation("R11.2", mod, rv.qualname, n, "repair_value adopts a value without the attempt having reported (and logged) a repair")
    ran = mod.func("_repair_ast_node")
    cfg = CFG(ran.node)
    stores = [(node, kind, fld) for node, kind, fld in am.ast_writes(ran, res)]
    for node, kind, fld in stores:
        nodes = cfg.node_for_stmt_containing(node)
        conds = [c for x in nodes for c in branch_conditions(cfg, x)]
        ok = any(isinstance(t, ast.Name) and val is True and "repaired" in t.id for t, val in conds)
        st = getattr(node, "_parent", None)
        src_ok = isinstance(st, ast.Assign) and isinstance(st.value, ast.Name) and any(isinstance(v, ast.Call) and ast.unparse(v.func) == "repair_value" for _, v in _assignments(ran, st.value.id))
        run.instance("R11.2", mod.loc(node), f"_repair_ast_node: `{norm(st) if st else norm(node)}` only under was_repaired with the value returned by repair_value", ok=ok and src_ok)
        if not (ok and src_ok):
            run.violation("R11.2", mod, ran.qualname, st or node, "the document is written without repair_value having reported a (logged) repair, or with a value that is not repair_value's result")
    # tools surface the whole log
    for modname, qual in (("mcp.validate", "ValidateTool.execute"), ("mcp.write", "WriteTool.execute")):
        fi = run.project.mod(modname).func(qual)
        cfg = CFG(fi.node)
        calls = [n for n in walk_no_nested(fi.node) if isinstance(n, ast.Call) and ast.unparse(n.func) == "repair"]
        for c in calls:
            st = getattr(c, "_parent", None)
            logvar = None
            if isinstance(st, ast.Assign) and isinstance(st.targets[0], ast.Tuple) and len(st.targets[0].elts) == 2 and isinstance(st.targets[0].elts[1], ast.Name):
                logvar = st.targets[0].elts[1].id
            uses = [n for n in walk_no_nested(fi.node) if isinstance(n, ast.Attribute) and n.attr == "repairs" and is_name(n.value, logvar or "\0")]
            iter_ok = False
            for u in uses:
                par = getattr(u, "_parent", None)
                if isinstance(par, ast.For) and par.iter is u:
                    # loop body appends an entry built from the loop variable, unconditionally
                    body_calls = [x for x in par.body if isinstance(x, ast.Expr) and isinstance(x.value, ast.Call) and isinstance(x.value.func, ast.Attribute) and x.value.func.attr == "append"]
                    iter_ok = iter_ok or bool(body_calls)
                if isinstance(par, ast.comprehension) and par.iter is u and not par.ifs:
                    iter_ok = True
            after_call = bool(uses) and all(cfg.node_for_stmt_containing(u) and cfg.node_for_stmt_containing(c) and any(cfg.dominated_by(a, b) for a in cfg.node_for_stmt_containing(u) for b in cfg.node_for_stmt_containing(c)) for u in uses)
            ok = logvar is not None and iter_ok and after_call
            run.instance("R11.2", fi.module.loc(c), f"{qual}: every entry of the RepairLog returned by repair() is copied into the response", ok=ok)
            if not ok:
                run.violation("R11.2", fi.module, qual, c, "the RepairLog returned by repair() is not copied entry-by-entry (unfiltered) into the tool's response")
    fi = run.project.mod("cli.main").func("validate")
    for c in [n for n in walk_no_nested(fi.node) if isinstance(n, ast.Call) and ast.unparse(n.func) == "repair"]:
        st = getattr(c, "_parent", None)
        logvar = st.targets[0].elts[1].id if isinstance(st, ast.Assign) and isinstance(st.targets[0], ast.Tuple) and isinstance(st.targets[0].elts[1], ast.Name) else None
        uses = [n for n in walk_no_nested(fi.node) if isinstance(n, ast.Name) and n.id == logvar and isinstance(n.ctx, ast.Load)]
        run.instance("R11.2", fi.module.loc(c), "cli validate --fix: the RepairLog returned by repair() is shown to the user", ok=bool(uses))
        if not uses:
            run.violation("R11.2", fi.module, fi.qualname, c, "`octave validate --fix` discards the RepairLog: values are changed in the printed canonical text with no record of before/after",
                          failing_input="octave validate --schema <schema with ENUM[ACTIVE,...]> --fix on a document with STATUS::active prints STATUS::ACTIVE and no repair entry")

    # RepairLog.add records unconditionally and faithfully; to_dict passes every field through
    rlm = run.project.mod("core.repair_log")
    addf = rlm.func("RepairLog.add")
    acfg = CFG(addf.node)
    appends = [n for n in acfg.nodes if n.ast is not None and any(isinstance(c, ast.Call) and isinstance(c.func, ast.Attribute) and c.func.attr == "append" and ast.unparse(c.func.value) == "self.repairs" for c in ast.walk(n.ast))]
    ok = len(appends) == 1 and not branch_conditions(acfg, appends[0].id) and acfg.all_paths_pass(acfg.entry, acfg.exit, lambda nn: nn.id == appends[0].id) is None
    if ok:
        call = [c for c in ast.walk(appends[0].ast) if isinstance(c, ast.Call) and ast.unparse(c.func) == "RepairEntry"]  # type: ignore[arg-type]
        params = [a.arg for a in addf.node.args.args][1:]  # type: ignore[attr-defined]
        ok = len(call) == 1 and [ast.unparse(a) for a in call[0].args] + [ast.unparse(k.value) for k in call[0].keywords] == params
    other_writes = [n for fi2 in rlm.cls("RepairLog").methods.values() for n in walk_no_nested(fi2.node) if isinstance(n, ast.Call) and isinstance(n.func, ast.Attribute) and n.func.attr in ("pop", "remove", "clear", "insert", "sort", "reverse") and ast.unparse(n.func.value) == "self.repairs"]
    other_writes += [n for fi2 in rlm.cls("RepairLog").methods.values() for n in walk_no_nested(fi2.node) if isinstance(n, ast.Attribute) and isinstance(n.ctx, (ast.Store, ast.Del)) and n.attr == "repairs"]
    run.instance("R11.2", rlm.loc(addf.node), "RepairLog.add appends one RepairEntry built from its own arguments on every path, unconditionally; the log is never pruned", ok=ok and not other_writes)
    if not (ok and not other_writes):
        run.violation("R11.2", rlm, addf.qualname, other_writes[0] if other_writes else "self.repairs.append(RepairEntry(...)) on every path", "RepairLog.add does not record every call (conditional / de-duplicated / rewritten entry), or the log is pruned: a change applied to the document would have no log entry")

    # ---------------------------------------------------------------- R11.3
    cfg = CFG(rv.node)
    loops = [n for n in cfg.nodes if n.kind == "iter"]
    if not loops:
        raise AnalysisError("repair_value: repair loop not found")
    pv, pfd, _, pfix = [a.arg for a in rv.node.args.args][:4]  # type: ignore[attr-defined]
    def need_for(pv, pfd, pfix):
        return {
            "literal zone": lambda t, val: isinstance(t, ast.Call) and ast.unparse(t.func) == "isinstance" and "LiteralZoneValue" in ast.unparse(t.args[1]) and is_name(t.args[0], pv) and val is False,
            "not fix": lambda t, val: (isinstance(t, ast.UnaryOp) and isinstance(t.op, ast.Not) and is_name(t.operand, pfix) and val is False) or (is_name(t, pfix) and val is True),
            "field_def is None": lambda t, val: isinstance(t, ast.Compare) and is_name(t.left, pfd) and isinstance(t.ops[0], ast.Is) and val is False,
            "pattern is None": lambda t, val: isinstance(t, ast.Compare) and ast.unparse(t.left).endswith(".pattern") and isinstance(t.ops[0], ast.Is) and val is False,
            "constraints is None": lambda t, val: isinstance(t, ast.Compare) and ast.unparse(t.left).endswith(".constraints") and isinstance(t.ops[0], ast.Is) and val is False,
            "value is None": lambda t, val: isinstance(t, ast.Compare) and is_name(t.left, pv) and isinstance(t.ops[0], ast.Is) and val is False,
        }

    need = need_for(pv, pfd, pfix)

    def via_helper(name: str, conds) -> bool:
        """the loop runs only where `V` is truthy, V = helper(field_def), and the helper returns a non-empty result only
        where the guard `name` has been passed (every other return is an empty literal)"""
        for t, val in conds:
            v = t.operand if isinstance(t, ast.UnaryOp) and isinstance(t.op, ast.Not) else t
            truthy = (val is True) if v is t else (val is False)
            if not (isinstance(v, ast.Name) and truthy):
                continue
            defs = [d for _st, d in _assignments(rv, v.id)]
            # the same thing read in place (the helper inlined, or written out): V is bound to an empty literal or, under the
            # guard, to the real list - so a truthy V means the guard was passed
            pairs = list(_assignments(rv, v.id))
            nonempty = [(stn, d) for stn, d in pairs if not (isinstance(d, (ast.List, ast.Tuple)) and not d.elts) and not (isinstance(d, ast.Constant) and not d.value)]
            if len(pairs) >= 2 and nonempty and all(any(need[name](t2, v2) for x in cfg.node_for_stmt_containing(stn) for t2, v2 in atomic_conditions(cfg, x)) for stn, _d in nonempty):
                return True
            if len(defs) != 1 or not (isinstance(defs[0], ast.Call) and isinstance(defs[0].func, ast.Name) and mod.has_func(defs[0].func.id)):
                continue
            call = defs[0]
            h = mod.func(call.func.id)
            hparams = [a.arg for a in h.node.args.args]  # type: ignore[attr-defined]
            if len(call.args) != 1 or not is_name(call.args[0], pfd) or len(hparams) != 1 or _rebound(h, hparams[0]):
                continue
            hneed = need_for("\0", hparams[0], "\0")[name]
            hcfg = CFG(h.node)
            rets = [n for n in hcfg.nodes if isinstance(n.ast, ast.Return)]
            nonempty = [n for n in rets if not (isinstance(n.ast.value, (ast.List, ast.Tuple)) and not n.ast.value.elts) and not (isinstance(n.ast.value, ast.Constant) and not n.ast.value.value)]  # type: ignore[union-attr]
            if rets and all(any(hneed(t2, v2) for t2, v2 in atomic_conditions(hcfg, n.id)) for n in nonempty):
                return True
        return False

    for lp in loops:
        conds = atomic_conditions(cfg, lp.id)
        for name, pred in need.items():
            ok = any(pred(t, val) for t, val in conds) or (name in ("field_def is None", "pattern is None", "constraints is None") and via_helper(name, conds))
            run.instance("R11.3", f"{mod.relpath}:{lp.lineno}", f"repair_value: guard `{name}` returns before the repair loop", ok=ok)
            if not ok:
                run.violation("R11.3", mod, rv.qualname, f"guard: {name}", f"the repair loop of repair_value can be reached without the `{name}` guard having returned the value unchanged", line=lp.lineno)
    # each guard returns the value unchanged
    for n in [n for n in cfg.nodes if isinstance(n.ast, ast.Return)]:
        v = n.ast.value  # type: ignore[union-attr]
        if isinstance(v, ast.Tuple) and len(v.elts) == 2 and isinstance(v.elts[1], ast.Constant) and v.elts[1].value is False:
            if not is_name(v.elts[0], pv):
                run.violation("R11.3", mod, rv.qualname, n.ast, "a no-repair return of repair_value does not return the original value")  # type: ignore[arg-type]

    # ---------------------------------------------------------------- R11.4
    ec = mod.func("_attempt_enum_casefold")
    _unique_match(run, ec, mod)

    # ---------------------------------------------------------------- R11.5
    tc = mod.func("_attempt_type_coercion")
    cfg = CFG(tc.node)
    pv = tc.node.args.args[0].arg  # type: ignore[attr-defined]
    succ = [n for n in cfg.nodes if isinstance(n.ast, ast.Return) and _true_pair(n.ast.value)]
    if not succ:
        raise AnalysisError("_attempt_type_coercion: success return not found")
    for rn in succ:
        conds = atomic_conditions(cfg, rn.id)
        kind_ok = any(isinstance(t, ast.Compare) and isinstance(t.ops[0], ast.NotEq) and any(isinstance(c, ast.Constant) and c.value == "NUMBER" for c in ast.walk(t)) and val is False for t, val in conds)
        str_ok = any(isinstance(t, ast.UnaryOp) and isinstance(t.op, ast.Not) and isinstance(t.operand, ast.Call) and ast.unparse(t.operand.func) == "isinstance" and is_name(t.operand.args[0], pv) and ast.unparse(t.operand.args[1]) == "str" and val is False for t, val in conds)
        run.instance("R11.5", f"{mod.relpath}:{rn.lineno}", "_attempt_type_coercion: success only for NUMBER constraints on str values", ok=kind_ok and str_ok)
        if not (kind_ok and str_ok):
            run.violation("R11.5", mod, tc.qualname, rn.ast, f"type coercion can succeed for a non-NUMBER constraint or a non-string value (NUMBER guard={kind_ok}, str guard={str_ok})")  # type: ignore[arg-type]
        x = rn.ast.value.elts[0]  # type: ignore[union-attr]
        # the returned number is converted from the text, never from another number: every binding of x is int(<text>) / float(<text>)
        if isinstance(x, ast.Name):
            text_names = {pv}
            for st2, v2 in _assignments(tc, x.id):
                pass
            for n2 in walk_no_nested(tc.node):
                if isinstance(n2, ast.Assign) and len(n2.targets) == 1 and isinstance(n2.targets[0], ast.Name) and isinstance(n2.value, ast.Call) and isinstance(n2.value.func, ast.Attribute) and n2.value.func.attr == "strip" and is_name(n2.value.func.value, pv):
                    text_names.add(n2.targets[0].id)
            for st2, v2 in _assignments(tc, x.id):
                okb = isinstance(v2, ast.Call) and ast.unparse(v2.func) in ("int", "float") and len(v2.args) == 1 and isinstance(v2.args[0], ast.Name) and v2.args[0].id in text_names
                run.instance("R11.5", mod.loc(st2), f"_attempt_type_coercion: `{norm(st2)}` converts the field's text directly", ok=okb)
                if not okb:
                    run.violation("R11.5", mod, tc.qualname, st2, "the coerced number is derived from something other than int(text)/float(text) of the field's own text (e.g. a float re-converted to int): digits the author never wrote end up in the document")
        floats = [n for n in cfg.nodes if isinstance(n.ast, ast.Assign) and isinstance(n.ast.value, ast.Call) and ast.unparse(n.ast.value.func) == "float" and any(ast.dump(t) == ast.dump(x).replace("Load", "Store") for t in n.ast.targets)]
        if not floats:
            run.note("_attempt_type_coercion: no float() branch found")
        for fn in floats:
            finite_tests = {n.id for n in cfg.nodes if n.kind == "test" and n.ast is not None and "isfinite" in ast.unparse(n.ast)}
            w = None
            if finite_tests:
                # path float-assign -> success that does not leave an isfinite test by its "finite" edge
                w = _path_avoiding_finite(cfg, fn.id, rn.id, finite_tests)
            ok = bool(finite_tests) and w is None
            run.instance("R11.5", f"{mod.relpath}:{fn.lineno}", "_attempt_type_coercion: every path float() -> success passes the math.isfinite test on its finite edge", ok=ok)
            if not ok:
                run.violation("R11.5", mod, tc.qualname, "math.isfinite guard after float()", "a float() result can be returned as a repair without having been tested finite (\"1e999\" would become inf)",
                              path=cfg.describe_path(w, mod.relpath) if w else "no isfinite test", line=fn.lineno)
        ints = [n for n in cfg.nodes if isinstance(n.ast, ast.Assign) and isinstance(n.ast.value, ast.Call) and ast.unparse(n.ast.value.func) == "int"]
        # conversion failures are caught: the conversions sit in a try whose handler returns (value, False)
        for cn in floats + ints:
            hs = [t for t, lab in cfg.succ[cn.id] if lab == "x" and cfg.nodes[t].kind == "handler"]
            # int(str) / float(str) raise ValueError: some handler reached from here must catch it
            def catches(h) -> bool:
                ty = getattr(cfg.nodes[h].ast, "type", None)
                if ty is None:
                    return True
                names = [ast.unparse(e).split(".")[-1] for e in (ty.elts if isinstance(ty, ast.Tuple) else [ty])]
                return any(nm in ("ValueError", "Exception", "BaseException") for nm in names)
            ok = any(catches(h) for h in hs)
            run.instance("R11.5", f"{mod.relpath}:{cn.lineno}", f"_attempt_type_coercion: `{norm(cn.ast)}` failure is handled (no repair)", ok=ok)
            if not ok:
                run.violation("R11.5", mod, tc.qualname, cn.ast, "a failing numeric conversion escapes instead of meaning 'no repair'")  # type: ignore[arg-type]

    # ---------------------------------------------------------------- R11.6
    _gating(run, res, am)

    # ---------------------------------------------------------------- R11.7
    _inline_meta_casefold(run, res, am)


def _true_pair(v: ast.AST | None) -> bool:
    return isinstance(v, ast.Tuple) and len(v.elts) == 2 and isinstance(v.elts[1], ast.Constant) and v.elts[1].value is True


def _rebound(fi: FuncInfo, name: str) -> bool:
    return any(isinstance(n, ast.Name) and n.id == name and isinstance(n.ctx, ast.Store) for n in walk_no_nested(fi.node))


def _assignments(fi: FuncInfo, name: str):
    for n in walk_no_nested(fi.node):
        if isinstance(n, ast.Assign):
            for t in n.targets:
                if is_name(t, name):
                    yield n, n.value
                elif isinstance(t, ast.Tuple):
                    for e in t.elts:
                        if is_name(e, name):
                            yield n, n.value


def _path_avoiding_finite(cfg: CFG, src: int, dst: int, tests: set[int]):
    prev: dict[int, int] = {}
    seen = {src}
    stack = [src]
    while stack:
        n = stack.pop()
        if n == dst:
            p = [n]
            while p[-1] != src:
                p.append(prev[p[-1]])
            return list(reversed(p))
        for s, lab in cfg.succ[n]:
            if lab == "x" or s in seen:
                continue
            if n in tests:
                t = cfg.nodes[n].ast
                neg = isinstance(t, ast.UnaryOp) and isinstance(t.op, ast.Not)
                finite_edge = "f" if neg else "t"
                if lab == finite_edge:
                    continue  # legitimately proven finite
            seen.add(s)
            prev[s] = n
            stack.append(s)
    return None


def interval_from_conditions(conds, var_text: str) -> tuple[float, float]:
    """feasible [lo, hi] of len(<var>) given (test, truth) conditions that compare it with integer constants"""
    lo, hi = 0.0, math.inf
    excluded: set[int] = set()
    inner = var_text[4:-1] if var_text.startswith("len(") and var_text.endswith(")") else None
    for t, val in conds:
        # truthiness of the collection itself: `if not xs` <=> len(xs) == 0, `if xs` <=> len(xs) >= 1
        tt, neg = (t.operand, True) if isinstance(t, ast.UnaryOp) and isinstance(t.op, ast.Not) else (t, False)
        if inner is not None and isinstance(tt, ast.Name) and tt.id == inner:
            truthy = val != neg
            if truthy:
                lo = max(lo, 1)
            else:
                hi = min(hi, 0)
            continue
        if not (isinstance(t, ast.Compare) and len(t.ops) == 1 and isinstance(t.left, ast.Call) and ast.unparse(t.left) == var_text and isinstance(t.comparators[0], ast.Constant) and isinstance(t.comparators[0].value, int)):
            continue
        c = t.comparators[0].value
        op = type(t.ops[0])
        if not val:
            op = {ast.Eq: ast.NotEq, ast.NotEq: ast.Eq, ast.Lt: ast.GtE, ast.LtE: ast.Gt, ast.Gt: ast.LtE, ast.GtE: ast.Lt}.get(op, op)
        if op is ast.Eq:
            lo, hi = max(lo, c), min(hi, c)
        elif op is ast.NotEq:
            excluded.add(c)
        elif op is ast.Lt:
            hi = min(hi, c - 1)
        elif op is ast.LtE:
            hi = min(hi, c)
        elif op is ast.Gt:
            lo = max(lo, c + 1)
        elif op is ast.GtE:
            lo = max(lo, c)
    while lo in excluded:
        lo += 1
    while hi in excluded and hi != math.inf:
        hi -= 1
    return lo, hi


def _unique_match(run: Run, fi: FuncInfo, mod) -> None:
    cfg = CFG(fi.node)
    pv = fi.node.args.args[0].arg  # type: ignore[attr-defined]
    succ = [n for n in cfg.nodes if isinstance(n.ast, ast.Return) and _true_pair(n.ast.value)]
    if not succ:
        raise AnalysisError(f"{fi.qualname}: success return not found")
    for rn in succ:
        x = rn.ast.value.elts[0]  # type: ignore[union-attr]
        # x = matches[0]
        mvar = None
        if isinstance(x, ast.Name):
            for st, v in _assignments(fi, x.id):
                if isinstance(v, ast.Subscript) and isinstance(v.value, ast.Name) and isinstance(v.slice, ast.Constant) and v.slice.value == 0:
                    mvar = v.value.id
            if mvar is None:
                # `(x,) = matches` / `[x] = matches`: unpacking of exactly one element
                for a in walk_no_nested(fi.node):
                    if isinstance(a, ast.Assign) and len(a.targets) == 1 and isinstance(a.targets[0], (ast.Tuple, ast.List)) and len(a.targets[0].elts) == 1 and is_name(a.targets[0].elts[0], x.id) and isinstance(a.value, ast.Name):
                        mvar = a.value.id
        elif isinstance(x, ast.Subscript) and isinstance(x.value, ast.Name):
            mvar = x.value.id
        conds = branch_conditions(cfg, rn.id)
        lo, hi = interval_from_conditions(conds, f"len({mvar})") if mvar else (0, math.inf)
        ok = mvar is not None and (lo, hi) == (1, 1)
        run.instance("R11.4", f"{mod.relpath}:{rn.lineno}", f"{fi.qualname}: at the case-fold return len({mvar}) is in [{lo},{hi}]", ok=ok)
        if not ok:
            run.violation("R11.4", mod, fi.qualname, rn.ast, f"the enum case-fold can be applied when the number of case-insensitive matches is in [{lo},{hi}], not exactly 1 (ambiguous or non-matching values would be replaced)")  # type: ignore[arg-type]
        # matches = [v for v in allowed if v.lower() == value.lower()]
        comp_ok = False
        if mvar:
            for st, v in _assignments(fi, mvar):
                if isinstance(v, ast.ListComp) and len(v.generators) == 1 and len(v.generators[0].ifs) >= 1:
                    g = v.generators[0]
                    cond = g.ifs[-1]
                    if isinstance(cond, ast.BoolOp) and isinstance(cond.op, ast.And):
                        cond = cond.values[-1]
                    if isinstance(cond, ast.Compare) and isinstance(cond.ops[0], ast.Eq) and isinstance(v.elt, ast.Name) and isinstance(g.target, ast.Name) and v.elt.id == g.target.id:
                        sides = [cond.left, cond.comparators[0]]
                        def folded(e, of):
                            if isinstance(e, ast.Call) and isinstance(e.func, ast.Attribute) and e.func.attr in ("lower", "casefold", "upper") and is_name(e.func.value, of):
                                return e.func.attr
                            if isinstance(e, ast.Name):
                                for _, vv in _assignments(fi, e.id):
                                    if isinstance(vv, ast.Call) and isinstance(vv.func, ast.Attribute) and vv.func.attr in ("lower", "casefold", "upper") and is_name(vv.func.value, of):
                                        return vv.func.attr
                            return None
                        a = folded(sides[0], g.target.id) or folded(sides[1], g.target.id)
                        b = folded(sides[0], pv) or folded(sides[1], pv) or folded(sides[0], "current") or folded(sides[1], "current")
                        comp_ok = a is not None and a == b
        run.instance("R11.4", f"{mod.relpath}:{rn.lineno}", f"{fi.qualname}: `{mvar}` holds exactly the allowed values equal to the value ignoring case", ok=comp_ok)
        if not comp_ok:
            run.violation("R11.4", mod, fi.qualname, f"{mvar} = [case-insensitive equals]", "the candidate list for the enum case-fold is not `allowed values whose lower() equals value.lower()` (prefix/substring/one-sided folding would replace non-matching values)", line=rn.lineno)
        exact_ok = any(isinstance(t, ast.Compare) and isinstance(t.ops[0], ast.In) and is_name(t.left, pv) and val is False for t, val in conds)
        str_ok = any(isinstance(t, ast.UnaryOp) and isinstance(t.op, ast.Not) and isinstance(t.operand, ast.Call) and ast.unparse(t.operand.func) == "isinstance" and val is False for t, val in conds)
        run.instance("R11.4", f"{mod.relpath}:{rn.lineno}", f"{fi.qualname}: exact matches and non-strings return unchanged first", ok=exact_ok and str_ok)
        if not (exact_ok and str_ok):
            run.violation("R11.4", mod, fi.qualname, "exact-match / str guards before case-fold", f"case-fold reachable without the exact-match guard ({exact_ok}) or the isinstance(str) guard ({str_ok})", line=rn.lineno)


# ---------------------------------------------------------------- R11.8 / R10.9 (octave_write: what is written vs what is reported)
def _write_tool_sites(run: Run, res: Resolver):
    """(function, cfg, repair-call nodes M, write nodes W, written variable, document variable)"""
    fi = run.project.mod("mcp.write").func("WriteTool.execute")
    cfg = CFG(fi.node)
    M, W = [], []
    written = None
    docvar = None
    for n in cfg.nodes:
        if n.ast is None or n.kind not in ("stmt", "with"):
            continue
        for c in walk_no_nested(n.ast):
            if not isinstance(c, ast.Call):
                continue
            if any(k.kind == "repo" and k.name == REPAIR_ROOT for k in res.resolve_call(fi, c)):
                fixkw = [k.value for k in c.keywords if k.arg == "fix"]
                if fixkw and isinstance(fixkw[0], ast.Constant) and fixkw[0].value is True:
                    M.append(n.id)
                    if c.args and isinstance(c.args[0], ast.Name):
                        docvar = c.args[0].id
            if isinstance(c.func, ast.Attribute) and c.func.attr == "write" and len(c.args) == 1 and isinstance(c.args[0], ast.Name) and isinstance(c.func.value, ast.Name):
                # the file object comes from os.fdopen(...) in an enclosing with
                cur = getattr(c, "_parent", None)
                while cur is not None and not isinstance(cur, ast.With):
                    cur = getattr(cur, "_parent", None)
                if cur is not None and any("fdopen" in ast.unparse(i.context_expr) for i in cur.items):
                    W.append(n.id)
                    written = c.args[0].id
    if not M or not W or written is None or docvar is None:
        raise AnalysisError(f"WriteTool.execute: repair call ({len(M)}), temp-file write ({len(W)}) or their variables not found")
    return fi, cfg, M, W, written, docvar


def check_write_reports(run: Run, res: Resolver, rule_log: str | None, rule_emit: str | None) -> None:
    fi, cfg, M, W, written, docvar = _write_tool_sites(run, res)
    mod = fi.module
    if rule_emit:
        # every non-exceptional path from a document mutation to the write re-emits the written text
        E = {n.id for n in cfg.nodes if n.kind == "stmt" and isinstance(n.ast, ast.Assign) and any(is_name(t, written) for t in n.ast.targets) and isinstance(n.ast.value, ast.Call) and ast.unparse(n.ast.value.func) == "emit" and n.ast.value.args and is_name(n.ast.value.args[0], docvar)}
        muts = list(M)
        for n in cfg.nodes:
            if n.kind == "stmt" and isinstance(n.ast, ast.Assign) and any(isinstance(t, ast.Subscript) and ast.unparse(t.value) == f"{docvar}.meta" for t in n.ast.targets):
                muts.append(n.id)
        from ..pathstate import Explorer

        for m in muts:
            bad = None
            ex = Explorer(cfg, relevant=lambda f: False)  # only constant boolean flags matter here (did_repair = True ... if did_repair:)
            hits = []

            def visit(st, hits=hits):
                if st[0] in E:
                    return "prune"
                if st[0] in W:
                    hits.append(st)
                    return "prune"
                return None

            # the statement right after the mutation usually sets the flag: start the exploration at the mutation itself
            ex.explore([(m, frozenset(), ())], visit)
            if hits:
                bad = ex.path_to(hits[0])
            run.instance(rule_emit, mod.loc(cfg.nodes[m].ast), f"WriteTool.execute: after `{norm(cfg.nodes[m].ast)[:60]}` every path to the temp-file write re-emits `{written}` from `{docvar}`", ok=bad is None)  # type: ignore[arg-type]
            if bad is not None:
                run.violation(rule_emit, mod, fi.qualname, f"stale {written} after {norm(cfg.nodes[m].ast)[:50]}", f"the document is changed by `{norm(cfg.nodes[m].ast)[:60]}` but a path to the write of `{written}` does not re-emit it: the status and corrections describe the repaired document while the file (and canonical_hash) hold the text from before the repair - VALIDATED is reported for text that is INVALID when validated again", path=[cfg.nodes[i].lineno for i in bad if cfg.nodes[i].lineno][:30])  # type: ignore[arg-type]
    if rule_log:
        # the repair log is copied into corrections before anything after the repair can fail
        def copies_log(nn) -> bool:
            a = nn.ast
            if a is None:
                return False
            if nn.kind == "iter" and ast.unparse(a).endswith(".repairs"):
                owner = nn.owner
                return isinstance(owner, ast.For) and any(isinstance(c, ast.Call) and isinstance(c.func, ast.Attribute) and c.func.attr in ("append", "extend") and "corrections" in ast.unparse(c.func.value) for c in ast.walk(owner))
            if nn.kind == "stmt":
                return any(isinstance(c, ast.Call) and isinstance(c.func, ast.Attribute) and c.func.attr in ("append", "extend") and "corrections" in ast.unparse(c.func.value) and ".repairs" in ast.unparse(c) for c in ast.walk(a))
            return False
        C = {n.id for n in cfg.nodes if copies_log(n)}
        if not C:
            run.violation(rule_log, mod, fi.qualname, "repair log -> corrections", "the entries of the RepairLog returned by repair(fix=True) are never copied into corrections")
        for m in M:
            bad = None
            for w in W:
                for s, lab in cfg.succ[m]:
                    if lab == "x":
                        continue  # repair() itself failing: nothing is re-emitted, the file keeps the unrepaired text
                    if s in C:
                        continue
                    p = cfg.all_paths_pass(s, w, lambda nn: nn.id in C, None)
                    if p is not None:
                        bad = p
            run.instance(rule_log, mod.loc(cfg.nodes[m].ast), "WriteTool.execute: after repair(fix=True) the log is copied into corrections before any step that can fail (exception edges included)", ok=bad is None)  # type: ignore[arg-type]
            if bad is not None:
                run.violation(rule_log, mod, fi.qualname, "repair log copied after steps that can fail", "after repair(fix=True) a path reaches the write of the file without the RepairLog entries having been copied into corrections (an exception in re-emission or re-validation is swallowed by the best-effort handler first): the file then contains repaired values that no correction reports", path=[cfg.nodes[i].lineno for i in bad if cfg.nodes[i].lineno][:30])


def flag_vars(fi, flags) -> set[str]:
    """locals/parameters that hold the caller's boolean flag: a parameter named <flag>, or the single binding
    `<v> = <params>.get("<flag>"[, False])` - identified by where the value comes from, not by the local's name"""
    out: set[str] = set()
    for fl in flags:
        if fl in [a.arg for a in fi.node.args.args + fi.node.args.kwonlyargs]:
            out.add(fl)
    for a in walk_no_nested(fi.node):
        if isinstance(a, ast.Assign) and len(a.targets) == 1 and isinstance(a.targets[0], ast.Name) and isinstance(a.value, ast.Call) and isinstance(a.value.func, ast.Attribute) and a.value.func.attr == "get" and a.value.args and isinstance(a.value.args[0], ast.Constant) and a.value.args[0].value in flags and (len(a.value.args) < 2 or (isinstance(a.value.args[1], ast.Constant) and a.value.args[1].value is False)):
            v = a.targets[0].id
            if len(list(_assignments(fi, v))) == 1:
                out.add(v)
    return out


def _gating(run: Run, res: Resolver, am: AstModel, rule: str = "R11.6") -> None:
    sites = [("mcp.validate", "ValidateTool.execute", ("fix",)), ("mcp.write", "WriteTool.execute", ("lenient",)), ("cli.main", "validate", ("fix",))]
    total = 0
    for fi in run.project.all_functions():
        for n in walk_no_nested(fi.node):
            if isinstance(n, ast.Call) and any(c.kind == "repo" and c.name == REPAIR_ROOT for c in res.resolve_call(fi, n)):
                total += 1
                entry = [s for s in sites if run.project.mod(s[0]).name == fi.module.name and s[1] == fi.qualname]
                cfg = CFG(fi.node)
                nodes = cfg.node_for_stmt_containing(n)
                fixkw = [k.value for k in n.keywords if k.arg == "fix"] + (n.args[2:3] if len(n.args) > 2 else [])
                fix_true = bool(fixkw) and isinstance(fixkw[0], ast.Constant) and fixkw[0].value is True
                fix_passthrough = bool(fixkw) and isinstance(fixkw[0], ast.Name)
                if not fix_true:
                    run.instance(rule, fi.module.loc(n), f"{fi.qualname}: repair() called with fix={'<caller flag>' if fix_passthrough else 'default False'}", ok=True)
                    continue
                flags = entry[0][2] if entry else ()
                # the flag is identified by where it comes from, not by the local's name: a parameter called <flag>, or the
                # single binding `<v> = params.get("<flag>"[, False])`
                flagvars: set[str] = set()
                for fl in flags:
                    if fl in [a.arg for a in fi.node.args.args + fi.node.args.kwonlyargs]:  # type: ignore[attr-defined]
                        flagvars.add(fl)
                for a in walk_no_nested(fi.node):
                    if isinstance(a, ast.Assign) and len(a.targets) == 1 and isinstance(a.targets[0], ast.Name) and isinstance(a.value, ast.Call) and isinstance(a.value.func, ast.Attribute) and a.value.func.attr == "get" and a.value.args and isinstance(a.value.args[0], ast.Constant) and a.value.args[0].value in flags and (len(a.value.args) < 2 or (isinstance(a.value.args[1], ast.Constant) and a.value.args[1].value is False)):
                        v = a.targets[0].id
                        if len(list(_assignments(fi, v))) == 1:
                            flagvars.add(v)
                ok = False
                for x in nodes:
                    for t, val in branch_conditions(cfg, x):
                        ops = t.values if isinstance(t, ast.BoolOp) and isinstance(t.op, ast.And) else [t]
                        if val is True and any(isinstance(o, ast.Name) and o.id in flagvars for o in ops):
                            ok = True
                run.instance(rule, fi.module.loc(n), f"{fi.qualname}: repair(fix=True) is control-dependent on the caller's {'/'.join(flags) or '?'} flag (default False)", ok=ok)
                if not ok:
                    run.violation(rule, fi.module, fi.qualname, n, "repair(..., fix=True) is reachable without the user's fix/lenient flag being set (values would change with fix off)")
    if total < 3:
        raise AnalysisError(f"only {total} call(s) of repair() found")
    mod = run.project.mod("core.repair")
    rp = mod.func("repair")
    cfg = CFG(rp.node)
    pfix = "fix"
    for n in walk_no_nested(rp.node):
        if isinstance(n, ast.Call) and ast.unparse(n.func) == "_apply_schema_repairs":
            nodes = cfg.node_for_stmt_containing(n)
            ok = all(any(val is True and any(is_name(o, pfix) for o in (t.values if isinstance(t, ast.BoolOp) and isinstance(t.op, ast.And) else [t])) for t, val in branch_conditions(cfg, x)) for x in nodes)
            run.instance(rule, mod.loc(n), "repair: _apply_schema_repairs only under `fix ...`", ok=ok)
            if not ok:
                run.violation(rule, mod, rp.qualname, n, "repair() applies schema repairs without testing its fix argument")
    # who may call repair_value(fix=True) and _apply_schema_repairs / _repair_ast_node
    allowed = {"_repair_ast_node": {"octave_mcp.core.repair:_repair_ast_node", "octave_mcp.core.repair:_apply_schema_repairs"},
               "_apply_schema_repairs": {"octave_mcp.core.repair:repair"},
               "repair_value": {"octave_mcp.core.repair:_repair_ast_node"}}
    for fi in run.project.all_functions():
        for n in walk_no_nested(fi.node):
            if isinstance(n, ast.Call):
                for c in res.resolve_call(fi, n):
                    if c.kind == "repo" and c.func is not None and c.func.module.name.endswith("core.repair") and c.func.qualname in allowed:
                        fixes = [k.value for k in n.keywords if k.arg == "fix"]
                        forced = c.func.qualname != "repair_value" or (fixes and isinstance(fixes[0], ast.Constant) and fixes[0].value is True)
                        if not forced:
                            continue
                        ok = fi.fqn in allowed[c.func.qualname]
                        run.instance(rule, fi.module.loc(n), f"{fi.qualname} calls {c.func.qualname} (repairing entry)", ok=ok)
                        if not ok:
                            run.violation(rule, fi.module, fi.qualname, n, f"{c.func.qualname} (which changes values unconditionally) is called from outside the gated repair() pipeline")


def _inline_meta_casefold(run: Run, res: Resolver, am: AstModel) -> None:
    fi = run.project.mod("mcp.write").func("WriteTool.execute")
    cfg = CFG(fi.node)
    writes = [(n, k, f) for n, k, f in am.ast_writes(fi, res)]
    n_meta = 0
    for node, kind, fld in writes:
        st = getattr(node, "_parent", None)
        if fld == "raw_frontmatter" and kind == "store":
            continue  # GH#302 frontmatter inheritance (content mode), not a repair
        if fld == "meta" and kind == "item-store" and isinstance(node, ast.Subscript):
            n_meta += 1
            key = node.slice
            nodes = cfg.node_for_stmt_containing(node)
            conds = [c for x in nodes for c in atomic_conditions(cfg, x)]  # (`not A or B` false is A and not B)
            # current = doc.meta.get(key); isinstance(current, str) true  => key exists
            cur = None
            for t, val in conds:
                tt = t.operand if isinstance(t, ast.UnaryOp) and isinstance(t.op, ast.Not) else t
                want = False if tt is not t else True
                if isinstance(tt, ast.Call) and ast.unparse(tt.func) == "isinstance" and ast.unparse(tt.args[1]) == "str" and val is want and isinstance(tt.args[0], ast.Name):
                    for _, v in _assignments(fi, tt.args[0].id):
                        if isinstance(v, ast.Call) and ast.unparse(v.func).endswith(".meta.get") and ast.dump(v.args[0]) == ast.dump(key):
                            cur = tt.args[0].id
            # the list whose single element is stored: <stored> = <M>[0]
            mvar = "matches"
            rhs = st.value if isinstance(st, ast.Assign) else None
            if isinstance(rhs, ast.Name):
                for _, v in _assignments(fi, rhs.id):
                    if isinstance(v, ast.Subscript) and isinstance(v.value, ast.Name) and isinstance(v.slice, ast.Constant) and v.slice.value == 0:
                        mvar = v.value.id
            elif isinstance(rhs, ast.Subscript) and isinstance(rhs.value, ast.Name):
                mvar = rhs.value.id
            lo, hi = interval_from_conditions(conds, f"len({mvar})")
            lvars = flag_vars(fi, ("lenient",))
            lenient = any(val is True and (lvars & names_in(t)) for t, val in conds)
            ok = cur is not None and (lo, hi) == (1, 1) and lenient
            run.instance("R11.7", fi.module.loc(node), f"WriteTool.execute: `{norm(st)}` only for an existing str META value, unique match [{lo},{hi}], under lenient", ok=ok)
            if not ok:
                run.violation("R11.7", fi.module, fi.qualname, st or node, f"the inline META repair stores into doc.meta without (existing string value={cur is not None}, exactly one match=[{lo},{hi}], lenient flag={lenient})")
            # followed by a corrections entry with before/after
            succ_append = False
            for x in nodes:
                for s, lab in cfg.succ[x]:
                    pass
            blk = getattr(st, "_parent", None)
            body = getattr(blk, "body", []) if blk is not None else []
            for other in body:
                if isinstance(other, ast.Expr) and isinstance(other.value, ast.Call) and isinstance(other.value.func, ast.Attribute) and other.value.func.attr == "append" and "corrections" in ast.unparse(other.value.func.value) and other.value.args and isinstance(other.value.args[0], ast.Dict):
                    keys = {k.value for k in other.value.args[0].keys if isinstance(k, ast.Constant)}
                    if {"before", "after", "tier"} <= keys:
                        succ_append = True
            run.instance("R11.7", fi.module.loc(node), "WriteTool.execute: the inline META repair is recorded in corrections with before/after/tier", ok=succ_append)
            if not succ_append:
                run.violation("R11.7", fi.module, fi.qualname, "corrections entry for inline META repair", "the inline META case-fold changes a value without a corrections entry carrying before/after/tier", line=node.lineno)
        else:
            run.violation("R11.7", fi.module, fi.qualname, st or node, f"octave_write's execute performs a document {kind} on `.{fld}` outside _apply_changes/_apply_mutations and the inline META repair")
    if n_meta < 1:
        raise AnalysisError("WriteTool.execute: inline META repair store not found")
    run.instance("R11.7", fi.module.loc(fi.node), f"WriteTool.execute: {len(writes)} document write(s) classified", ok=True, nontrivial=False)
