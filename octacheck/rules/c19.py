"""C19 Tools cannot be steered outside the intended files.

Decided: path validation dominates every filesystem access on a user-supplied path; the three
validator copies agree; symlink tests are not weakened by a link-following existence test; schema
names are pattern-checked before any join; frozen digests select the file and are compared before
it is returned; containment roots are not derived from the untrusted document.
"""
from __future__ import annotations

import ast

from .. import fsmodel as fsm
from ..cfg import CFG, branch_conditions
from ..dataflow import locals_from_params_get, param_names, regex_alphabet, regex_anchored, taint_closure
from ..fsmodel import FuncAnalysis, is_name, names_in
from ..report import Run
from ..resolve import Resolver
from ..source import AnalysisError, FuncInfo, RegexConst, norm, walk_no_nested

# (module, function, how the user path enters, validator callee suffixes, classes of effects that need the guard)
ENTRY_TABLE = [
    ("mcp.write", "WriteTool.execute", ("key", "target_path"), ("WriteTool._validate_path",)),
    ("mcp.validate", "ValidateTool.execute", ("key", "file_path"), ("ValidateTool._validate_path",)),
    ("core.file_ops", "atomic_write_octave", ("param", "target_path"), (":validate_octave_path",)),
    ("cli.main", "write", ("param", "file"), (":validate_octave_path",)),
    ("cli.main", "normalize", ("param", "output"), (":validate_octave_path",)),
    ("cli.main", "seal", ("param", "output"), (":validate_octave_path",)),
    ("cli.main", "hydrate", ("param", "output"), (":validate_octave_path",)),
]
VALIDATORS = [("mcp.write", "WriteTool._validate_path"), ("mcp.validate", "ValidateTool._validate_path"), ("core.file_ops", "validate_octave_path")]
EXPECTED_SUFFIXES = frozenset({".oct.md", ".octave", ".md"})
GUARDED_EFFECTS = {fsm.READ, fsm.WRITE_OPEN, fsm.LISTDIR, fsm.STAT_FOLLOW, fsm.STAT_NOFOLLOW} | fsm.MUTATING
DEEP_EFFECTS = {fsm.READ, fsm.WRITE_OPEN, fsm.LISTDIR} | fsm.MUTATING  # what counts inside callees


def _is_validator_result(val: ast.AST) -> bool:
    return isinstance(val, ast.Call) and ast.unparse(val.func).split(".")[-1] in ("_validate_path", "validate_octave_path", "atomic_write_octave")


PATH_REWRITERS = {"expanduser", "expandvars", "normpath", "realpath", "abspath"}


def check_no_path_rewrite(run: Run) -> None:
    run.rule("R19.8", "the path that is accessed is the path that was validated: in the tools and the CLI no user-supplied path is passed through expanduser / expandvars / normpath / realpath / abspath (the validator inspects the string as given; a rewritten path can pass through symlinks and suffixes it never saw)", 1)
    n = 0
    for short in ("mcp.validate", "mcp.write", "mcp.eject", "mcp.compile_grammar", "cli.main", "core.file_ops"):
        m = run.project.mod(short)
        for fi in m.functions.values():
            for c in walk_no_nested(fi.node):
                if isinstance(c, ast.Call) and isinstance(c.func, ast.Attribute) and c.func.attr in PATH_REWRITERS:
                    # only a rewritten path that is then ACCESSED matters (a rewritten spelling inside a message does not)
                    par = getattr(c, "_parent", None)
                    accessed = False
                    FS = {"open", "read_text", "read_bytes", "write_text", "write_bytes", "exists", "is_file", "is_dir", "stat", "lstat", "unlink", "mkdir", "iterdir", "glob", "rglob", "resolve", "replace", "rename", "touch", "is_symlink"}
                    if isinstance(par, ast.Attribute) and par.attr in FS:
                        accessed = True
                    if isinstance(par, ast.Call) and c in par.args and ast.unparse(par.func) in ("open", "Path", "os.open", "os.replace", "os.stat", "os.path.exists"):
                        accessed = True
                    if isinstance(par, ast.Assign) and len(par.targets) == 1 and isinstance(par.targets[0], ast.Name):
                        v = par.targets[0].id
                        for u in walk_no_nested(fi.node):
                            if isinstance(u, ast.Call) and isinstance(u.func, ast.Attribute) and isinstance(u.func.value, ast.Name) and u.func.value.id == v and u.func.attr in FS:
                                accessed = True
                            if isinstance(u, ast.Call) and any(isinstance(a, ast.Name) and a.id == v for a in u.args) and (ast.unparse(u.func) in ("open", "Path", "os.open", "os.replace", "os.stat") or (isinstance(u.func, ast.Attribute) and u.func.attr in ("_validate_path", "read_text"))):
                                accessed = True
                            if isinstance(u, ast.Return) and u.value is not None and any(isinstance(x, ast.Name) and x.id == v for x in ast.walk(u.value)):
                                accessed = True
                    if not accessed:
                        run.instance("R19.8", m.loc(c), f"{fi.qualname}: `{norm(c)[:60]}` is not used for a file access", nontrivial=False)
                        continue
                    n += 1
                    run.instance("R19.8", m.loc(c), f"{fi.qualname}: `{norm(c)[:60]}`", ok=False)
                    run.violation("R19.8", m, fi.qualname, f"{c.func.attr}() on a path", f"`{norm(c)[:70]}` rewrites a path after (or instead of) validation: the validator sees the spelling the caller sent (where `~` is an ordinary directory name), the file system sees the rewritten one, so a symlink or a disallowed suffix behind the rewrite is never checked")
    run.instance("R19.8", "src/octave_mcp", f"{n} path-rewriting call(s) in the tools, the CLI and file_ops", ok=n == 0)
    ctl = ast.parse("Path(p).expanduser()").body[0].value  # type: ignore[attr-defined]
    run.control("R19.8", "a `.expanduser()` call is recognised", isinstance(ctl, ast.Call) and ctl.func.attr in PATH_REWRITERS)  # type: ignore[attr-defined]


def _inline_helper(fi: FuncInfo, call: ast.Call) -> ast.AST | None:
    """the value of `self.h(args)` / `h(args)` when h (same module) is straight-line: simple assignments then `return <expr>`"""
    name = call.func.attr if isinstance(call.func, ast.Attribute) and isinstance(call.func.value, ast.Name) and call.func.value.id in ("self", "cls") else call.func.id if isinstance(call.func, ast.Name) else None
    if name is None or call.keywords:
        return None
    cands = [f for f in fi.module.functions.values() if f.name == name and (f.cls == fi.cls or f.cls is None)]
    if len(cands) != 1:
        return None
    h = cands[0]
    body = [st for st in h.node.body if not (isinstance(st, ast.Expr) and isinstance(st.value, ast.Constant))]  # type: ignore[attr-defined]
    if not body or not isinstance(body[-1], ast.Return) or body[-1].value is None:
        return None
    params = [a.arg for a in h.node.args.args if a.arg not in ("self", "cls")]  # type: ignore[attr-defined]
    if len(params) != len(call.args):
        return None
    env: dict[str, ast.AST] = dict(zip(params, call.args))
    for st in body[:-1]:
        if not (isinstance(st, ast.Assign) and len(st.targets) == 1 and isinstance(st.targets[0], ast.Name)):
            return None
        env[st.targets[0].id] = _subst(st.value, env)
    return _subst(body[-1].value, env)


def _subst(e: ast.AST, env: dict[str, ast.AST]) -> ast.AST:
    import copy

    class S(ast.NodeTransformer):
        def visit_Name(self, n: ast.Name):  # noqa: N802
            return copy.deepcopy(env[n.id]) if isinstance(n.ctx, ast.Load) and n.id in env else n

    return S().visit(copy.deepcopy(e))


def _reject_normal_form(fi: FuncInfo, loop: ast.For) -> frozenset:
    """set of paths through one pass of the walk loop that end in a failure return; a path is the set of its atomic conditions
    (text, truth). Locals bound in the pass are inlined, `Path(x).parts` is read as `x.parts`, one-expression helpers are inlined,
    `A and B` true / `A or B` false are split, `not` flips. Statements of other kinds take part verbatim."""
    out: set[frozenset] = set()

    def norm_text(e: ast.AST, env: dict[str, ast.AST]) -> str:
        e = _subst(e, env)

        class P(ast.NodeTransformer):
            def visit_Call(self, n: ast.Call):  # noqa: N802
                self.generic_visit(n)
                if isinstance(n.func, ast.Name) and n.func.id == "Path" and len(n.args) == 1 and isinstance(n.args[0], ast.Name) and not n.keywords:
                    return n.args[0]
                return n

        return ast.unparse(P().visit(e))

    def atoms(t: ast.AST, val: bool, env: dict[str, ast.AST]) -> list[tuple[str, bool]]:
        if isinstance(t, ast.UnaryOp) and isinstance(t.op, ast.Not):
            return atoms(t.operand, not val, env)
        if isinstance(t, ast.BoolOp) and ((isinstance(t.op, ast.And) and val) or (isinstance(t.op, ast.Or) and not val)):
            return [a for v in t.values for a in atoms(v, val, env)]
        if isinstance(t, ast.Call):
            inl = _inline_helper(fi, t)
            if inl is not None:
                return atoms(inl, val, env)
        return [(norm_text(t, env), val)]

    def run_block(stmts: list[ast.stmt], facts: tuple, env: dict[str, ast.AST]) -> list[tuple[tuple, dict]]:
        """returns the (facts, env) pairs that fall out of the end of the block"""
        live = [(facts, env)]
        for st in stmts:
            nxt: list[tuple[tuple, dict]] = []
            for fc, ev in live:
                if isinstance(st, ast.Assign) and len(st.targets) == 1 and isinstance(st.targets[0], ast.Name):
                    ev2 = dict(ev)
                    ev2[st.targets[0].id] = _subst(st.value, {k: v for k, v in ev.items() if k != st.targets[0].id}) if st.targets[0].id not in {x.id for x in ast.walk(st.value) if isinstance(x, ast.Name)} else st.value
                    if st.targets[0].id in {x.id for x in ast.walk(st.value) if isinstance(x, ast.Name)}:
                        ev2.pop(st.targets[0].id, None)  # self-referential update (current = current / part): keep the name
                    nxt.append((fc, ev2))
                elif isinstance(st, ast.If):
                    for val, body in ((True, st.body), (False, st.orelse)):
                        nxt += run_block(body, fc + tuple(atoms(st.test, val, ev)), ev)
                elif isinstance(st, ast.Return):
                    if _false_tuple(st.value):
                        out.add(frozenset(fc))
                elif isinstance(st, (ast.Continue, ast.Break, ast.Raise)):
                    if isinstance(st, ast.Raise):
                        out.add(frozenset(fc))
                elif isinstance(st, (ast.Expr, ast.Pass)):
                    nxt.append((fc, ev))
                else:
                    nxt.append((fc + (("stmt:" + ast.dump(st), True),), ev))
            live = nxt
        return live

    run_block(loop.body, (), {})
    return frozenset(out)


def _digest_of_raw_bytes(run: Run) -> None:
    """R19.5b: `the cache file's bytes hash to that digest` - the digest function hashes the bytes as they are on disk"""
    hm = run.project.mod("core.hydrator")
    fi = hm.func("compute_vocabulary_hash")
    # binary handles on the parameter
    p0 = fi.node.args.args[0].arg  # type: ignore[attr-defined]
    handles = set()
    for n in walk_no_nested(fi.node):
        if isinstance(n, ast.withitem) and isinstance(n.optional_vars, ast.Name) and isinstance(n.context_expr, ast.Call):
            c = n.context_expr
            mode = fsm.open_mode(c, 1) if ast.unparse(c.func) in ("open", "io.open") else (fsm.open_mode(c, 0) if isinstance(c.func, ast.Attribute) and c.func.attr == "open" else None)
            if mode is not None and "b" in mode and p0 in names_in(c):
                handles.add(n.optional_vars.id)
    updates = [c for c in walk_no_nested(fi.node) if isinstance(c, ast.Call) and isinstance(c.func, ast.Attribute) and c.func.attr == "update" and len(c.args) == 1]
    direct = [c for c in walk_no_nested(fi.node) if isinstance(c, ast.Call) and ast.unparse(c.func) in ("hashlib.sha256", "sha256") and c.args]
    if not handles or not (updates or direct):
        raise AnalysisError("compute_vocabulary_hash: binary open of the file / hasher.update(...) not found; what is hashed is not decided")

    def raw(e: ast.AST, depth: int = 0) -> bool:
        """the expression is what <handle>.read(..) returned, or <path>.read_bytes(), unchanged"""
        if isinstance(e, ast.Call) and isinstance(e.func, ast.Attribute) and e.func.attr == "read" and isinstance(e.func.value, ast.Name) and e.func.value.id in handles:
            return True
        if isinstance(e, ast.Call) and isinstance(e.func, ast.Attribute) and e.func.attr == "read_bytes" and p0 in names_in(e.func.value):
            return True
        if isinstance(e, ast.NamedExpr):
            return raw(e.value, depth)
        if isinstance(e, ast.Name) and depth < 3:
            defs = [a.value for a in walk_no_nested(fi.node) if isinstance(a, (ast.Assign, ast.NamedExpr)) and any(isinstance(t, ast.Name) and t.id == e.id for t in (a.targets if isinstance(a, ast.Assign) else [a.target]))]
            defs += [a.value for a in walk_no_nested(fi.node) if isinstance(a, ast.Assign) and any(isinstance(t, ast.Tuple) and any(isinstance(x, ast.Name) and x.id == e.id for x in t.elts) for t in a.targets)]
            fors = [f for f in walk_no_nested(fi.node) if isinstance(f, ast.For) and any(isinstance(x, ast.Name) and x.id == e.id for x in ast.walk(f.target))]
            if fors:
                return all(isinstance(f.iter, ast.Call) and ast.unparse(f.iter.func) == "iter" and f.iter.args and isinstance(f.iter.args[0], ast.Lambda) and raw(f.iter.args[0].body, depth + 1) for f in fors) and not defs
            return bool(defs) and all(raw(d, depth + 1) for d in defs)
        return False

    for c in updates + direct:
        ok = raw(c.args[0])
        run.instance("R19.5", hm.loc(c), f"compute_vocabulary_hash: `{norm(c)[:70]}` hashes the bytes read from the file unchanged", ok=ok)
        if not ok:
            run.violation("R19.5", hm, fi.qualname, c, f"the digest is taken over `{norm(c.args[0])[:70]}`, not over the file's bytes as read: two different files (CRLF / LF, trimmed, re-encoded) have the same digest, so a frozen@sha256 reference resolves to a cache file whose bytes do not hash to that digest")


def check_strip_with_word(run: Run, rule: str, scope: tuple[str, ...] = ("schemas.loader", "core.hydrator", "core.file_ops", "mcp.write", "mcp.validate", "mcp.eject", "mcp.base_tool", "cli.main", "core.schema_extractor")) -> None:
    """str.strip / lstrip / rstrip take a SET of characters, not an affix"""
    run.rule(rule, "a name is never shortened with strip()/lstrip()/rstrip() of a multi-character word: those take a set of characters, so rstrip('_SCHEMA') also eats the tail of SKILLS, CHEMA, DEBATE_TRANSCRIPTS - two different schema names / paths then select the same file; an affix is removed with removeprefix/removesuffix or a slice under startswith/endswith", 1)
    n = 0
    for m in run.project.modules.values():
        if not any(m.name.endswith(x) for x in scope):
            continue
        for fi in m.functions.values():
            for c in walk_no_nested(fi.node):
                if isinstance(c, ast.Call) and isinstance(c.func, ast.Attribute) and c.func.attr in ("strip", "lstrip", "rstrip") and len(c.args) == 1:
                    v = run.project.try_fold(m, c.args[0])
                    if not isinstance(v, str):
                        continue
                    n += 1
                    wordy = len(v) >= 3 and sum(ch.isalnum() for ch in v) >= 2 and len(set(v)) >= 3
                    run.instance(rule, m.loc(c), f"{fi.qualname}: `{norm(c)[:70]}`", ok=not wordy)
                    if wordy:
                        run.violation(rule, m, fi.qualname, c, f"`{norm(c)[:80]}` removes any run of the characters {sorted(set(v))} from the end(s), not the affix {v!r}: different names collapse onto one (e.g. SKILLS and SKILL for '_SCHEMA'), so an unknown or unintended name selects an existing file")
    run.instance(rule, "src/octave_mcp", f"{n} strip()/lstrip()/rstrip() call(s) with a constant argument examined", ok=True, nontrivial=False)
    ctl = ast.parse("name.rstrip('_SCHEMA')").body[0].value  # type: ignore[attr-defined]
    run.control(rule, "rstrip('_SCHEMA') is recognised as a strip with a word", isinstance(ctl, ast.Call) and ctl.func.attr == "rstrip" and len(ctl.args[0].value) >= 3)  # type: ignore[attr-defined]


def check(run: Run) -> None:
    res = Resolver(run.project)
    run.rule("R19.1", "validation dominates I/O: every filesystem access on a user-supplied path (or an alias of it) executes only after the path validator accepted that path", 20)
    run.rule("R19.2", "the three path validators agree: '..' component test, per-component symlink walk with the same exemption, same allowed-suffix set; success is returned only after all three", 12)
    run.rule("R19.3", "a symlink test is never conjoined with a link-following existence test (exists() is False for a dangling link, so the link is accepted)", 1)
    run.rule("R19.4", "schema names: every path built from a schema name is dominated by the anchored name pattern, whose alphabet excludes path characters; load_schema is called only with vetted paths", 4)
    run.rule("R19.5", "frozen references: the cache file name derives only from the hex capture and the return is dominated by the digest comparison", 3)
    run.rule("R19.6", "containment: files derived from a SOURCE_URI are accessed only after relative_to(root) succeeded, and the root is not derived from the untrusted document", 3)
    run.rule("R19.7", "the final-component symlink re-check (is_symlink -> error) dominates the temp-file creation in every install function", 2)

    _r19_1(run, res)
    _r19_2(run, res)
    _r19_3(run, res)
    _r19_4(run, res)
    _r19_5(run, res)
    _r19_6(run, res)
    _r19_7(run, res)
    check_strip_with_word(run, "R19.9")
    _digest_of_raw_bytes(run)
    check_no_path_rewrite(run)


# ------------------------------------------------------------------ R19.1
def _param_effect_summary(res: Resolver, fi: FuncInfo, idx_or_name, depth: int, seen: set) -> list[str]:
    """does parameter (by name) of fi flow into a DEEP filesystem effect inside fi or its callees? returns witness list"""
    key = (fi.fqn, idx_or_name)
    if key in seen or depth < 0:
        return []
    seen.add(key)
    tainted = taint_closure(fi.node, [idx_or_name])
    out: list[str] = []
    for n in walk_no_nested(fi.node):
        if not isinstance(n, ast.Call):
            continue
        callees = res.resolve_call(fi, n)
        eff = fsm.classify(n, callees)
        arg_names = set()
        for a in list(n.args) + [k.value for k in n.keywords]:
            arg_names |= names_in(a)
        recv_names = names_in(n.func.value) if isinstance(n.func, ast.Attribute) else set()
        if eff in DEEP_EFFECTS and ((arg_names | recv_names) & tainted):
            out.append(f"{fi.module.relpath}:{n.lineno} {eff} {norm(n)}")
        for c in callees:
            if c.kind == "repo" and c.func is not None:
                ps = param_names(c.func.node)
                offset = 1 if ps and ps[0] in ("self", "cls") else 0
                for i, a in enumerate(n.args):
                    if names_in(a) & tainted and i + offset < len(ps):
                        out += _param_effect_summary(res, c.func, ps[i + offset], depth - 1, seen)
                for k in n.keywords:
                    if k.arg and k.arg in ps and names_in(k.value) & tainted:
                        out += _param_effect_summary(res, c.func, k.arg, depth - 1, seen)
    return out


def _r19_1(run: Run, res: Resolver) -> None:
    validated_entries = {(m, q) for m, q, _, _ in ENTRY_TABLE}
    for modname, qual, (kind, name), vsuffixes in ENTRY_TABLE:
        mod = run.project.mod(modname)
        fi = mod.func(qual)
        fa = FuncAnalysis(fi, res)
        cfg = fa.cfg
        if kind == "param":
            if name not in param_names(fi.node):
                raise AnalysisError(f"{fi.fqn}: parameter {name} not found")
            seeds = {name}
        else:
            seeds = locals_from_params_get(fi.node, name)
            if not seeds:
                raise AnalysisError(f"{fi.fqn}: no local bound from params[{name!r}]")
        tainted = taint_closure(fi.node, seeds, skip_value=_is_validator_result)
        # names that hold file *content* rather than a path are still tainted (over-approximation); harmless: they are not fs arguments
        vcalls = [s for s in fa.sites if s.is_repo(*vsuffixes) and s.call.args and names_in(s.call.args[0]) & seeds]
        okvars = []
        for v in vcalls:
            par = getattr(v.call, "_parent", None)
            if isinstance(par, ast.Assign) and isinstance(par.targets[0], ast.Tuple) and isinstance(par.targets[0].elts[0], ast.Name):
                okvars.append(par.targets[0].elts[0].id)
        n_sites = 0
        for s in fa.sites:
            arg_names = set()
            for a in list(s.call.args) + [k.value for k in s.call.keywords]:
                arg_names |= names_in(a)
            recv = names_in(s.call.func.value) if isinstance(s.call.func, ast.Attribute) else set()
            touches = (arg_names | recv) & tainted
            if not touches:
                continue
            deep: list[str] = []
            eff = s.effect
            if eff is None:
                # tainted value handed to a repo function: does it reach a filesystem effect there?
                for c in s.callees:
                    if c.kind == "repo" and c.func is not None:
                        if (c.func.module.name.replace("octave_mcp.", ""), c.func.qualname) in validated_entries:
                            # callee validates the path itself (it is an entry of this rule)
                            n_sites += 1
                            run.instance("R19.1", f"{mod.relpath}:{s.call.lineno}", f"{qual}: hands the path to {c.func.qualname}, which validates it itself (entry of this rule)", ok=True, nontrivial=False)
                            continue
                        ps = param_names(c.func.node)
                        offset = 1 if ps and ps[0] in ("self", "cls") else 0
                        for i, a in enumerate(s.call.args):
                            if names_in(a) & tainted and i + offset < len(ps):
                                deep += _param_effect_summary(res, c.func, ps[i + offset], 3, set())
                        for k in s.call.keywords:
                            if k.arg and k.arg in ps and names_in(k.value) & tainted:
                                deep += _param_effect_summary(res, c.func, k.arg, 3, set())
                if not deep:
                    continue
            elif eff not in GUARDED_EFFECTS:
                continue
            # is it a path-typed use? content variables (results of read()) are not paths
            if eff in GUARDED_EFFECTS and not _path_use(s, tainted, fa):
                continue
            n_sites += 1
            guarded = bool(okvars) and all(_guarded(cfg, n, okvars) for n in s.nodes) and bool(s.nodes)
            run.instance("R19.1", f"{mod.relpath}:{s.call.lineno}", f"{qual}: {eff or 'passes path to callee with fs effects'}: {norm(s.call)}", ok=guarded, tainted=sorted(touches))
            if not guarded:
                run.violation("R19.1", mod, qual, s.call, f"filesystem access on user-supplied path `{', '.join(sorted(touches))}` is not dominated by a successful call of the path validator",
                              effect=eff or "via callee", callee_effects=deep[:3])
        if n_sites == 0:
            raise AnalysisError(f"{fi.fqn}: no filesystem access on the user path found (taint lost?)")


def _path_use(s, tainted: set[str], fa: FuncAnalysis) -> bool:
    """the tainted name is used as the path operand of the fs call (receiver, or first argument)"""
    f = s.call.func
    if isinstance(f, ast.Attribute) and names_in(f.value) & tainted and not (isinstance(f.value, ast.Name) and f.value.id in ("os", "shutil", "tempfile")):
        return True
    for a in s.call.args[:2]:
        if names_in(a) & tainted:
            return True
    for k in s.call.keywords:
        if k.arg in ("dir", "path", "src", "dst", "file") and names_in(k.value) & tainted:
            return True
    return False


def _guarded(cfg: CFG, n: int, okvars: list[str]) -> bool:
    for t, val in branch_conditions(cfg, n):
        for v in okvars:
            if isinstance(t, ast.UnaryOp) and isinstance(t.op, ast.Not) and is_name(t.operand, v) and val is False:
                return True
            if is_name(t, v) and val is True:
                return True
    return False


# ------------------------------------------------------------------ R19.2
def _validator_features(run: Run, res: Resolver, fi: FuncInfo) -> dict:
    mod = fi.module
    cfg = CFG(fi.node)
    feats: dict = {}
    # (a) '..' test
    dd = None
    for node in cfg.nodes:
        if node.kind == "test" and node.ast is not None:
            for g in ast.walk(node.ast):
                if isinstance(g, (ast.GeneratorExp, ast.ListComp)) and isinstance(g.elt, ast.Compare) and any(isinstance(c, ast.Constant) and c.value == ".." for c in ast.walk(g.elt)) and isinstance(g.elt.ops[0], ast.Eq):
                    it = g.generators[0].iter
                    if isinstance(it, ast.Attribute) and it.attr == "parts":
                        par = getattr(g, "_parent", None)
                        if isinstance(par, ast.Call) and isinstance(par.func, ast.Name) and par.func.id == "any":
                            dd = node
            for c in ast.walk(node.ast):
                if isinstance(c, ast.Compare) and isinstance(c.ops[0], ast.In) and isinstance(c.left, ast.Constant) and c.left.value == ".." and isinstance(c.comparators[0], ast.Attribute) and c.comparators[0].attr == "parts":
                    dd = node
    feats["dotdot"] = dd
    # (b) symlink walk
    walk = None
    for n in walk_no_nested(fi.node):
        if isinstance(n, ast.For) and any(isinstance(a, ast.Attribute) and a.attr == "parts" for a in ast.walk(n.iter)):
            has_sym = any(isinstance(c, ast.Call) and isinstance(c.func, ast.Attribute) and c.func.attr == "is_symlink" for c in ast.walk(n))
            has_ret_false = any(isinstance(r, ast.Return) and _false_tuple(r.value) for r in ast.walk(n))
            if has_sym and has_ret_false:
                walk = n
    feats["walk"] = walk
    # (c) suffix table
    suffix_sets = []
    for n in walk_no_nested(fi.node):
        if isinstance(n, ast.Compare) and isinstance(n.ops[0], (ast.NotIn, ast.In)):
            c = n.comparators[0]
            val = None
            if isinstance(c, ast.Name) and mod.has_const(c.id):
                val = run.project.const(mod, c.id)
            elif isinstance(c, ast.Attribute) and isinstance(c.value, ast.Name) and c.value.id == "self" and fi.cls:
                for st in mod.cls(fi.cls).node.body:
                    if isinstance(st, ast.Assign) and any(is_name(t, c.attr) for t in st.targets):
                        val = run.project.fold(mod, st.value)
            elif isinstance(c, (ast.Set, ast.Tuple, ast.List)):
                val = run.project.try_fold(mod, c)
            if isinstance(val, (set, frozenset, tuple, list)) and all(isinstance(x, str) and x.startswith(".") for x in val):
                suffix_sets.append((n, frozenset(val)))
    feats["suffix"] = suffix_sets
    feats["cfg"] = cfg
    return feats


def _false_tuple(v: ast.AST | None) -> bool:
    return isinstance(v, ast.Tuple) and v.elts and isinstance(v.elts[0], ast.Constant) and v.elts[0].value is False


def _true_tuple(v: ast.AST | None) -> bool:
    return isinstance(v, ast.Tuple) and v.elts and isinstance(v.elts[0], ast.Constant) and v.elts[0].value is True


def _r19_2(run: Run, res: Resolver) -> None:
    all_feats = []
    for modname, qual in VALIDATORS:
        mod = run.project.mod(modname)
        fi = mod.func(qual)
        f = _validator_features(run, res, fi)
        all_feats.append((fi, f))
        cfg: CFG = f["cfg"]
        where = f"{mod.relpath}:{fi.node.lineno}"
        # success returns
        succ = [n for n in cfg.nodes if isinstance(n.ast, ast.Return) and not _false_tuple(n.ast.value)]
        ok_dd = f["dotdot"] is not None
        run.instance("R19.2", where, f"{qual}: '..' component test over .parts present", ok=ok_dd)
        if not ok_dd:
            run.violation("R19.2", mod, qual, "'..' component test", "validator has no `any(part == '..' for part in path.parts)` rejection")
        ok_walk = f["walk"] is not None
        run.instance("R19.2", where, f"{qual}: per-component is_symlink walk present", ok=ok_walk)
        if not ok_walk:
            run.violation("R19.2", mod, qual, "per-component symlink walk", "validator has no loop over the path's components that rejects a symlink")
        sfx = f["suffix"]
        helper_gate = None
        if not sfx:
            # no `x in ALLOWED` comparison in the validator itself: the extension test may live in a helper the validator calls
            # in a test (a function of another module is not read in place). It is summarised, or the clause is not decided.
            helper_gate = _suffix_helper_gate(run, res, mod, fi, cfg)
        if helper_gate is not None:
            hcall, hallowed, hextra, hname = helper_gate
            ok_sfx = hallowed == EXPECTED_SUFFIXES and not hextra
            run.instance("R19.2", where, f"{qual}: extension test through {hname}: candidates {{last suffix, last two joined}}{' + ' + ', '.join(hextra) if hextra else ''} against {sorted(hallowed) if hallowed is not None else '?'}", ok=ok_sfx)
            if hextra:
                run.violation("R19.2", mod, qual, f"{hname}: candidate suffixes", f"the extension test {hname} accepts a name when {' or '.join(hextra)} is an allowed extension: `deploy.md.sh` / `settings.octave.py` pass although the file's extension is not .oct.md, .octave or .md")
            elif not ok_sfx:
                run.violation("R19.2", mod, qual, "allowed suffix set", f"suffix allow-list is {sorted(hallowed) if hallowed is not None else None} but the documented set is {sorted(EXPECTED_SUFFIXES)}")
        else:
          ok_sfx = bool(sfx) and all(s == EXPECTED_SUFFIXES for _, s in sfx)
          run.instance("R19.2", where, f"{qual}: allowed suffix set {sorted(sfx[0][1]) if sfx else None}", ok=ok_sfx)
          if not ok_sfx:
            run.violation("R19.2", mod, qual, "allowed suffix set", f"suffix allow-list is {[sorted(s) for _, s in sfx]} but the documented set is {sorted(EXPECTED_SUFFIXES)}")
        # every success return dominated by all three checks, on their passing edge
        for sn in succ:
            problems = []
            conds = branch_conditions(cfg, sn.id)
            if f["dotdot"] is not None and not any(t is f["dotdot"].ast and val is False for t, val in conds):
                problems.append("'..' test")
            if f["walk"] is not None:
                wn = cfg.nodes_of(f["walk"].iter)  # iter node carries owner For
                wn = [n.id for n in cfg.nodes if n.kind == "iter" and n.owner is f["walk"]]
                guard_tests = []
                # the walk may sit under `if absolute != resolved:`; then the success must be dominated by that test instead
                if not any(cfg.dominated_by(sn.id, w) for w in wn):
                    par = getattr(f["walk"], "_parent", None)
                    if isinstance(par, ast.If) and isinstance(par.test, ast.Compare) and isinstance(par.test.ops[0], ast.NotEq) and any(cfg.dominated_by(sn.id, x) for x in cfg.nodes_of(par.test)):
                        guard_tests.append(par.test)
                    else:
                        problems.append("symlink walk")
            if helper_gate is not None:
                hc = helper_gate[0]
                held = False
                for t, val in conds:
                    tt, v = t, val
                    while isinstance(tt, ast.UnaryOp) and isinstance(tt.op, ast.Not):
                        tt, v = tt.operand, not v
                    if tt is hc and v:
                        held = True
                if not held:
                    problems.append("suffix check")
            if sfx:
                # success must be reached only when a suffix membership test passed
                passed = False
                for cmp_node, _ in sfx:
                    for t, val in conds:
                        if _decides(t, cmp_node, val):
                            passed = True
                # nested form: `if suffix not in A: if compound not in A: return False` -> success reached via either false edge
                if not passed:
                    passed = _suffix_gate(cfg, sn.id, sfx)
                if not passed:
                    problems.append("suffix check")
            run.instance("R19.2", f"{mod.relpath}:{sn.lineno}", f"{qual}: success return is reached only after '..', symlink and suffix checks", ok=not problems)
            if problems:
                run.violation("R19.2", mod, qual, "return (True, None)", f"validator can return success without passing: {', '.join(problems)}", line=sn.lineno)
        # every handler returns a failure
        for n in cfg.nodes:
            if n.kind == "handler":
                rets = [cfg.nodes[r] for r in _reach_returns(cfg, n.id)]
                ok = bool(rets) and all(_false_tuple(r.ast.value) for r in rets)  # type: ignore[union-attr]
                run.instance("R19.2", f"{mod.relpath}:{n.lineno}", f"{qual}: exception handler ends in a failure return", ok=ok)
                if not ok:
                    run.violation("R19.2", mod, qual, "except handler in path validator", "an exception during path inspection does not lead to rejection", line=n.lineno)
    # sibling agreement of the symlink walk: same iterated components and the same rejecting condition, compared in a normal form
    # (locals and one-expression helpers inlined, conjunctions split into atoms) so that a copy may be written differently
    dumps = []
    for fi, f in all_feats:
        if f["walk"] is None:
            continue
        w = f["walk"]
        dumps.append((fi, (ast.dump(w.iter), _reject_normal_form(fi, w))))
    base = dumps[0][1] if dumps else None
    for fi, d in dumps[1:]:
        ok = d == base
        run.instance("R19.2", f"{fi.module.relpath}:{fi.node.lineno}", f"{fi.qualname}: symlink walk equivalent to {dumps[0][0].qualname} (iterated components, symlink test, system-symlink exemption)", ok=ok)
        if not ok:
            run.violation("R19.2", fi.module, fi.qualname, "symlink walk (sibling agreement)", f"the symlink walk differs from the one in {dumps[0][0].fqn}: the copies must reject the same paths",
                          this=d[1], other=base[1] if base else None)
    # the exemption itself: depth bound <= 2 and prefix /private/
    for fi, f in all_feats:
        if f["walk"] is None:
            continue
        for t in ast.walk(f["walk"]):
            if isinstance(t, ast.If) and any(isinstance(c, ast.Continue) for c in t.body):
                if isinstance(t.test, ast.UnaryOp) and isinstance(t.test.op, ast.Not) and isinstance(t.test.operand, ast.Call) and isinstance(t.test.operand.func, ast.Attribute) and t.test.operand.func.attr == "is_symlink":
                    continue  # `if not c.is_symlink(): continue` passes over a component that is no symlink: not an exemption
                consts = [c.value for c in ast.walk(t.test) if isinstance(c, ast.Constant)]
                ok = any(isinstance(c, int) and c <= 2 for c in consts) and "/private/" in consts and isinstance(t.test, ast.BoolOp) and isinstance(t.test.op, ast.And)
                run.instance("R19.2", f"{fi.module.relpath}:{t.lineno}", f"{fi.qualname}: system-symlink exemption is `depth <= 2 and target under /private/`", ok=ok)
                if not ok:
                    run.violation("R19.2", fi.module, fi.qualname, t.test, "the exemption for system symlinks is wider than `depth <= 2 and resolves under /private/`")


def _decides(t: ast.AST, cmp_node: ast.Compare, val: bool) -> bool:
    """does taking the `val` edge of test t imply that the suffix IS in the allowed set?"""
    notin = isinstance(cmp_node.ops[0], ast.NotIn)
    if t is cmp_node:
        return val is (False if notin else True)
    if isinstance(t, ast.BoolOp) and any(v is cmp_node for v in t.values):
        if isinstance(t.op, ast.Or) and notin and val is False:
            return True  # (a not in A or ...) false  => a in A
        if isinstance(t.op, ast.And) and not notin and val is True:
            return True  # (a in A and ...) true => a in A
    return False


def _suffix_helper_gate(run: Run, res: Resolver, mod, fi, cfg: CFG):
    """(call node, allowed set, extra candidates, helper name) for an extension test made by a helper function called in a test
    of the validator; AnalysisError when there is such a call but the helper is not in a form this check reads; None when
    the validator has no such call at all"""
    cands = []
    for n in cfg.nodes:
        if n.kind != "test" or n.ast is None:
            continue
        t = n.ast
        while isinstance(t, ast.UnaryOp) and isinstance(t.op, ast.Not):
            t = t.operand
        if isinstance(t, ast.Call) and isinstance(t.func, (ast.Name, ast.Attribute)) and ("ext" in ast.unparse(t.func).lower() or "suffix" in ast.unparse(t.func).lower()):
            cands.append(t)
    inline_test = None
    if not cands:
        # the same decision written in the validator itself (a same-module helper is read in place)
        inline_holder = None
        for n in cfg.nodes:
            if n.kind != "test" or n.ast is None or "suffix" not in ast.unparse(fi.node):
                continue
            t0 = n.ast
            while isinstance(t0, ast.UnaryOp) and isinstance(t0.op, ast.Not):
                t0 = t0.operand
            expr = t0
            if isinstance(t0, ast.Name):
                defs = [a.value for a in walk_no_nested(fi.node) if isinstance(a, ast.Assign) and len(a.targets) == 1 and isinstance(a.targets[0], ast.Name) and a.targets[0].id == t0.id]
                if len(defs) == 1:
                    expr = defs[0]
            if any((isinstance(c, ast.Attribute) and c.attr == "isdisjoint") or (isinstance(c, ast.BinOp) and isinstance(c.op, ast.BitAnd)) for c in ast.walk(expr)):
                inline_test, inline_holder = expr, t0
                break
        if inline_test is None:
            return None
    if inline_test is not None:
        call = inline_holder
        fname = fi.qualname
        hm, hfi = mod, fi
        sx = next((c for c in walk_no_nested(fi.node) if isinstance(c, ast.Attribute) and c.attr in ("suffixes", "suffix") and isinstance(c.value, ast.Name)), None)
        ppath = sx.value.id if sx is not None else None  # type: ignore[union-attr]
        allowed = None
        for c in ast.walk(inline_test):
            if isinstance(c, ast.Call) and isinstance(c.func, ast.Attribute) and c.func.attr == "isdisjoint" and c.args:
                for e in (c.args[0], c.func.value):
                    v = run.project.try_fold(mod, e)
                    if isinstance(v, (set, frozenset, tuple, list)) and v:
                        allowed = frozenset(v)
        if allowed is None:
            raise AnalysisError(f"{fi.qualname}: the allow-list of the extension test does not fold to a constant set; the suffix clause is not decided")
    else:
      call = cands[0]
      fname = call.func.id if isinstance(call.func, ast.Name) else call.func.attr  # type: ignore[union-attr]
      target = None
      for m in run.project.modules.values():
        if m.has_func(fname) and "." not in fname:
            target = (m, m.func(fname))
            if m is mod:
                break
      if target is None:
        raise AnalysisError(f"{fi.qualname}: the extension test is made by `{fname}(...)`, which is not a function of the package this check can read; the suffix clause is not decided")
      hm, hfi = target
      params = [a.arg for a in hfi.node.args.args]  # type: ignore[attr-defined]
      defaults = hfi.node.args.defaults  # type: ignore[attr-defined]
      ppath = params[0] if params else None
      # the allowed set: second argument at the call site, else the parameter's default
      allowed_expr, allowed_mod = None, hm
      if len(call.args) >= 2:
        allowed_expr, allowed_mod = call.args[1], mod
      elif len(params) >= 2 and defaults:
        allowed_expr = defaults[-1]
      allowed = None
      if allowed_expr is not None:
        txt = ast.unparse(allowed_expr)
        if txt.startswith("self.") and fi.qualname.split(".")[0] in allowed_mod.classes:
            cls = allowed_mod.classes[fi.qualname.split(".")[0]].node
            for st in cls.body:
                if isinstance(st, (ast.Assign, ast.AnnAssign)) and any(isinstance(tg, ast.Name) and tg.id == txt[5:] for tg in (st.targets if isinstance(st, ast.Assign) else [st.target])) and st.value is not None:
                    v = run.project.try_fold(allowed_mod, st.value)
                    allowed = frozenset(v) if isinstance(v, (set, frozenset, tuple, list)) else None
        else:
            v = run.project.try_fold(allowed_mod, allowed_expr)
            allowed = frozenset(v) if isinstance(v, (set, frozenset, tuple, list)) else None
      if allowed is None:
        raise AnalysisError(f"{fi.qualname}: the allow-list handed to `{fname}` does not fold to a constant set; the suffix clause is not decided")

    def local(e: ast.AST, depth: int = 0) -> ast.AST:
        if isinstance(e, ast.Name) and depth < 4:
            defs = [a.value for a in walk_no_nested(hfi.node) if isinstance(a, (ast.Assign, ast.AnnAssign)) and a.value is not None and any(isinstance(tg, ast.Name) and tg.id == e.id for tg in (a.targets if isinstance(a, ast.Assign) else [a.target]))]
            if len(defs) == 1:
                return local(defs[0], depth + 1)
        return e

    def kind(e: ast.AST) -> list[str] | None:
        e = local(e)
        txt = ast.unparse(e)
        if txt in (f"{ppath}.suffix", f"{ppath}.suffixes[-1]"):
            return []
        if txt == f"{ppath}.suffixes[-2]":
            return ["the second-to-last suffix on its own"]
        if isinstance(e, ast.Call) and isinstance(e.func, ast.Attribute) and e.func.attr == "join" and isinstance(e.func.value, ast.Constant) and e.func.value.value == "" and len(e.args) == 1 and ast.unparse(local(e.args[0])) == f"{ppath}.suffixes[-2:]":
            return []
        if isinstance(e, ast.Starred):
            inner = ast.unparse(local(e.value))
            if inner == f"{ppath}.suffixes[-2:]":
                return ["the second-to-last suffix on its own"]
            if inner == f"{ppath}.suffixes":
                return ["any inner suffix on its own"]
            return None
        if isinstance(e, ast.IfExp):
            a, b = kind(e.body), kind(e.orelse)
            return None if a is None or b is None else a + b
        return None

    if inline_test is not None:
        r = inline_test
    else:
        rets = [r for r in walk_no_nested(hfi.node) if isinstance(r, ast.Return)]
        if len(rets) != 1 or rets[0].value is None:
            raise AnalysisError(f"{fname}: more than one return; the extension helper is not in a form this check reads (suffix clause not decided)")
        r = local(rets[0].value)
    neg = False
    while isinstance(r, ast.UnaryOp) and isinstance(r.op, ast.Not):
        r, neg = r.operand, not neg
    coll = None
    if isinstance(r, ast.Call) and isinstance(r.func, ast.Attribute) and r.func.attr == "isdisjoint" and neg and len(r.args) == 1:
        a, b = local(r.func.value), local(r.args[0])
        coll = a if isinstance(a, (ast.Set, ast.Tuple, ast.List)) else (b if isinstance(b, (ast.Set, ast.Tuple, ast.List)) else None)
    elif isinstance(r, ast.Call) and isinstance(r.func, ast.Name) and r.func.id in ("bool", "any") and not neg and r.args:
        inner = local(r.args[0])
        if isinstance(inner, ast.BinOp) and isinstance(inner.op, ast.BitAnd):
            a, b = local(inner.left), local(inner.right)
            coll = a if isinstance(a, (ast.Set, ast.Tuple, ast.List)) else (b if isinstance(b, (ast.Set, ast.Tuple, ast.List)) else None)
        elif isinstance(inner, ast.GeneratorExp) and len(inner.generators) == 1 and isinstance(inner.elt, ast.Compare) and isinstance(inner.elt.ops[0], ast.In):
            c0 = local(inner.generators[0].iter)
            coll = c0 if isinstance(c0, (ast.Set, ast.Tuple, ast.List)) else None
    elif isinstance(r, ast.BoolOp) and isinstance(r.op, ast.Or) and not neg and all(isinstance(v, ast.Compare) and len(v.ops) == 1 and isinstance(v.ops[0], ast.In) for v in r.values):
        coll = ast.Tuple(elts=[v.left for v in r.values], ctx=ast.Load())  # type: ignore[attr-defined]
    if coll is None:
        raise AnalysisError(f"{fname}: the extension helper does not decide by `candidates ∩ allowed ≠ ∅` over a display of candidate suffixes (isdisjoint / & / any(... in ...) / `a in A or b in A`); the suffix clause is not decided")
    extra: list[str] = []
    for el in coll.elts:
        k = kind(el)
        if k is None:
            raise AnalysisError(f"{fname}: candidate `{ast.unparse(el)[:60]}` is not the last suffix, the last two suffixes joined, or a slice of them; the suffix clause is not decided")
        extra += [x for x in k if x not in extra]
    return call, allowed, extra, fname


def _suffix_gate(cfg: CFG, sn: int, sfx) -> bool:
    """all paths entry->success take, at some test, an edge that implies that a suffix IS in the allowed set: the false edge of
    `x not in ALLOWED`, the true edge of `x in ALLOWED`, or the corresponding edge of a test of a local bound once to such a
    comparison (`ok = compound in ALLOWED ... if not ok: return False`)"""
    cmp_nodes = [c for c, _ in sfx]
    decisive: set[tuple[int, str]] = set()
    for n in cfg.nodes:
        if n.kind != "test" or n.ast is None:
            continue
        for c in cmp_nodes:
            if _decides(n.ast, c, True):
                decisive.add((n.id, "t"))
            if _decides(n.ast, c, False):
                decisive.add((n.id, "f"))
        t, neg = n.ast, False
        while isinstance(t, ast.UnaryOp) and isinstance(t.op, ast.Not):
            t, neg = t.operand, not neg
        if isinstance(t, ast.Name):
            from ..cfg import reaching_assignments

            defs = reaching_assignments(cfg, n.id, t.id)
            vals = [d.value for d in defs if isinstance(d, ast.Assign) and len(d.targets) == 1 and isinstance(d.targets[0], ast.Name)] if defs else []
            if defs and len(vals) == len(defs) and all(any(v is c for c in cmp_nodes) for v in vals) and len({isinstance(v.ops[0], ast.NotIn) for v in vals}) == 1:
                # every binding that reaches this test is such a comparison
                is_in = not isinstance(vals[0].ops[0], ast.NotIn)
                decisive.add((n.id, "t" if (is_in != neg) else "f"))
    if not decisive:
        return False
    seen = {cfg.entry}
    stack = [cfg.entry]
    while stack:
        n = stack.pop()
        if n == sn:
            return False
        for s_, lab in cfg.succ[n]:
            if lab == "x" or s_ in seen:
                continue
            if (n, lab) in decisive:
                continue
            seen.add(s_)
            stack.append(s_)
    return True


def _reach_returns(cfg: CFG, start: int) -> list[int]:
    out, seen, stack = [], set(), [start]
    while stack:
        n = stack.pop()
        if n in seen:
            continue
        seen.add(n)
        if isinstance(cfg.nodes[n].ast, ast.Return):
            out.append(n)
            continue
        for s, lab in cfg.succ[n]:
            if lab != "x":
                stack.append(s)
    return out


# ------------------------------------------------------------------ R19.3
def _weak_symlink_tests(tree: ast.AST):
    for n in ast.walk(tree):
        if isinstance(n, ast.BoolOp) and isinstance(n.op, ast.And):
            ex = [v for v in n.values if isinstance(v, ast.Call) and ((isinstance(v.func, ast.Attribute) and v.func.attr in ("exists", "is_file", "is_dir")) or ast.unparse(v.func) in ("os.path.exists", "os.path.isfile"))]
            sy = [v for v in n.values if isinstance(v, ast.Call) and ((isinstance(v.func, ast.Attribute) and v.func.attr == "is_symlink") or ast.unparse(v.func) == "os.path.islink")]
            if ex and sy:
                yield n


def _r19_3(run: Run, res: Resolver) -> None:
    control = ast.parse("if p.exists() and p.is_symlink():\n    pass\n")
    run.control("R19.3", "embedded example `p.exists() and p.is_symlink()` is recognised", any(True for _ in _weak_symlink_tests(control)))
    n_tests = 0
    for m in run.project.modules.values():
        for n in ast.walk(m.tree):
            if isinstance(n, ast.Call) and ((isinstance(n.func, ast.Attribute) and n.func.attr == "is_symlink") or ast.unparse(n.func) == "os.path.islink"):
                n_tests += 1
                par = getattr(n, "_parent", None)
                weak = isinstance(par, ast.BoolOp) and any(par is w for w in _weak_symlink_tests(par))
                fn = m.enclosing_function(n)
                run.instance("R19.3", m.loc(n), f"{fn}: symlink test `{norm(par if isinstance(par, ast.BoolOp) else n)}`", ok=not weak)
                if weak:
                    run.violation("R19.3", m, fn, par, "symlink test conjoined with a link-following existence test: a dangling symlink is not recognised as a symlink and is accepted",
                                  failing_input="target path whose last component is a symlink to a non-existent file")


# ------------------------------------------------------------------ R19.4
def _r19_4(run: Run, res: Resolver) -> None:
    mod = run.project.mod("schemas.loader")
    pat = run.project.const(mod, "SCHEMA_NAME_PATTERN")
    if not isinstance(pat, RegexConst):
        raise AnalysisError("SCHEMA_NAME_PATTERN is not a compiled regex constant")
    chars, non_ascii = regex_alphabet(pat.pattern, pat.flags)
    a0, a1 = regex_anchored(pat.pattern, pat.flags)
    bad = sorted(chars & set("/\\.\0~:"))
    ok = not bad and not non_ascii and a0 and a1
    run.instance("R19.4", f"{mod.relpath}", f"SCHEMA_NAME_PATTERN {pat.pattern!r}: alphabet {''.join(sorted(chars))!r}, anchored={a0 and a1}", ok=ok)
    if not ok:
        run.violation("R19.4", mod, None, "SCHEMA_NAME_PATTERN", f"the schema-name pattern admits path characters {bad} / non-ASCII={non_ascii} or is not anchored at both ends (start={a0}, end={a1})", pattern=pat.pattern)
    # every function of the loader that builds a path from its first parameter (a schema name) is held to the same rule; those
    # that satisfy it hand out vetted paths
    vetting: set[str] = set()
    joins = 0
    cands = [mod.func("load_schema_by_name")] + [f for f in mod.functions.values() if f.qualname != "load_schema_by_name" and f.parent_func is None and param_names(f.node) and "name" in param_names(f.node)[0]]
    for fi in cands:
        fa = FuncAnalysis(fi, res)
        cfg = fa.cfg
        pname = param_names(fi.node)[0]
        tainted = taint_closure(fi.node, [pname])
        # the guard: `if not PATTERN.match(name): return None`
        guard_ok_nodes = []
        for node in cfg.nodes:
            if node.kind == "test" and node.ast is not None:
                t = node.ast
                if isinstance(t, ast.UnaryOp) and isinstance(t.op, ast.Not) and isinstance(t.operand, ast.Call) and isinstance(t.operand.func, ast.Attribute) and t.operand.func.attr in ("match", "fullmatch") and is_name(t.operand.func.value, "SCHEMA_NAME_PATTERN") and t.operand.args and is_name(t.operand.args[0], pname):
                    guard_ok_nodes.append(node)
        fjoins = []
        for n in ast.walk(fi.node):
            is_join = (isinstance(n, ast.BinOp) and isinstance(n.op, ast.Div)) or (isinstance(n, ast.Call) and ast.unparse(n.func) in ("os.path.join", "Path")) or (isinstance(n, ast.Call) and isinstance(n.func, ast.Attribute) and n.func.attr == "joinpath")
            if is_join and names_in(n) & tainted:
                fjoins.append(n)
        if not fjoins:
            if fi.qualname == "load_schema_by_name":
                # the lookup may have been extracted: then the function must hand the name to a vetting builder only after its
                # own guard, or the builder guards itself (checked when its turn comes)
                pass
            continue
        if not guard_ok_nodes:
            run.violation("R19.4", mod, fi.qualname, "SCHEMA_NAME_PATTERN.match(schema_name) guard", f"{fi.qualname} does not test the name against SCHEMA_NAME_PATTERN before building a path from it")
        all_ok = bool(guard_ok_nodes)
        for n in fjoins:
            joins += 1
            nodes = cfg.node_for_stmt_containing(n)
            ok = bool(guard_ok_nodes) and bool(nodes) and all(any(t is g.ast and val is False for t, val in branch_conditions(cfg, x) for g in guard_ok_nodes) for x in nodes)
            all_ok = all_ok and ok
            run.instance("R19.4", mod.loc(n), f"{fi.qualname}: path join `{norm(n)}` uses the schema name after the pattern test", ok=ok)
            if not ok:
                run.violation("R19.4", mod, fi.qualname, n, "a path is built from the schema name without the name pattern having been matched first")
        if all_ok:
            vetting.add(fi.name)
    if joins == 0:
        raise AnalysisError("schemas.loader: no path join using a schema name found")
    # who may call load_schema (takes an arbitrary path)
    allowed = {"octave_mcp.schemas.loader:load_schema_by_name", "octave_mcp.schemas.loader:load_builtin_schemas"}
    ncall = 0
    for f2 in run.project.all_functions():
        for n in walk_no_nested(f2.node):
            if isinstance(n, ast.Call):
                for c in res.resolve_call(f2, n):
                    if c.kind == "repo" and c.name == "octave_mcp.schemas.loader:load_schema":
                        ncall += 1
                        ok = f2.fqn in allowed
                        why = "caller vets the path"
                        if not ok and n.args and isinstance(n.args[0], ast.Name):
                            # path must come from resolve_hermetic_standard(...) in the same function
                            srcs = [v for st, v in FuncAnalysis(f2, res).assignments_to(n.args[0].id) if v is not None]
                            ok = bool(srcs) and all(isinstance(v, ast.Call) and (ast.unparse(v.func).endswith("resolve_hermetic_standard") or ast.unparse(v.func).split(".")[-1] in vetting) for v in srcs)
                            why = "path is the result of resolve_hermetic_standard / of a loader function that matches the name pattern before it builds a path"
                        if not ok and n.args and isinstance(n.args[0], ast.Call) and ast.unparse(n.args[0].func).endswith("resolve_hermetic_standard"):
                            ok, why = True, "path is the result of resolve_hermetic_standard (called in place)"
                        run.instance("R19.4", f2.module.loc(n), f"{f2.qualname}: load_schema({norm(n.args[0]) if n.args else ''}) - {why}", ok=ok)
                        if not ok:
                            run.violation("R19.4", f2.module, f2.qualname, n, "load_schema (which opens whatever path it is given) is called with a path that is neither built by load_schema_by_name/load_builtin_schemas nor returned by resolve_hermetic_standard")
    if ncall < 3:
        raise AnalysisError(f"only {ncall} call(s) of load_schema found")


# ------------------------------------------------------------------ R19.5
def _r19_5(run: Run, res: Resolver) -> None:
    mod = run.project.mod("core.hydrator")
    fi = mod.func("resolve_hermetic_standard")
    fa = FuncAnalysis(fi, res)
    cfg = fa.cfg
    ref = param_names(fi.node)[0]
    # m = re.fullmatch(<pattern>, ref)
    mvar = None
    pat = None
    for n in walk_no_nested(fi.node):
        if isinstance(n, ast.Assign) and isinstance(n.value, ast.Call) and ast.unparse(n.value.func) in ("re.fullmatch", "re.match") and len(n.value.args) >= 2 and is_name(n.value.args[1], ref) and isinstance(n.targets[0], ast.Name):
            p = run.project.try_fold(mod, n.value.args[0])
            if isinstance(p, str) and "sha256" in p:
                mvar, pat, mfun = n.targets[0].id, p, ast.unparse(n.value.func)
    ok = False
    detail = "no re.fullmatch(<frozen pattern>, ref) found"
    if pat is not None:
        import re._parser as sp  # type: ignore[import-not-found]
        import re._constants as sc  # type: ignore[import-not-found]

        tree = sp.parse(pat)
        groups = [av for op, av in tree if op is sc.SUBPATTERN]
        hex_ok = False
        if len(groups) == 1:
            sub = groups[0][3]
            from ..dataflow import regex_alphabet as ra

            # alphabet of the capture group only
            inner = pat[pat.index("(") + 1: pat.rindex(")")]
            chars, na = ra(inner)
            hex_ok = chars <= set("0123456789abcdefABCDEF") and not na
            width = sp.parse(inner).getwidth()
            hex_ok = hex_ok and width == (64, 64)
        full = mfun == "re.fullmatch" or (pat.endswith("$") or pat.endswith("\\Z"))
        ok = hex_ok and full
        detail = f"pattern {pat!r}: capture is exactly 64 hex digits={hex_ok}, whole-string match={full}"
    run.instance("R19.5", mod.loc(fi.node), f"resolve_hermetic_standard: {detail}", ok=ok)
    if not ok:
        run.violation("R19.5", mod, fi.qualname, "frozen@sha256 reference pattern", f"the frozen reference is not restricted to exactly 64 hex digits over the whole string: {detail}")
    # digest derives from m.group(1) only; cached_path derives from digest (+ cache_dir)
    tainted_from_m = taint_closure(fi.node, [mvar]) if mvar else set()
    ret_nodes = [n for n in cfg.nodes if isinstance(n.ast, ast.Return) and n.ast.value is not None]
    m_assign_nodes = [x for n in walk_no_nested(fi.node) if isinstance(n, ast.Assign) and mvar and any(is_name(t, mvar) for t in n.targets) for x in cfg.node_for_stmt_containing(n)]
    frozen_rets = [n for n in ret_nodes if any(cfg.dominated_by(n.id, a) for a in m_assign_nodes)]
    if not frozen_rets:
        raise AnalysisError("resolve_hermetic_standard: return of the frozen cache path not found")
    for rn in frozen_rets:
        rname = rn.ast.value  # type: ignore[union-attr]
        ok_name = isinstance(rname, ast.Name)
        ok_src = False
        if ok_name:
            for st, v in fa.assignments_to(rname.id):
                if v is not None:
                    others = names_in(v) - tainted_from_m - {"cache_dir"}
                    ok_src = not others and ref not in names_in(v)
        run.instance("R19.5", f"{mod.relpath}:{rn.lineno}", "cache file name is built only from the hex capture and the cache directory", ok=ok_name and ok_src)
        if not (ok_name and ok_src):
            run.violation("R19.5", mod, fi.qualname, rn.ast, "the returned cache path is built from something other than the validated hex digest (e.g. the raw reference)")  # type: ignore[arg-type]
        # dominated by digest comparison raise
        conds = branch_conditions(cfg, rn.id)
        cmp_ok = False
        for t, val in conds:
            if isinstance(t, ast.Compare) and len(t.ops) == 1 and isinstance(t.ops[0], (ast.NotEq, ast.Eq)):
                sides = [t.left, t.comparators[0]]
                if all(isinstance(s, ast.Name) for s in sides):
                    a, b = sides[0].id, sides[1].id  # type: ignore[union-attr]
                    def derives_hash(nm: str) -> bool:
                        return any(v is not None and isinstance(v, ast.Call) and ast.unparse(v.func).endswith("compute_vocabulary_hash") and v.args and ok_name and is_name(v.args[0], rname.id) for _, v in fa.assignments_to(nm))
                    def derives_digest(nm: str) -> bool:
                        return nm in tainted_from_m
                    if ((derives_hash(a) and derives_digest(b)) or (derives_hash(b) and derives_digest(a))):
                        want = False if isinstance(t.ops[0], ast.NotEq) else True
                        if val is want:
                            cmp_ok = True
        run.instance("R19.5", f"{mod.relpath}:{rn.lineno}", "return of the cache path is dominated by `hash(file) == expected digest`", ok=cmp_ok)
        if not cmp_ok:
            run.violation("R19.5", mod, fi.qualname, "digest comparison before returning the frozen cache path", "the cached file is returned without its content hash having been compared with the requested digest", line=rn.lineno)


# ------------------------------------------------------------------ R19.6
def _r19_6(run: Run, res: Resolver) -> None:
    mod = run.project.mod("core.hydrator")
    for qual, pname in (("_check_single_snapshot", "source_uri"), ("validate_source_uri", "source_uri")):
        fi = mod.func(qual)
        fa = FuncAnalysis(fi, res)
        cfg = fa.cfg
        tainted = taint_closure(fi.node, [pname])
        # containment call: <resolved>.relative_to(<root>) inside try with except ValueError -> return/raise
        rel_nodes = [n for s in fa.sites if isinstance(s.call.func, ast.Attribute) and s.call.func.attr in ("relative_to", "is_relative_to") and names_in(s.call.func.value) & tainted for n in s.nodes]
        ok_rel = bool(rel_nodes)
        # the exceptional edge of relative_to must lead to a handler that cannot reach later fs accesses
        uses = []
        for s in fa.sites:
            recv = names_in(s.call.func.value) if isinstance(s.call.func, ast.Attribute) else set()
            args = set()
            for a in s.call.args:
                args |= names_in(a)
            if (recv | args) & tainted and (s.effect in (fsm.READ, fsm.WRITE_OPEN, fsm.STAT_FOLLOW, fsm.LISTDIR) or s.is_repo(":compute_vocabulary_hash")) and not (isinstance(s.call.func, ast.Attribute) and s.call.func.attr == "resolve"):
                uses.append(s)
        for s in uses:
            ok = ok_rel and all(any(cfg.dominated_by(n, r) for r in rel_nodes) for n in s.nodes)
            # and the handler of relative_to's failure does not fall through to the use
            if ok:
                for r in rel_nodes:
                    for t, lab in cfg.succ[r]:
                        if lab == "x" and cfg.nodes[t].kind == "handler":
                            if any(cfg.path_exists(t, n) for n in s.nodes):
                                ok = False
            run.instance("R19.6", mod.loc(s.call), f"{qual}: `{norm(s.call)}` on a SOURCE_URI-derived path happens only after relative_to(root) succeeded", ok=ok)
            if not ok:
                run.violation("R19.6", mod, qual, s.call, "a file derived from the untrusted SOURCE_URI is accessed without the resolved path having been proved to lie under the allowed root")
        if qual == "validate_source_uri":
            for rn in [n for n in cfg.nodes if isinstance(n.ast, ast.Return) and n.ast.value is not None and names_in(n.ast.value) & tainted]:
                ok = ok_rel and any(cfg.dominated_by(rn.id, r) for r in rel_nodes)
                run.instance("R19.6", f"{mod.relpath}:{rn.lineno}", f"{qual}: resolved path is returned only after relative_to(base) succeeded", ok=ok)
                if not ok:
                    run.violation("R19.6", mod, qual, rn.ast, "validate_source_uri returns a path that was not checked for containment")  # type: ignore[arg-type]
    # allowed_root passed to check_staleness must not derive from the parsed (untrusted) document
    n_calls = 0
    for f2 in run.project.all_functions():
        for n in walk_no_nested(f2.node):
            if isinstance(n, ast.Call) and any(c.kind == "repo" and c.name.endswith(":check_staleness") for c in res.resolve_call(f2, n)):
                n_calls += 1
                root_arg = None
                for k in n.keywords:
                    if k.arg == "allowed_root":
                        root_arg = k.value
                if len(n.args) >= 3:
                    root_arg = n.args[2]
                doc_arg = n.args[0] if n.args else None
                doc_names = names_in(doc_arg) if doc_arg is not None else set()
                if root_arg is None:
                    run.instance("R19.6", f2.module.loc(n), f"{f2.qualname}: check_staleness without allowed_root (defaults to base_path)", ok=True)
                    continue
                fa2 = FuncAnalysis(f2, res)
                doc_tainted = taint_closure(f2.node, doc_names)
                bad_defs = []
                for nm in names_in(root_arg):
                    for st, v in fa2.assignments_to(nm):
                        if v is not None and names_in(v) & doc_tainted:
                            bad_defs.append(v)
                ok = not bad_defs
                run.instance("R19.6", f2.module.loc(n), f"{f2.qualname}: allowed_root of check_staleness does not derive from the document being checked", ok=ok)
                for v in bad_defs:
                    run.violation("R19.6", f2.module, f2.qualname, (ast.unparse(v.func) + "(<document>, ...)") if isinstance(v, ast.Call) else norm(v), "the containment root handed to check_staleness is computed from the document's own SOURCE_URI values: a document can widen its own sandbox",
                                  failing_input='hydrated document with SOURCE_URI::"../../../../etc/hostname": `octave hydrate --check` reads that file and prints its hash prefix')
    if n_calls == 0:
        raise AnalysisError("no call of check_staleness found")


# ------------------------------------------------------------------ R19.7
def _r19_7(run: Run, res: Resolver) -> None:
    from .c16 import install_functions, target_aliases

    for inst in install_functions(run, res):
        if inst.mkstemp is None:
            continue
        fa = inst.fa
        cfg = fa.cfg
        fi = fa.fi
        aliases = target_aliases(inst)
        M = inst.node(inst.mkstemp)
        ok = False
        for t, val in branch_conditions(cfg, M):
            calls = [c for c in ast.walk(t) if isinstance(c, ast.Call) and isinstance(c.func, ast.Attribute) and c.func.attr == "is_symlink" and names_in(c.func.value) & aliases]
            if calls and val is False and not (isinstance(t, ast.BoolOp) and isinstance(t.op, ast.Or)):
                # `if X and is_symlink(): return error` : reaching mkstemp on the false edge; the weakness of X is R19.3's business
                ok = True
            if calls and isinstance(t, ast.UnaryOp) and isinstance(t.op, ast.Not) and val is True:
                ok = True
        run.instance("R19.7", f"{fi.module.relpath}:{inst.mkstemp.call.lineno}", f"{fi.qualname}: is_symlink(target) rejection dominates mkstemp", ok=ok)
        if not ok:
            run.violation("R19.7", fi.module, fi.qualname, "is_symlink(target) re-check before mkstemp", "the temp file is created (and later renamed onto the target) without the target's final component having been re-checked for being a symlink")
