"""C04 Every scalar value survives write-then-read with value and type intact."""
from __future__ import annotations

import ast
import itertools

from .. import bare, lexmodel, rx
from ..report import Run
from ..source import AnalysisError, FuncInfo, Module, RegexConst, norm, walk_no_nested


# ----------------------------------------------------------------------------- escape tables
def replace_chain(expr: ast.AST) -> tuple[ast.AST, list[tuple[str, str]]] | None:
    """x.replace(a,b).replace(c,d)... -> (x, [(a,b),(c,d)]) with constant arguments"""
    pairs: list[tuple[str, str]] = []
    cur = expr
    while isinstance(cur, ast.Call) and isinstance(cur.func, ast.Attribute) and cur.func.attr == "replace" and len(cur.args) == 2 and all(isinstance(a, ast.Constant) and isinstance(a.value, str) for a in cur.args):
        pairs.append((cur.args[0].value, cur.args[1].value))  # type: ignore[union-attr]
        cur = cur.func.value
    if not pairs:
        return None
    return cur, list(reversed(pairs))


def emitter_escape_chains(em: Module, project=None) -> list[tuple[FuncInfo, ast.AST, list[tuple[str, str]]]]:
    """escape chains of the emitter: `x.replace(a, b).replace(c, d)...` and the table-driven form
    `for a, b in TABLE: x = x.replace(a, b)` with TABLE a module constant of string pairs"""
    out = []
    for fi in em.functions.values():
        for n in walk_no_nested(fi.node):
            if isinstance(n, ast.Assign) and isinstance(n.value, ast.Call):
                rc = replace_chain(n.value)
                if rc and len(rc[1]) >= 2 and any(a == "\\" for a, _ in rc[1]):
                    out.append((fi, n, rc[1]))
            if project is not None and isinstance(n, ast.For) and isinstance(n.target, ast.Tuple) and len(n.target.elts) == 2 and all(isinstance(e, ast.Name) for e in n.target.elts) and len(n.body) == 1:
                a, b = (e.id for e in n.target.elts)  # type: ignore[union-attr]
                st = n.body[0]
                if isinstance(st, ast.Assign) and len(st.targets) == 1 and isinstance(st.targets[0], ast.Name) and isinstance(st.value, ast.Call) and isinstance(st.value.func, ast.Attribute) and st.value.func.attr == "replace" and ast.unparse(st.value.func.value) == st.targets[0].id and [ast.unparse(x) for x in st.value.args] == [a, b]:
                    table = project.try_fold(em, n.iter)
                    if isinstance(table, (tuple, list)) and table and all(isinstance(p, (tuple, list)) and len(p) == 2 and all(isinstance(x, str) for x in p) for p in table):
                        chain = [(p[0], p[1]) for p in table]
                        if any(x == "\\" for x, _ in chain):
                            out.append((fi, n, chain))
    return out


def function_replace_chain(fi: FuncInfo, project) -> list[tuple[str, str]]:
    """all constant str.replace steps of a function in source order: `x = y.replace(a, b).replace(c, d)` statements and
    table-driven loops `for a, b in TABLE: x = x.replace(a, b)` (TABLE folding to a sequence of string pairs)"""
    steps: list[tuple[int, list[tuple[str, str]]]] = []
    in_loop: set[int] = set()
    for n in walk_no_nested(fi.node):
        if isinstance(n, ast.For) and isinstance(n.target, ast.Tuple) and len(n.target.elts) == 2 and all(isinstance(e, ast.Name) for e in n.target.elts) and len(n.body) == 1:
            a, b = (e.id for e in n.target.elts)  # type: ignore[union-attr]
            st = n.body[0]
            if isinstance(st, ast.Assign) and len(st.targets) == 1 and isinstance(st.targets[0], ast.Name) and isinstance(st.value, ast.Call) and isinstance(st.value.func, ast.Attribute) and st.value.func.attr == "replace" and ast.unparse(st.value.func.value) == st.targets[0].id and [ast.unparse(x) for x in st.value.args] == [a, b]:
                table = project.try_fold(fi.module, n.iter)
                if isinstance(table, (tuple, list)) and table and all(isinstance(p, (tuple, list)) and len(p) == 2 and all(isinstance(x, str) for x in p) for p in table):
                    steps.append((n.lineno, [(p[0], p[1]) for p in table]))
                    in_loop.add(id(st))
    for n in walk_no_nested(fi.node):
        if isinstance(n, (ast.Assign, ast.Return)) and id(n) not in in_loop and isinstance(n.value, ast.Call):
            rc = replace_chain(n.value)
            if rc:
                steps.append((n.lineno, rc[1]))
    # one-pass `x.translate(str.maketrans({c: repl, ...}))`: the sequential chain it is equivalent to, when there is one
    for n in walk_no_nested(fi.node):
        if isinstance(n, (ast.Assign, ast.Return)) and isinstance(n.value, ast.Call) and isinstance(n.value.func, ast.Attribute) and n.value.func.attr == "translate" and len(n.value.args) == 1:
            tc = translate_chain(fi, project, n.value.args[0])
            if tc:
                steps.append((n.lineno, tc))
    return [p for _ln, ps in sorted(steps, key=lambda x: x[0]) for p in ps]


def translate_chain(fi: FuncInfo, project, table: ast.AST) -> list[tuple[str, str]] | None:
    """`str.maketrans({c1: r1, ...})` (single-character string keys, string replacements), given directly or through a module
    constant: a single pass that replaces each ci by ri equals the sequential chain `.replace(ci, ri)` taken in any order in
    which no step rewrites the output of an earlier one, i.e. ci comes before cj whenever ci occurs in rj (i != j). Returns that
    chain (ties in source order), or None when the table is not of this form or no such order exists."""
    t = table
    if isinstance(t, ast.Name) and fi.module.has_const(t.id):
        try:
            t = fi.module.const_node(t.id)
        except Exception:
            return None
    if not (isinstance(t, ast.Call) and ast.unparse(t.func) == "str.maketrans" and len(t.args) == 1 and isinstance(t.args[0], ast.Dict) and not t.keywords):
        return None
    d = t.args[0]
    pairs: list[tuple[str, str]] = []
    for k, v in zip(d.keys, d.values):
        if not (isinstance(k, ast.Constant) and isinstance(k.value, str) and len(k.value) == 1 and isinstance(v, ast.Constant) and isinstance(v.value, str)):
            return None
        pairs.append((k.value, v.value))
    if len({k for k, _ in pairs}) != len(pairs):
        return None
    out: list[tuple[str, str]] = []
    rest = list(pairs)
    while rest:
        # next: a key that no remaining OTHER step must precede, i.e. whose own replacement contains no other remaining key
        nxt = next((p for p in rest if not any(q[0] in p[1] for q in rest if q is not p)), None)
        if nxt is None:
            return None
        out.append(nxt)
        rest.remove(nxt)
    return out


def apply_chain(s: str, chain: list[tuple[str, str]]) -> str:
    for a, b in chain:
        s = s.replace(a, b)
    return s


class Decoder:
    def __init__(self, kind: str, data, node: ast.AST):
        self.kind, self.data, self.node = kind, data, node

    def decode(self, s: str) -> str:
        if self.kind == "chain":
            return apply_chain(s, self.data)
        # single pass: pattern = backslash + one of keys ; mapping
        keys, mapping = self.data
        out = []
        i = 0
        while i < len(s):
            if s[i] == "\\" and i + 1 < len(s) and s[i + 1] in keys:
                out.append(mapping[s[i + 1]])
                i += 2
            else:
                out.append(s[i])
                i += 1
        return "".join(out)

    def describe(self) -> str:
        if self.kind == "chain":
            return "sequential replace chain " + " ; ".join(f"{a!r}->{b!r}" for a, b in self.data)
        return f"single-pass substitution of backslash+[{''.join(sorted(self.data[0]))}] via {self.data[1]!r}"


def lexer_decoder(run: Run, lx: Module) -> Decoder:
    """the unescape step of the STRING branch of tokenize: either a sequential replace chain or one re.sub over a backslash-escape pattern"""
    fi = lx.func("tokenize")
    # locate the STRING branch
    branch = None
    for n in walk_no_nested(fi.node):
        if isinstance(n, ast.If) and isinstance(n.test, ast.Compare) and ast.unparse(n.test) == "token_type == TokenType.STRING":
            branch = n
    if branch is None:
        raise AnalysisError("tokenize: `token_type == TokenType.STRING` branch not found")
    chain: list[tuple[str, str]] = []
    first_node = None
    # statements of the branch, plus the bodies of lexer helpers the branch calls (the decoding may have been extracted)
    stmts: list[ast.AST] = list(branch.body)
    for st in branch.body:
        for c in ast.walk(st):
            if isinstance(c, ast.Call) and isinstance(c.func, ast.Name) and lx.has_func(c.func.id):
                stmts += list(lx.func(c.func.id).node.body)  # type: ignore[attr-defined]
    for st in stmts:
        for n in ast.walk(st):
            if isinstance(n, (ast.Assign, ast.Return)) and isinstance(n.value, ast.Call):
                rc = replace_chain(n.value)
                if rc:
                    chain.extend(rc[1])
                    first_node = first_node or n
                v = n.value
                if isinstance(v.func, ast.Attribute) and v.func.attr == "sub" and len(v.args) == 2:
                    patname = v.func.value
                    pat = run.project.const(lx, patname.id) if isinstance(patname, ast.Name) else None
                    if ast.unparse(v.func) == "re.sub":
                        raise AnalysisError("tokenize: re.sub with inline pattern not recognised")
                    if not isinstance(pat, RegexConst):
                        raise AnalysisError("tokenize: substitution pattern is not a regex constant")
                    keys = _escape_keys(pat.pattern)
                    repl = v.args[0]
                    mapping = None
                    if isinstance(repl, ast.Lambda) and isinstance(repl.body, ast.Subscript) and isinstance(repl.body.value, ast.Name):
                        mapping = run.project.const(lx, repl.body.value.id)
                        idx = repl.body.slice
                        if not (isinstance(idx, ast.Call) and ast.unparse(idx).endswith(".group(1)")):
                            raise AnalysisError("tokenize: substitution lambda does not index the map by group(1)")
                    if not isinstance(mapping, dict) or set(mapping) != set(keys):
                        raise AnalysisError(f"tokenize: unescape map keys {sorted(mapping) if isinstance(mapping, dict) else mapping} differ from the pattern's escape characters {sorted(keys)}")
                    return Decoder("single", (set(keys), mapping), n)
    if chain:
        return Decoder("chain", chain, first_node)  # type: ignore[arg-type]
    # nothing in the branch (or in the helpers it calls) can decode anything: the value is the raw text between the quotes. That
    # is a decoder too - the identity - and the round-trip rules judge it like any other (they report it)
    could_decode = {"sub", "subn", "replace", "translate", "decode", "encode", "literal_eval", "loads", "unescape", "unicode_escape", "maketrans", "join", "split"}
    called = {(c.func.attr if isinstance(c.func, ast.Attribute) else getattr(c.func, "id", "?")) for st in stmts for c in ast.walk(st) if isinstance(c, ast.Call)}
    if not (called & could_decode) and not any(isinstance(n, (ast.For, ast.While, ast.ListComp, ast.GeneratorExp)) for st in stmts for n in ast.walk(st)):
        return Decoder("chain", [], branch)
    raise AnalysisError("tokenize: no unescape step recognised in the STRING branch")


def _escape_keys(pattern: str) -> list[str]:
    import re._constants as sc  # type: ignore[import-not-found]
    import re._parser as sp  # type: ignore[import-not-found]

    t = list(sp.parse(pattern))
    if len(t) == 2 and t[0][0] is sc.LITERAL and chr(t[0][1]) == "\\" and t[1][0] is sc.SUBPATTERN:
        inner = list(t[1][1][3])
        if len(inner) == 1 and inner[0][0] is sc.IN and all(op is sc.LITERAL for op, _ in inner[0][1]):
            return [chr(av) for _, av in inner[0][1]]
        if len(inner) == 1 and inner[0][0] is sc.LITERAL:
            return [chr(inner[0][1])]
    raise AnalysisError(f"unescape pattern {pattern!r} is not backslash + (one of a character set)")


def check_escape_inverse(run: Run, rule: str, rule_sib: str) -> None:
    em = run.project.mod("core.emitter")
    lx = run.project.mod("core.lexer")
    chains = emitter_escape_chains(em, run.project)
    if len(chains) < 1:
        raise AnalysisError("emitter.py: no escape chain found (neither a .replace() chain nor a table-driven loop)")
    base = chains[0][2]
    for fi, node, ch in chains:
        ok = ch == base
        run.instance(rule_sib, em.loc(node), f"{fi.qualname}: escape chain {ch}", ok=ok)
        if not ok:
            run.violation(rule_sib, em, fi.qualname, node, f"this copy of the escape chain {ch} differs from {chains[0][0].qualname}'s {base}: the same string is written differently depending on where it sits")
    dec = lexer_decoder(run, lx)
    # the quoted-string token regex must accept every encoded text (escape pairs and plain characters) - structural: `\\.` alternative present
    alphabet = sorted({c for a, b in base for c in a + b} | ({c for a, b in dec.data for c in a + b} if dec.kind == "chain" else set(dec.data[0]) | {c for v in dec.data[1].values() for c in v}) | {"x", "r"})
    k = (len(dec.data) if dec.kind == "chain" else 1) + 1
    bound = min(max(k, 3), 5)
    n = 0
    witness = None
    for L in range(0, bound + 1):
        for tup in itertools.product(alphabet, repeat=L):
            s = "".join(tup)
            n += 1
            enc = apply_chain(s, base)
            if dec.decode(enc) != s:
                witness = (s, enc, dec.decode(enc))
                break
        if witness:
            break
    run.extra["escape_model_strings_evaluated"] = n
    run.extra["escape_alphabet"] = alphabet
    run.instance(rule, lx.loc(dec.node), f"decode(encode(s)) == s for all {n} strings up to length {bound} over {alphabet!r}; encoder {base}; decoder: {dec.describe()}", ok=witness is None)
    if witness:
        s, enc, back = witness
        run.violation(rule, lx, "tokenize", dec.node, f"the lexer's unescape step is not the inverse of the emitter's escape chain: the value {s!r} is written as \"{enc}\" and read back as {back!r}",
                      value=repr(s), written=enc, read_back=repr(back), decoder=dec.describe())
    # encoder is a character homomorphism with a prefix code (each source is one char, images distinct, no image is a prefix of another, backslash first)
    srcs = [a for a, _ in base]
    ok = all(len(a) == 1 for a in srcs) and len(set(srcs)) == len(srcs) and base[0][0] == "\\" and all(b.startswith("\\") and len(b) == 2 for _, b in base)
    run.instance(rule, em.loc(chains[0][1]), "encoder: backslash escaped first; every escaped character maps to backslash + one character", ok=ok)
    if not ok:
        run.violation(rule, em, chains[0][0].qualname, chains[0][1], "the escape chain is not `backslash first, then one backslash pair per special character`: later replacements would re-escape earlier output")
    # characters that force quoting but are not escaped must be representable raw inside quotes: the emitter escapes \\ \" \n \t
    must = {"\\", '"', "\n", "\t"}
    ok = must <= set(srcs)
    run.instance(rule, em.loc(chains[0][1]), f"encoder covers {sorted(must)!r}", ok=ok)
    if not ok:
        run.violation(rule, em, chains[0][0].qualname, chains[0][1], f"the escape chain does not escape {sorted(must - set(srcs))!r}: a value containing it cannot be read back")


# ----------------------------------------------------------------------------- bool before int
BOOL_SUPERTYPES = ("int", "float", "complex", "int | float", "(int, float)", "Number", "numbers.Number")


def isinstance_chain_violations(fi: FuncInfo):
    """within one if/elif chain (or a sequence of early-returning ifs) testing the same name, a test that bool satisfies
    (int, int|float) must come after a bool test"""
    tests: dict[str, list[tuple[int, str, ast.AST]]] = {}
    # order of evaluation in the text of the function as the rules read it (statements of a helper read in place keep the
    # line numbers of the helper, so line numbers do not order them): depth-first position
    pos: dict[int, int] = {}

    def _number(x: ast.AST) -> None:
        pos[id(x)] = len(pos)
        for ch in ast.iter_child_nodes(x):
            _number(ch)

    _number(fi.node)
    for n in walk_no_nested(fi.node):
        if isinstance(n, ast.Call) and isinstance(n.func, ast.Name) and n.func.id == "isinstance" and len(n.args) == 2:
            subj = ast.unparse(n.args[0])
            tests.setdefault(subj, []).append((pos.get(id(n), n.lineno), ast.unparse(n.args[1]), n))
    # a non-literal type argument (e.g. a name looked up in a type map) counts as numeric when the function's
    # dict literals mention int/float
    def numeric_dict(d: ast.AST) -> bool:
        return isinstance(d, ast.Dict) and any(isinstance(x, ast.Name) and x.id in ("int", "float") for v in d.values for x in ast.walk(v))

    has_numeric_map = any(numeric_dict(d) for d in walk_no_nested(fi.node))
    if not has_numeric_map:
        # the type map may be a module constant the function looks names up in
        for nm in {x.id for x in walk_no_nested(fi.node) if isinstance(x, ast.Name)}:
            if fi.module.has_const(nm) and numeric_dict(fi.module.const_node(nm)):
                has_numeric_map = True
    def flag_ok(node: ast.Call) -> bool:
        """a bool test conjoined with a flag read from a table row (`spec.rejects_bool and isinstance(v, bool)`) counts only when
        every row of that table whose types include int / float sets the flag"""
        par = getattr(node, "_parent", None)
        if not (isinstance(par, ast.BoolOp) and isinstance(par.op, ast.And)):
            return True
        flags = [v for v in par.values if isinstance(v, ast.Attribute) and isinstance(v.value, ast.Name)]
        if not flags:
            return len(par.values) == 1 or all(v is node or not isinstance(v, (ast.Attribute, ast.Name)) for v in par.values)
        from ..inline import record_fields

        for fl in flags:
            ok_rows = False
            for nm in {x.id for x in walk_no_nested(fi.node) if isinstance(x, ast.Name)}:
                if not fi.module.has_const(nm):
                    continue
                table = fi.module.const_node(nm)
                if not isinstance(table, ast.Dict):
                    continue
                rows = [v for v in table.values if isinstance(v, ast.Call) and isinstance(v.func, ast.Name) and v.func.id in fi.module.classes]
                if not rows:
                    continue
                fields = record_fields(fi.module.classes[rows[0].func.id].node) or []  # type: ignore[union-attr]
                def field_value(r: ast.Call, f: str):
                    for k in r.keywords:
                        if k.arg == f:
                            return k.value
                    return r.args[fields.index(f)] if f in fields and fields.index(f) < len(r.args) else None
                numeric_rows = [r for r in rows if any(isinstance(x, ast.Name) and x.id in ("int", "float") for a in list(r.args) + [k.value for k in r.keywords] for x in ast.walk(a))]
                if numeric_rows and all(isinstance(field_value(r, fl.attr), ast.Constant) and field_value(r, fl.attr).value is True for r in numeric_rows):
                    ok_rows = True
            if not ok_rows:
                return False
        return True

    for subj, lst in tests.items():
        lst.sort(key=lambda x: x[0])
        seen_bool = False
        for line, ty, node in lst:
            parts = [p.strip() for p in ty.strip("()").replace("|", ",").split(",")]
            if "bool" in parts and flag_ok(node):
                seen_bool = True
            dynamic_numeric = has_numeric_map and ((isinstance(node.args[1], ast.Name) and node.args[1].id not in ("str", "list", "dict", "bool", "int", "float", "tuple", "set")) or (isinstance(node.args[1], ast.Attribute) and isinstance(node.args[1].value, ast.Name)))
            if (any(p in ("int", "float") for p in parts) and "bool" not in parts) or dynamic_numeric:
                # a negated test `not isinstance(v, int|float)` rejecting non-numbers also needs the bool test first
                yield subj, node, seen_bool
    # a numeric conversion of a parameter (float(value) / int(value)) treats True/False as 1/0 just as well: a bool test on
    # the same name must come first
    params = {a.arg for a in fi.node.args.args}  # type: ignore[attr-defined]
    for n in walk_no_nested(fi.node):
        if isinstance(n, ast.Call) and isinstance(n.func, ast.Name) and n.func.id in ("float", "int") and len(n.args) == 1 and isinstance(n.args[0], ast.Name) and n.args[0].id in params:
            subj = n.args[0].id
            if any(isinstance(t[2], ast.Call) and t[0] <= pos.get(id(n), n.lineno) and any(p.strip() in ("int", "float") for p in t[1].strip("()").replace("|", ",").split(",")) for t in tests.get(subj, [])):
                continue  # already reported through the isinstance test that guards the conversion
            seen_bool = any("bool" in [p.strip() for p in t[1].strip("()").replace("|", ",").split(",")] and t[0] < pos.get(id(n), n.lineno) for t in tests.get(subj, []))
            yield subj, n, seen_bool


def check_bool_before_int(run: Run, rule: str, scope: list[tuple[str, str]]) -> None:
    n = 0
    for modname, qual in scope:
        m = run.project.mod(modname)
        fi = m.func(qual)
        found = list(isinstance_chain_violations(fi))
        if not found:
            # the scalar branches may have been moved into a helper of the same module that receives the value
            params = {a.arg for a in fi.node.args.args}  # type: ignore[attr-defined]
            for c in walk_no_nested(fi.node):
                if isinstance(c, ast.Call) and isinstance(c.func, ast.Name) and m.has_func(c.func.id) and any(isinstance(a, ast.Name) and a.id in params for a in c.args):
                    sub = list(isinstance_chain_violations(m.func(c.func.id)))
                    if sub:
                        found = sub
                        qual = f"{qual} -> {c.func.id}"
                        break
        if not found:
            raise AnalysisError(f"{fi.fqn}: no numeric isinstance test found (anchor moved?)")
        for subj, node, seen_bool in found:
            n += 1
            run.instance(rule, m.loc(node), f"{qual}: `{norm(node)}` is preceded by a bool test on `{subj}`", ok=seen_bool)
            if not seen_bool:
                run.violation(rule, m, qual, node, f"`{subj}` is tested for int/float without a preceding bool test: True/False (instances of int) would be treated as numbers")


# ----------------------------------------------------------------------------- number spelling
_EXACT_SPECS = {"", "r", ".17g", ".17e", "!r"}


def _exact_spec(spec: object) -> bool:
    """a format spec that cannot lose digits: none, repr-like 17 significant digits, an integer presentation (d with optional
    fill / width), or a pure string alignment / width (<10, >8s) - everything with a precision or a float presentation can"""
    import re as _re

    return isinstance(spec, str) and (spec in _EXACT_SPECS or bool(_re.fullmatch(r"(.?[<>^=])?[+ ]?0?\d*,?d", spec)) or bool(_re.fullmatch(r"(.?[<>^])?\d*s?", spec)))


def check_number_spelling(run: Run, rule: str) -> None:
    """str()/repr() of a float is the shortest text that reads back as the same double; any precision-limited spelling is not"""
    run.rule(rule, "numbers are spelled by str()/repr() only: in the emitter no format(x, <spec>), f-string field with a format spec, '%'-formatting, str.format or round() is applied on the way from a value to its text (15 significant digits or 6 decimals do not reproduce a double: 0.30000000000000004 -> 0.3, 1.5e-07 -> 0.0); emit_value's number branch returns str(value)/repr(value)", 2)
    em = run.project.mod("core.emitter")
    n = 0
    for q, fi in em.functions.items():
        if q in ("_apply_format_options",):
            continue
        for c in walk_no_nested(fi.node):
            bad = None
            if isinstance(c, ast.Call) and isinstance(c.func, ast.Name) and c.func.id == "format" and len(c.args) == 2:
                spec = run.project.try_fold(em, c.args[1])
                if not _exact_spec(spec):
                    bad = f"format(..., {ast.unparse(c.args[1])})"
            elif isinstance(c, ast.Call) and isinstance(c.func, ast.Name) and c.func.id == "round":
                bad = "round(...)"
            elif isinstance(c, ast.FormattedValue) and c.format_spec is not None:
                spec = "".join(v.value for v in c.format_spec.values if isinstance(v, ast.Constant)) if all(isinstance(v, ast.Constant) for v in c.format_spec.values) else None  # type: ignore[attr-defined]
                if spec is None or not _exact_spec(spec):
                    bad = f"f-string field {{{ast.unparse(c.value)}:{spec if spec is not None else '<computed>'}}}"
            elif isinstance(c, ast.BinOp) and isinstance(c.op, ast.Mod) and ((isinstance(c.left, ast.Constant) and isinstance(c.left.value, str)) or isinstance(c.left, ast.JoinedStr)):
                bad = "'%'-formatting"
            elif isinstance(c, ast.Call) and isinstance(c.func, ast.Attribute) and c.func.attr == "format" and isinstance(c.func.value, ast.Constant) and isinstance(c.func.value.value, str) and ":" in c.func.value.value:
                bad = "str.format with a format spec"
            elif isinstance(c, ast.Call) and isinstance(c.func, ast.Attribute) and c.func.attr in ("__format__", "hex", "as_integer_ratio"):
                bad = f".{c.func.attr}()"
            if bad:
                n += 1
                run.instance(rule, em.loc(c), f"{q}: {bad}", ok=False)
                run.violation(rule, em, q, c, f"{q} spells a value with {bad}: a precision- or width-limited spelling does not read back as the same number (and two different numbers get the same text, so a seal or a diff no longer sees the change)")
    # the number branch of emit_value
    fi = em.func("emit_value")
    from ..cfg import CFG, atomic_conditions
    cfg = CFG(fi.node)
    pvalue = fi.node.args.args[0].arg  # type: ignore[attr-defined]
    found = 0
    for rn in [x for x in cfg.nodes if isinstance(x.ast, ast.Return)]:
        conds = atomic_conditions(cfg, rn.id)
        numeric = any(val and isinstance(t, ast.Call) and isinstance(t.func, ast.Name) and t.func.id == "isinstance" and len(t.args) == 2 and isinstance(t.args[0], ast.Name) and t.args[0].id == pvalue and {x.id for x in ast.walk(t.args[1]) if isinstance(x, ast.Name)} & {"int", "float"} and not {x.id for x in ast.walk(t.args[1]) if isinstance(x, ast.Name)} - {"int", "float"} for t, val in conds)
        if not numeric:
            continue
        found += 1
        v = rn.ast.value  # type: ignore[union-attr]
        # the returned text: str(value) / repr(value), or a local every definition of which is that (possibly with '.0' appended)
        def exact(e: ast.AST | None, depth: int = 0) -> bool:
            if isinstance(e, ast.Call) and isinstance(e.func, ast.Name) and e.func.id in ("str", "repr") and len(e.args) == 1 and isinstance(e.args[0], ast.Name) and e.args[0].id == pvalue:
                return True
            if isinstance(e, ast.Call) and isinstance(e.func, ast.Name) and e.func.id == "format" and len(e.args) == 2 and isinstance(e.args[0], ast.Name) and e.args[0].id == pvalue:
                return run.project.try_fold(em, e.args[1]) in _EXACT_SPECS
            if isinstance(e, ast.Name) and depth < 3:
                defs = [a.value for a in walk_no_nested(fi.node) if isinstance(a, ast.Assign) and any(isinstance(t, ast.Name) and t.id == e.id for t in a.targets)]
                augs = [a for a in walk_no_nested(fi.node) if isinstance(a, ast.AugAssign) and isinstance(a.target, ast.Name) and a.target.id == e.id]
                return bool(defs) and all(exact(d, depth + 1) for d in defs) and all(isinstance(a.op, ast.Add) and isinstance(a.value, ast.Constant) and a.value.value in (".0", "0") for a in augs)
            if isinstance(e, ast.BinOp) and isinstance(e.op, ast.Add) and isinstance(e.right, ast.Constant) and e.right.value in (".0", "0"):
                return exact(e.left, depth)
            return False

        ok = exact(v)
        n += 1
        run.instance(rule, em.loc(rn.ast), f"emit_value: a number is returned as `{norm(v) if v is not None else None}`", ok=ok)
        if not ok:
            run.violation(rule, em, "emit_value", rn.ast, f"the number branch of emit_value returns `{norm(v) if v is not None else None}`, which is not str(value) / repr(value) (the shortest spelling that reads back as the same int or double)")
    if not found:
        raise AnalysisError("emit_value: no return under isinstance(value, int | float) found; how numbers are spelled is not decided")
    ctl = ast.parse("format(v, '.15g')").body[0].value  # type: ignore[attr-defined]
    run.control(rule, "format(v, '.15g') is recognised as a precision-limited spelling", isinstance(ctl, ast.Call) and ctl.args[1].value not in _EXACT_SPECS)  # type: ignore[attr-defined]


# ----------------------------------------------------------------------------- the parser keeps the token's kind
def check_parser_keeps_kind(run: Run, rule: str) -> None:
    """what kind of value a token is, is decided by the lexer (and mirrored by the emitter's quoting decision) - not re-decided by the parser"""
    run.rule(rule, "the parser does not re-decide the kind of a scalar: in Parser.parse_value / parse_list_item a literal True / False / None, a comparison or a conditional of those is returned only in a branch for a BOOLEAN / NULL token (or is the empty-value fallback); a word (IDENTIFIER / STRING token) is returned as text - turning the text True / NULL into a boolean / null there would make a string the emitter leaves bare come back as another kind", 1)
    pm = run.project.mod("core.parser")
    from ..cfg import CFG, atomic_conditions

    n = 0
    for q in ("Parser.parse_value", "Parser.parse_list_item"):
        if not pm.has_func(q):
            continue
        fi = pm.func(q)
        cfg = CFG(fi.node)

        def kindish(e: ast.AST | None) -> bool:
            if isinstance(e, ast.Constant) and (isinstance(e.value, bool) or e.value is None):
                return True
            if isinstance(e, ast.Compare):
                return True
            if isinstance(e, ast.IfExp):
                return kindish(e.body) or kindish(e.orelse)
            if isinstance(e, ast.UnaryOp) and isinstance(e.op, ast.Not):
                return True
            return False

        for rn in [x for x in cfg.nodes if isinstance(x.ast, ast.Return)]:
            v = rn.ast.value  # type: ignore[union-attr]
            if v is None or not kindish(v):
                continue
            if isinstance(v, ast.Constant) and v.value is None:
                # `return None` as "no value here" (callers test for it) is not a null VALUE when nothing was consumed; judged
                # only when a token's text was looked at on the way
                conds0 = atomic_conditions(cfg, rn.id)
                if not any(".value" in ast.unparse(t) and ("in " in ast.unparse(t) or "==" in ast.unparse(t)) for t, _v in conds0):
                    continue
            n += 1
            conds = atomic_conditions(cfg, rn.id)
            ok = any(val and isinstance(t, ast.Compare) and ".type" in ast.unparse(t.left) and any(k in ast.unparse(t) for k in ("TokenType.BOOLEAN", "TokenType.NULL")) for t, val in conds)
            run.instance(rule, pm.loc(rn.ast), f"{q}: `{norm(rn.ast)[:70]}` in a BOOLEAN / NULL token branch", ok=ok)
            if not ok:
                run.violation(rule, pm, q, rn.ast, f"{q} returns `{norm(v)[:60]}` - a boolean / null made by the parser - outside the branch for a BOOLEAN / NULL token: a word such as True or NULL (which the emitter writes bare for the STRING \"True\") is read back as a boolean / null, so a value changes kind on write-then-read and a sealed document stops verifying after a round trip")
    run.instance(rule, "src/octave_mcp/core/parser.py", f"{n} return(s) of boolean / null / comparison values examined in parse_value / parse_list_item", ok=True, nontrivial=False)
    ctl = ast.parse("def f(t):\n    if t.value in W:\n        return None if W[t.value] == 'null' else W[t.value] == 'true'\n    return t.value\n").body[0]
    rets = [r for r in ast.walk(ctl) if isinstance(r, ast.Return)]
    run.control(rule, "a sample `return None if lit == 'null' else lit == 'true'` outside a BOOLEAN branch is recognised", any(isinstance(r.value, ast.IfExp) for r in rets))


# ----------------------------------------------------------------------------- equality between kinds
def _bool_const(e: ast.AST) -> bool:
    return isinstance(e, ast.Constant) and isinstance(e.value, bool)


def _bool_keyed_findings(tree: ast.AST, tables: dict[str, ast.Dict]):
    """(node, key expression, what) for every lookup by equality / hash in a collection that holds True / False, made with a key
    that is not known to be a bool: 1 == True and 0 == False (also 1.0, 0.0), with equal hashes"""
    from ..cfg import CFG, atomic_conditions

    funcs = [f for f in ast.walk(tree) if isinstance(f, (ast.FunctionDef, ast.AsyncFunctionDef))]
    for f in funcs:
        local = dict(tables)
        for a in ast.walk(f):
            if isinstance(a, (ast.Assign, ast.AnnAssign)) and isinstance(a.value, ast.Dict) and any(k is not None and _bool_const(k) for k in a.value.keys):
                for t in (a.targets if isinstance(a, ast.Assign) else [a.target]):
                    if isinstance(t, ast.Name):
                        local[t.id] = a.value
        sites = []
        for c in ast.walk(f):
            key = None
            what = None
            if isinstance(c, ast.Call) and isinstance(c.func, ast.Attribute) and c.func.attr in ("get", "pop", "setdefault") and c.args and ((isinstance(c.func.value, ast.Name) and c.func.value.id in local) or (isinstance(c.func.value, ast.Dict) and any(k is not None and _bool_const(k) for k in c.func.value.keys))):
                key, what = c.args[0], f"`{ast.unparse(c.func.value)[:40]}.{c.func.attr}(...)`: a table keyed by True / False"
            elif isinstance(c, ast.Subscript) and isinstance(c.ctx, ast.Load) and ((isinstance(c.value, ast.Name) and c.value.id in local) or (isinstance(c.value, ast.Dict) and any(k is not None and _bool_const(k) for k in c.value.keys))) and not isinstance(c.slice, ast.Slice):
                key, what = c.slice, f"`{ast.unparse(c.value)[:40]}[...]`: a table keyed by True / False"
            elif isinstance(c, ast.Compare) and len(c.ops) == 1 and isinstance(c.ops[0], (ast.In, ast.NotIn)):
                coll = c.comparators[0]
                if (isinstance(coll, ast.Name) and coll.id in local) or (isinstance(coll, (ast.Tuple, ast.List, ast.Set)) and any(_bool_const(e) for e in coll.elts)) or (isinstance(coll, ast.Dict) and any(k is not None and _bool_const(k) for k in coll.keys)):
                    key, what = c.left, f"membership in `{ast.unparse(coll)[:40]}`, which holds True / False"
            elif isinstance(c, ast.Compare) and len(c.ops) == 1 and isinstance(c.ops[0], (ast.Eq, ast.NotEq)) and (_bool_const(c.comparators[0]) or _bool_const(c.left)):
                key = c.left if _bool_const(c.comparators[0]) else c.comparators[0]
                what = f"`{ast.unparse(c)}`: equality with a bool constant"
            if key is None or isinstance(key, ast.Constant):
                continue
            sites.append((c, key, what))
        if not sites:
            continue
        cfg = CFG(f)
        for c, key, what in sites:
            ktxt = ast.unparse(key)
            # the statement / test node that holds the site
            holder = next((n for n in cfg.nodes if n.ast is not None and any(x is c for x in ast.walk(n.ast))), None)
            guarded = False
            if holder is not None:
                for t, val in atomic_conditions(cfg, holder.id):
                    if val and isinstance(t, ast.Call) and isinstance(t.func, ast.Name) and t.func.id == "isinstance" and len(t.args) == 2 and ast.unparse(t.args[0]) == ktxt and ast.unparse(t.args[1]) == "bool":
                        guarded = True
                    if val and isinstance(t, ast.Compare) and ast.unparse(t) in (f"type({ktxt}) is bool", f"type({ktxt}) == bool"):
                        guarded = True
            # `isinstance(k, bool) and k in T` inside one expression
            par = getattr(c, "_parent", None)
            if isinstance(par, ast.BoolOp) and isinstance(par.op, ast.And):
                before = par.values[: next(i for i, v in enumerate(par.values) if v is c)]
                if any(isinstance(v, ast.Call) and ast.unparse(v) == f"isinstance({ktxt}, bool)" for v in before):
                    guarded = True
            yield f, c, key, what, guarded


def check_bool_keyed_tables(run: Run, rule: str) -> None:
    run.rule(rule, "no lookup by equality confuses 1 with True or 0 with False: a dict / tuple / set that holds True or False is searched (get, [], in, ==) only with a key that is known to be a bool (isinstance(k, bool) on the way), because 1 == True, 0 == False, 1.0 == True with equal hashes - the numbers 0 and 1 would be rendered, converted or judged as false / true", 1)
    n = 0
    for m in run.project.modules.values():
        tables = {}
        for st in m.tree.body:
            if isinstance(st, (ast.Assign, ast.AnnAssign)) and isinstance(st.value, ast.Dict) and any(k is not None and _bool_const(k) for k in st.value.keys):
                for t in (st.targets if isinstance(st, ast.Assign) else [st.target]):
                    if isinstance(t, ast.Name):
                        tables[t.id] = st.value
        for f, c, key, what, guarded in _bool_keyed_findings(m.tree, tables):
            n += 1
            q = getattr(f, "_qualname", f.name)
            run.instance(rule, m.loc(c), f"{q}: {what} with key `{ast.unparse(key)[:40]}`" + (" (known to be a bool)" if guarded else ""), ok=guarded)
            if not guarded:
                run.violation(rule, m, q, c, f"{what} is searched with `{ast.unparse(key)[:60]}`, which may be a number: 1 and 1.0 find the entry of True, 0 and 0.0 the entry of False (equal and equal hashes), so those numbers come out as true / false")
    run.instance(rule, "src/octave_mcp", f"{n} lookup(s) in collections holding True / False examined in {len(run.project.modules)} modules", ok=True, nontrivial=False)
    ctl = ast.parse("T = {None: 'null', True: 'true', False: 'false'}\ndef f(v):\n    return T.get(v, str(v))\n")
    fired = [g for *_x, g in _bool_keyed_findings(ctl, {"T": ctl.body[0].value})]  # type: ignore[attr-defined]
    run.control(rule, "a sample table keyed by None / True / False searched with an unguarded value is recognised", fired == [False])


# ----------------------------------------------------------------------------- memoisation
def check_untyped_caches(run: Run, rule: str) -> None:
    """functools.lru_cache / cache key their arguments by equality: True == 1 == 1.0 and False == 0 == 0.0 share a slot unless
    typed=True, so a memoised value -> text (or value -> verdict) function returns the text of whichever was seen first"""
    run.rule(rule, "no memoisation that confuses values of different kinds: every functools.lru_cache in the package is created with typed=True and functools.cache (which has no typed option) is not used - otherwise True / 1 / 1.0 (and False / 0 / 0.0) share a cache slot and the result depends on which was seen first in the process", 1)
    n = 0
    for m in run.project.modules.values():
        for fi in m.functions.values():
            for d in getattr(fi.node, "decorator_list", []):
                txt = ast.unparse(d)
                base = ast.unparse(d.func) if isinstance(d, ast.Call) else txt
                if base.split(".")[-1] not in ("lru_cache", "cache"):
                    continue
                n += 1
                typed = isinstance(d, ast.Call) and any(k.arg == "typed" and isinstance(k.value, ast.Constant) and k.value.value is True for k in d.keywords)
                pargs = [a for a in fi.node.args.args + fi.node.args.kwonlyargs if a.arg not in ("self", "cls")]  # type: ignore[attr-defined]
                params = [a.arg for a in pargs]
                # keys of one kind cannot collide: parameters annotated str / bytes / Path only
                same_kind = bool(pargs) and all(a.annotation is not None and ast.unparse(a.annotation) in ("str", "bytes", "Path", "pathlib.Path", "str | None") for a in pargs)
                ok = typed or not params or same_kind
                run.instance(rule, m.loc(fi.node), f"{fi.qualname}: @{txt}", ok=ok)
                if not ok:
                    run.violation(rule, m, fi.qualname, f"@{base.split('.')[-1]} without typed=True", f"{fi.qualname} is memoised with `@{txt}`: the cache key compares arguments by equality, so True, 1 and 1.0 (False, 0, 0.0) share one entry; after the float 1.0 has been seen the boolean true is answered with the float's result (and vice versa), depending on the order of calls in the process")
    run.instance(rule, "src/octave_mcp", f"{n} memoised function(s) in the package", ok=True, nontrivial=False)
    ctl = ast.parse("@lru_cache(maxsize=8)\ndef f(v):\n    return v\n").body[0]
    run.control(rule, "an untyped @lru_cache on a sample function is recognised", any(ast.unparse(d.func if isinstance(d, ast.Call) else d).endswith("lru_cache") for d in ctl.decorator_list))  # type: ignore[attr-defined]


# ----------------------------------------------------------------------------- numbers
def check_number_lexemes(run: Run, rule: str, lm: lexmodel.LexModel) -> None:
    lx = run.project.mod("core.lexer")
    fi = lx.func("tokenize")
    from ..cfg import CFG, branch_conditions

    lexvar = "matched_text"
    convs = [n for n in walk_no_nested(fi.node) if isinstance(n, ast.Call) and isinstance(n.func, ast.Name) and n.func.id in ("int", "float") and n.args and isinstance(n.args[0], ast.Name) and n.args[0].id == lexvar]
    if len(convs) < 2:
        # the conversion may live in a helper of the lexer module that receives the lexeme
        for c in walk_no_nested(fi.node):
            if isinstance(c, ast.Call) and isinstance(c.func, ast.Name) and lx.has_func(c.func.id) and any(isinstance(a, ast.Name) and a.id == lexvar for a in c.args):
                helper = lx.func(c.func.id)
                idx = [i for i, a in enumerate(c.args) if isinstance(a, ast.Name) and a.id == lexvar][0]
                hp = [a.arg for a in helper.node.args.args]  # type: ignore[attr-defined]
                if idx < len(hp):
                    hc = [n for n in walk_no_nested(helper.node) if isinstance(n, ast.Call) and isinstance(n.func, ast.Name) and n.func.id in ("int", "float") and n.args and isinstance(n.args[0], ast.Name) and n.args[0].id == hp[idx]]
                    if len(hc) >= 2:
                        fi, convs, lexvar = helper, hc, hp[idx]
                        break
    if len(convs) < 2:
        # decided the other way when every value tokenize can give a token is visible and none of them can be a number: the
        # Token(...) built for a pattern match takes a local whose every binding is text, a constant or a comparison
        toks = [c for c in walk_no_nested(fi.node) if isinstance(c, ast.Call) and isinstance(c.func, ast.Name) and c.func.id == "Token" and len(c.args) >= 2 and isinstance(c.args[0], ast.Name) and c.args[0].id == "token_type" and isinstance(c.args[1], ast.Name)]
        if len(toks) == 1:
            vname = toks[0].args[1].id  # type: ignore[attr-defined]
            defs = [a.value for a in walk_no_nested(fi.node) if isinstance(a, ast.Assign) and any(isinstance(t, ast.Name) and t.id == vname for t in a.targets)]
            other = [a for a in walk_no_nested(fi.node) if isinstance(a, (ast.AugAssign, ast.AnnAssign, ast.NamedExpr)) and isinstance(a.target, ast.Name) and a.target.id == vname] + [a for a in walk_no_nested(fi.node) if isinstance(a, ast.Assign) and any(isinstance(t, (ast.Tuple, ast.List)) and any(isinstance(x, ast.Name) and x.id == vname for x in ast.walk(t)) for t in a.targets)]
            text_calls = {"group", "strip", "lstrip", "rstrip", "lower", "upper", "sub", "replace", "str", "join"}

            def textual(e: ast.AST) -> bool:
                return not any(isinstance(c, ast.Call) and (c.func.attr if isinstance(c.func, ast.Attribute) else getattr(c.func, "id", "?")) not in text_calls for c in ast.walk(e))

            if defs and not other and all(textual(d) for d in defs):
                run.instance(rule, lx.loc(toks[0]), "tokenize: NUMBER lexemes are converted with int()/float()", ok=False)
                run.violation(rule, lx, "tokenize", toks[0], "no binding of the value that tokenize gives a pattern match can be a number (each is text, a constant or a comparison; there is no int()/float() of the lexeme): NUMBER tokens carry their text, so 42 and \"42\" are the same value after one write-then-read")
                return
        raise AnalysisError("tokenize: int(<lexeme>)/float(<lexeme>) conversions not found (neither inline nor in a helper receiving matched_text)")
    cfg = CFG(fi.node)
    for c in convs:
        nodes = cfg.node_for_stmt_containing(c)
        handled = False
        for x in nodes:
            for t, lab in cfg.succ[x]:
                if lab == "x" and cfg.nodes[t].kind == "handler":
                    ty = getattr(cfg.nodes[t].ast, "type", None)
                    names = [ast.unparse(e).split(".")[-1] for e in (ty.elts if isinstance(ty, ast.Tuple) else [ty])] if ty is not None else ["BaseException"]
                    raises_lexer = any(isinstance(r, ast.Raise) and r.exc is not None and "LexerError" in ast.unparse(r.exc) for r in ast.walk(cfg.nodes[t].ast))
                    if any(nm in ("ValueError", "Exception", "BaseException") for nm in names) and raises_lexer:
                        handled = True
        run.instance(rule, lx.loc(c), f"tokenize: `{norm(c)}` failure (ValueError) becomes a LexerError", ok=handled)
        if not handled:
            run.violation(rule, lx, fi.qualname, c, "a failing number conversion escapes tokenize as ValueError instead of a positioned LexerError",
                          failing_input="A:: followed by more digits than the interpreter's int-string limit")
        if c.func.id == "float":  # type: ignore[union-attr]
            st = getattr(c, "_parent", None)
            var = st.targets[0].id if isinstance(st, ast.Assign) and isinstance(st.targets[0], ast.Name) else (st.target.id if isinstance(st, ast.AnnAssign) and isinstance(st.target, ast.Name) else None)
            finite = False
            tok_nodes = [n.id for n in cfg.nodes if n.ast is not None and any(isinstance(k, ast.Call) and ast.unparse(k.func) == "Token" for k in ast.walk(n.ast)) and n.kind == "stmt"]
            tests = [n for n in cfg.nodes if n.kind == "test" and n.ast is not None and var and var in {x.id for x in ast.walk(n.ast) if isinstance(x, ast.Name)} and ("isfinite" in ast.unparse(n.ast) or "inf" in ast.unparse(n.ast) or "isinf" in ast.unparse(n.ast))]
            for t in tests:
                # non-finite edge must raise: the true edge of `value in (inf, -inf)` / `not isfinite` / `isinf`
                txt = ast.unparse(t.ast)
                nonfinite_label = "f" if (txt.startswith("math.isfinite") or txt.startswith("isfinite")) else "t"
                succs = [s for s, lab in cfg.succ[t.id] if lab == nonfinite_label]
                if succs and all(isinstance(cfg.nodes[s].ast, ast.Raise) for s in succs) and any(cfg.dominated_by(t.id, x) for x in nodes):
                    finite = True
            run.instance(rule, lx.loc(c), "tokenize: the float() result is tested for being infinite and refused", ok=finite)
            if not finite:
                run.violation(rule, lx, fi.qualname, c, "a float literal beyond the double range becomes inf; the emitter writes it as `inf`, which is not in the NUMBER token language",
                              failing_input="K::-1e400 -> canonical K::-inf -> LexerError on re-read")
    # what str(int)/str(finite float) can look like must be inside L(NUMBER) and not be stolen by an earlier token regex
    A = lm.alphabet
    assert A is not None
    idx = [i for i, (p, t) in enumerate(lm.token_patterns) if t == "NUMBER"]
    if len(idx) != 1:
        raise AnalysisError("expected exactly one NUMBER token regex")
    num_pat = lm.token_patterns[idx[0]][0]
    repr_model = r"-?\d+|-?\d+\.\d+|-?\d+(?:\.\d+)?e[+-]\d+"  # Python's repr of int / finite float (documented shortest-repr forms)
    rep = lexmodel.regex_sim(lm, repr_model)
    full = lexmodel.regex_sim(lm, num_pat)
    # restrict digits to ASCII: str() only produces ASCII digits
    ascii_only = lexmodel.regex_sim(lm, r"[\x00-\x7f]*")
    w = rx.search_n([rep, full, ascii_only], A, lambda v: v[0] and v[2] and not v[1], need=(0, 2))
    run.instance(rule, lx.relpath, f"str(int|finite float) ⊆ L(NUMBER {num_pat!r})", ok=w is None, witness=w)
    if w is not None:
        run.violation(rule, lx, None, f"NUMBER regex {num_pat}", f"the number text `{w}` that str() can produce is not matched whole by the NUMBER token regex")
    for i, (p, t) in enumerate(lm.token_patterns[: idx[0]]):
        if t in bare.SKIP_TYPES:
            continue
        try:
            pre = lexmodel.regex_sim(lm, p, prefix=True)
        except rx.Unsupported as exc:
            # a construct the automata engine does not translate (e.g. a multi-character look-ahead). Not skipped: the regex
            # CONSTANT is evaluated with the stdlib re module on a fixed family of number texts covering every shape of
            # repr(int | finite float) - integer, fraction, exponent with either sign, with and without fraction, negative
            import re as _re

            try:
                cre = _re.compile(p)
            except _re.error:
                raise AnalysisError(f"token regex #{i} {t} {p!r} is not translatable ({exc}) and does not compile") from None
            family = ["0", "7", "42", "-3", "1.0", "0.5", "123.456", "-0.25", "1e-07", "1e+16", "1.5e-07", "2.5e+16", "-1.5e-07", "-2.5e+16", "1.2345678901234567e-05", "1e+300", "5e-324", "1.7976931348623157e+308"]
            hit = next((x for x in family if cre.match(x)), None)
            run.instance(rule, lx.relpath, f"no earlier token regex (#{i} {t}) matches a prefix of a number text (not translatable: {exc}; decided on {len(family)} number texts with re)", ok=hit is None, witness=hit)
            if hit is not None:
                run.violation(rule, lx, None, f"token regex #{i} {t} {p} vs number text", f"the number text `{hit}` is matched first by the {t} pattern {p!r}, which is tried before NUMBER: the number is read back as another kind of token")
            continue
        w = rx.search_n([rep, pre, ascii_only], A, lambda v: all(v), need=(0, 1, 2))
        run.instance(rule, lx.relpath, f"no earlier token regex (#{i} {t}) matches a prefix of a number text", ok=w is None, witness=w)
        if w is not None:
            run.violation(rule, lx, None, f"token regex #{i} {t} {p} vs number text", f"the number text `{w}` is matched first by the {t} pattern {p!r}, which is tried before NUMBER: the number is read back as another kind of token")
    for bad in ("inf", "-inf", "nan"):
        ok = not full.matches(bad)
        run.instance(rule, lx.relpath, f"{bad!r} ∉ L(NUMBER) (hence non-finite floats must never reach the emitter)", ok=True, nontrivial=False, in_number=not ok)


def check(run: Run) -> None:
    lm = lexmodel.build(run.project)
    em = run.project.mod("core.emitter")
    run.rule("R04.1", "escape/unescape are inverse: the lexer's decoder undoes the emitter's escape chain on every string (decided on the extracted tables, exhaustively up to the cascade bound)", 3)
    run.rule("R04.2", "the three copies of the escape chain in the emitter are identical", 1)
    run.rule("R04.3", "bare ⊆ lexable: every string needs_quotes leaves unquoted is read back as the token(s) that reassemble to it (automata: no token regex steals a prefix at a token start; the intended reader consumes it whole; reserved words and operators are never bare)", 100)
    run.rule("R04.4", "bool before int: in every value-kind dispatch a bool test precedes any test that bool satisfies (int, int|float)", 4)
    run.rule("R04.5", "number lexemes convert totally and finitely; every text str(int|finite float) produces is one NUMBER token", 8)
    run.rule("R04.6", "values from changes/mutations are wrapped by _normalize_value_for_ast, which is identity on scalars (shared with C18 R18.3/R18.4)", 4)
    run.extra["alphabet_symbols"] = len(lm.alphabet.symbols)  # type: ignore[union-attr]
    run.extra["identifier_start_classes"] = len(lm.start_chars)
    run.extra["identifier_body_classes"] = len(lm.body_chars)
    run.extra["needs_quotes_decisions"] = [d.kind for d in lm.decisions]
    run.assume("Python's re semantics for the translated constructs; greedy quantifiers without alternation consume the longest match")
    run.assume("a bare value is followed by a newline, ',' or ']' and preceded by '::', '[' or ',' (non-word, non-identifier characters)")

    check_escape_inverse(run, "R04.1", "R04.2")
    bare.check_bare(run, "R04.3", lm, em)
    from . import c05

    c05.check_prelex_text(run, "R04.7")
    check_untyped_caches(run, "R04.8")
    check_number_spelling(run, "R04.10")
    check_bool_keyed_tables(run, "R04.11")
    check_parser_keeps_kind(run, "R04.12")
    check_bool_before_int(run, "R04.4", [("core.emitter", "emit_value"), ("core.constraints", "TypeConstraint.evaluate"), ("core.constraints", "RangeConstraint.evaluate"), ("core.validator", "Validator._validate_type")])
    check_number_lexemes(run, "R04.5", lm)
    run.rule("R04.9", "only str values are ever wrapped in double quotes by the emitter (a quoted 5 / true / null is read back as a string): every quoting site is control-dependent on isinstance(<value>, str) (shared with C15 R15.6, C18)", 4)
    from .c18 import check_quote_str_only

    check_quote_str_only(run, "R04.9")
    from .c18 import check_normalize

    check_normalize(run, "R04.6")
