"""C01 Canonicalisation is idempotent and its output is re-readable.

Decided (necessary structural conditions; the fixed-point equation itself is not decided):
  R01.1  bare ⊆ lexable: what needs_quotes leaves unquoted is read back as one value by the tokenizer (automata, shared with C04/C09)
  R01.2  text rebuilt from tokens and emitted verbatim (Section.annotation, HolographicValue.raw_pattern) spells STRING tokens
         through the emitter's escape chain
  R01.3  document parts are emitted in the order the reader expects them
  R01.4  indent arithmetic: children are emitted at indent + 1 and indentation strings are two spaces per level
  R01.5  numbers stay inside the NUMBER token language (conversion failures and non-finite floats are refused)
  R01.6  an assignment's trailing comment is emitted after the complete value text (where the reader collects it)
"""
from __future__ import annotations

import ast

from .. import bare, lexmodel
from ..report import Run
from ..source import AnalysisError, FuncInfo, walk_no_nested
from . import c04


def _text(n: ast.AST) -> str:
    return " ".join(ast.unparse(n).split())


# ======================================================================================= R01.2
def _escape_helper(run: Run, pm, name: str, emitter_chain: list[tuple[str, str]]) -> tuple[bool, str]:
    """`name` is a function returning '"' + chain(value) + '"' with the emitter's escape chain"""
    if not pm.has_func(name):
        return False, f"{name} is not a module function of parser.py"
    fi = pm.func(name)
    chain = None
    wrapped = False
    for n in walk_no_nested(fi.node):
        if isinstance(n, ast.Call):
            rc = c04.replace_chain(n)
            if rc and len(rc[1]) >= 2 and (chain is None or len(rc[1]) > len(chain)):
                chain = rc[1]
        if isinstance(n, ast.Return) and isinstance(n.value, ast.JoinedStr):
            parts = n.value.values
            if len(parts) == 3 and isinstance(parts[0], ast.Constant) and parts[0].value == '"' and isinstance(parts[2], ast.Constant) and parts[2].value == '"':
                wrapped = True
    if chain is None:
        return False, f"{name} applies no escape chain"
    if chain != emitter_chain:
        return False, f"{name} escapes {chain}, the emitter escapes {emitter_chain}"
    if not wrapped:
        return False, f"{name} does not return the escaped text between double quotes"
    return True, f"{name} applies the emitter's escape chain {chain}"


def check_verbatim(run: Run) -> None:
    run.rule("R01.2", "token text that the emitter writes verbatim and the reader lexes again (Section.annotation, HolographicValue.raw_pattern) spells every STRING token through a helper applying exactly the emitter's escape chain; the emitter writes these fields without quoting", 4)
    p = run.project
    pm = p.mod("core.parser")
    em = p.mod("core.emitter")
    chains = c04.emitter_escape_chains(em, p)
    if not chains:
        raise AnalysisError("emitter escape chain not found")
    emitter_chain = chains[0][2]
    # the emitter does write the two fields verbatim (otherwise the rule has no subject)
    verbatim_fields = {}
    for fi in em.functions.values():
        for n in walk_no_nested(fi.node):
            if isinstance(n, ast.FormattedValue) and isinstance(n.value, ast.Attribute) and n.value.attr in ("annotation", "raw_pattern"):
                verbatim_fields[n.value.attr] = fi.qualname
            if isinstance(n, ast.Return) and isinstance(n.value, ast.Attribute) and n.value.attr in ("annotation", "raw_pattern"):
                verbatim_fields[n.value.attr] = fi.qualname
    for f in ("annotation", "raw_pattern"):
        run.instance("R01.2", em.relpath, f"emitter writes .{f} verbatim in {verbatim_fields.get(f, '?')}", ok=f in verbatim_fields, nontrivial=False)
        if f not in verbatim_fields:
            raise AnalysisError(f"emitter no longer writes .{f} verbatim (model out of date)")
    cls = pm.cls("Parser")
    # producers: Section(annotation=X), HolographicValue(raw_pattern=Y)
    found = {"annotation": 0, "raw_pattern": 0}
    for name, fi in cls.methods.items():
        for n in walk_no_nested(fi.node):
            if not (isinstance(n, ast.Call) and isinstance(n.func, ast.Name) and n.func.id in ("Section", "HolographicValue")):
                continue
            field = "annotation" if n.func.id == "Section" else "raw_pattern"
            kw = next((k.value for k in n.keywords if k.arg == field), None)
            if kw is None:
                continue
            if isinstance(kw, ast.Constant) and kw.value is None:
                continue
            found[field] += 1
            src = kw
            if isinstance(kw, ast.Name):
                defs = [a.value for a in walk_no_nested(fi.node) if isinstance(a, ast.Assign) and any(isinstance(t, ast.Name) and t.id == kw.id for t in a.targets)]
                if len(defs) != 1:
                    run.violation("R01.2", pm, fi.qualname, f"{n.func.id}({field}={kw.id})", f"`{kw.id}` has {len(defs)} definitions; the verbatim field's producer cannot be identified")
                    continue
                src = defs[0]
            if not (isinstance(src, ast.Call) and isinstance(src.func, ast.Attribute) and isinstance(src.func.value, ast.Name) and src.func.value.id == "self"):
                run.violation("R01.2", pm, fi.qualname, f"{n.func.id}({field}={_text(kw)[:40]})", f"the verbatim field {field} is not produced by a Parser method call: `{_text(src)[:60]}`")
                continue
            prod = src.func.attr
            pfi = cls.methods.get(prod)
            if pfi is None:
                raise AnalysisError(f"producer {prod} not found")
            ok, why = _producer_escapes(run, pm, pfi, src, emitter_chain)
            run.instance("R01.2", pm.loc(n), f"{name}: {n.func.id}.{field} <- {prod}(): {why}", ok=ok)
            if not ok:
                run.violation("R01.2", pm, pfi.qualname, f"{field} producer {prod}: STRING token spelling", f"{n.func.id}.{field} is emitted verbatim and lexed again, but {why}: a string containing a quote, backslash, newline or tab canonicalises to text that does not read back as the same token (often not at all)")
    for f, c in found.items():
        if c == 0:
            raise AnalysisError(f"no construction with {f}= found in Parser")


def _producer_escapes(run: Run, pm, pfi: FuncInfo, call: ast.Call, emitter_chain) -> tuple[bool, str]:
    """inside the producer every branch for TokenType.STRING appends <escape helper>(tok.value)"""
    flag_params = {k.arg for k in call.keywords if isinstance(k.value, ast.Constant) and k.value.value is True}
    string_branches = []
    for n in walk_no_nested(pfi.node):
        if isinstance(n, ast.If):
            conj = n.test.values if isinstance(n.test, ast.BoolOp) and isinstance(n.test.op, ast.And) else [n.test]
            is_string = any(isinstance(c, ast.Compare) and len(c.ops) == 1 and isinstance(c.ops[0], ast.Eq) and _text(c.comparators[0]) == "TokenType.STRING" and _text(c.left).endswith(".type") for c in conj)
            if not is_string:
                continue
            others = [c for c in conj if not (isinstance(c, ast.Compare) and _text(c.comparators[0]) == "TokenType.STRING")]
            # extra conjuncts must be flags this call site passes as True
            if all(isinstance(c, ast.Name) and c.id in flag_params for c in others):
                string_branches.append(n)
    if not string_branches:
        # no STRING-specific branch: does the producer hand STRING tokens to a generic renderer?
        return False, f"{pfi.name} has no branch that spells STRING tokens for this call (flags passed: {sorted(flag_params) or 'none'})"
    for br in string_branches:
        calls = [c for s in br.body for c in ast.walk(s) if isinstance(c, ast.Call) and isinstance(c.func, ast.Attribute) and c.func.attr == "append" and c.args]
        if not calls:
            return False, "the STRING branch appends nothing"
        for c in calls:
            a = c.args[0]
            if not (isinstance(a, ast.Call) and isinstance(a.func, ast.Name) and a.args and _text(a.args[0]).endswith(".value")):
                return False, f"the STRING branch appends `{_text(a)[:50]}` (the raw token value, not an escaped spelling)"
            ok, why = _escape_helper(run, pm, a.func.id, emitter_chain)
            if not ok:
                return False, why
    return True, "STRING tokens are spelled with the emitter's escape chain"


# ======================================================================================= R01.3
PARTS = ["raw_frontmatter", "grammar_version", "name", "meta", "has_separator", "sections", "trailing_comments"]


def check_part_order(run: Run) -> None:
    run.rule("R01.3", "emit() writes the document parts in the order the reader expects: frontmatter, grammar sentinel, envelope name, META, separator, sections, trailing comments, ===END===; parse_document consumes GRAMMAR_SENTINEL, ENVELOPE_START, META, SEPARATOR, body in that order", 2)
    em = run.project.mod("core.emitter")
    fi = em.func("emit")
    # order of the first `lines.append/extend` that mentions each part
    first: dict[str, int] = {}
    end_pos = None
    # locals bound once to `doc.<part>` (aliases written for readability) are read as that attribute
    alias: dict[str, str] = {}
    for a in walk_no_nested(fi.node):
        if isinstance(a, ast.Assign) and len(a.targets) == 1 and isinstance(a.targets[0], ast.Name) and isinstance(a.value, ast.Attribute) and isinstance(a.value.value, ast.Name) and a.value.value.id == "doc" and a.value.attr in PARTS:
            nm = a.targets[0].id
            if sum(1 for b in walk_no_nested(fi.node) if isinstance(b, (ast.Assign, ast.AugAssign, ast.AnnAssign)) and any(isinstance(x, ast.Name) and x.id == nm and isinstance(x.ctx, ast.Store) for x in ast.walk(b))) == 1:
                alias[nm] = f"doc.{a.value.attr}"

    def _txt(node: ast.AST) -> str:
        t = _text(node)
        if alias:
            import re as _re

            for nm, full in alias.items():
                t = _re.sub(rf"(?<![\w.]){_re.escape(nm)}(?![\w])", full, t)
        return t

    for st in fi.node.body:  # type: ignore[attr-defined]
        for n in ast.walk(st):
            if isinstance(n, ast.Call) and isinstance(n.func, ast.Attribute) and n.func.attr in ("append", "extend") and _text(n.func.value) == "lines":
                txt = _txt(n)
                for part in PARTS:
                    if f"doc.{part}" in txt and part not in first:
                        first[part] = n.lineno
                if "===END===" in txt:
                    end_pos = n.lineno
                # parts emitted through a loop variable / condition: attribute the statement's governing doc field
        # statements governed by `if doc.X` / `for _ in doc.X`
        for part in PARTS:
            if part in first:
                continue
            hdr = None
            if isinstance(st, ast.If):
                hdr = st.test
            elif isinstance(st, ast.For):
                hdr = st.iter
            if hdr is not None and f"doc.{part}" in _txt(hdr) and any(isinstance(n, ast.Call) and isinstance(n.func, ast.Attribute) and n.func.attr in ("append", "extend") and _text(n.func.value) == "lines" for n in ast.walk(st)):
                first[part] = st.lineno
    missing = [x for x in PARTS if x not in first]
    if missing or end_pos is None:
        raise AnalysisError(f"emit(): emission of {missing or 'the END envelope'} not found")
    order = sorted(PARTS, key=lambda x: first[x])
    ok = order == PARTS and end_pos > max(first.values())
    run.instance("R01.3", em.loc(fi.node), f"emit(): order {order} then END", ok=ok)
    if not ok:
        wrong = next((a for a, b in zip(order, PARTS) if a != b), "END")
        run.violation("R01.3", em, "emit", "order of document parts", f"emit() writes the document parts in the order {order} (+END at line {end_pos}); the reader expects {PARTS}: `{wrong}` is out of place, so canonical text is not read back as the same document")
    # reader side
    pm = run.project.mod("core.parser")
    pd = pm.func("Parser.parse_document")
    marks = {"GRAMMAR_SENTINEL": None, "ENVELOPE_START": None, "META": None, "SEPARATOR": None, "ENVELOPE_END": None}
    for n in walk_no_nested(pd.node):
        t = None
        if isinstance(n, ast.Attribute) and isinstance(n.value, ast.Name) and n.value.id == "TokenType" and n.attr in marks:
            t = n.attr
        if isinstance(n, ast.Constant) and n.value == "META":
            t = "META"
        if t and marks[t] is None:
            marks[t] = n.lineno
    if any(v is None for v in marks.values()):
        raise AnalysisError(f"parse_document: handling of {[k for k, v in marks.items() if v is None]} not found")
    seq = sorted(marks, key=lambda k: marks[k])
    expected = ["GRAMMAR_SENTINEL", "ENVELOPE_START", "META", "SEPARATOR", "ENVELOPE_END"]
    ok2 = seq == expected
    run.instance("R01.3", pm.loc(pd.node), f"parse_document: first handling order {seq}", ok=ok2)
    if not ok2:
        run.violation("R01.3", pm, "Parser.parse_document", "order of document parts", f"parse_document handles the document parts in the order {seq}, canonical text has them as {expected}")


# ======================================================================================= R01.4

# ----------------------------------------------------------------------------- indentation as arithmetic
_SAFE_CONST_NODES = (ast.Expression, ast.Call, ast.Name, ast.Load, ast.Constant, ast.BinOp, ast.Mult, ast.Add, ast.Sub, ast.GeneratorExp, ast.ListComp, ast.comprehension, ast.Store, ast.Tuple, ast.List, ast.UnaryOp, ast.USub, ast.Subscript, ast.Slice)


def _const_value(run: Run, em, node: ast.AST, depth: int = 0):
    """value of a module-level constant expression built from literals, other such constants and tuple/list/range/len (tables of
    indentation prefixes); None when it is anything else. Only these node kinds and these four builtins are ever evaluated."""
    v = run.project.try_fold(em, node)
    if isinstance(v, (str, int, tuple, list)) and not isinstance(v, bool):
        return v
    if depth > 4 or not all(isinstance(x, _SAFE_CONST_NODES) for x in ast.walk(node)):
        return None
    env: dict[str, object] = {}
    bound = {t.id for c in ast.walk(node) if isinstance(c, ast.comprehension) for t in ast.walk(c.target) if isinstance(t, ast.Name)}
    for nm in {x.id for x in ast.walk(node) if isinstance(x, ast.Name)} - bound - {"tuple", "list", "range", "len"}:
        if not em.has_const(nm):
            return None
        try:
            cn = em.const_node(nm)
        except AnalysisError:
            return None
        cv = _const_value(run, em, cn, depth + 1)
        if cv is None:
            return None
        env[nm] = cv
    if any(isinstance(c, ast.Call) and not (isinstance(c.func, ast.Name) and c.func.id in ("tuple", "list", "range", "len")) for c in ast.walk(node)):
        return None
    try:
        return eval(compile(ast.Expression(node), "<const>", "eval"), {"__builtins__": {}, "tuple": tuple, "list": list, "range": range, "len": len, **env})  # noqa: S307 - constant arithmetic on whitelisted nodes only
    except Exception:
        return None


def _lin_add(a: dict, b: dict, k: int = 1) -> dict:
    out = dict(a)
    for key, v in b.items():
        out[key] = out.get(key, 0) + k * v
    return {key: v for key, v in out.items() if v != 0 or key == 1}


class _Units:
    """indentation strings as linear arithmetic: text -> number of spaces, integer expressions -> a0 + sum(ai * name)"""

    def __init__(self, run: Run, em, fi: FuncInfo):
        self.run, self.em, self.fi = run, em, fi

    def const(self, e: ast.AST):
        return _const_value(self.run, self.em, e) if not (isinstance(e, ast.Name) and not self.em.has_const(e.id)) else None

    def lin(self, e: ast.AST, _depth: int = 0) -> dict | None:
        if isinstance(e, ast.Constant) and isinstance(e.value, int) and not isinstance(e.value, bool):
            return {1: e.value}
        if isinstance(e, ast.UnaryOp) and isinstance(e.op, ast.USub):
            a = self.lin(e.operand)
            return None if a is None else {key: -v for key, v in a.items()}
        if isinstance(e, ast.Name):
            if self.em.has_const(e.id):
                v = self.const(e)
                return {1: v} if isinstance(v, int) and not isinstance(v, bool) else None
            if e.id != "indent" and _depth < 4:
                # a local every binding of which is the same linear expression of the level (`child_indent = indent + 1`)
                defs = [a.value for a in walk_no_nested(self.fi.node) if isinstance(a, ast.Assign) and len(a.targets) == 1 and isinstance(a.targets[0], ast.Name) and a.targets[0].id == e.id]
                params = {a.arg for a in self.fi.node.args.args}  # type: ignore[attr-defined]
                if defs and e.id not in params:
                    ls = [self.lin(d, _depth + 1) for d in defs]
                    if ls[0] is not None and all(x == ls[0] for x in ls):
                        return ls[0]
                    return None
            return {e.id: 1, 1: 0}
        if isinstance(e, ast.BinOp) and isinstance(e.op, (ast.Add, ast.Sub)):
            a, b = self.lin(e.left), self.lin(e.right)
            return None if a is None or b is None else _lin_add(a, b, 1 if isinstance(e.op, ast.Add) else -1)
        if isinstance(e, ast.BinOp) and isinstance(e.op, ast.Mult):
            a, b = self.lin(e.left), self.lin(e.right)
            if a is not None and b is not None:
                for c, x in ((a, b), (b, a)):
                    if set(c) <= {1}:
                        return {key: v * c.get(1, 0) for key, v in x.items()}
            return None
        if isinstance(e, ast.Call) and isinstance(e.func, ast.Name) and e.func.id in ("min", "max") and e.args and all(self.lin(a) is not None for a in e.args) and any("indent" in (self.lin(a) or {}) for a in e.args):
            return {f"<{_text(e)}>": 1, 1: 0}  # a capped level: not linear in the nesting level
        if isinstance(e, ast.Call) and isinstance(e.func, ast.Name) and e.func.id == "len" and len(e.args) == 1:
            v = self.const(e.args[0])
            return {1: len(v)} if isinstance(v, (tuple, list, str)) else None
        return None

    def units(self, e: ast.AST, depth: int = 0) -> dict | None:
        """number of two-space units of a text expression, None if it is not (recognisably) a run of spaces"""
        if isinstance(e, ast.Name) and not self.em.has_const(e.id) and depth < 4:
            defs = [a.value for a in walk_no_nested(self.fi.node) if isinstance(a, ast.Assign) and len(a.targets) == 1 and isinstance(a.targets[0], ast.Name) and a.targets[0].id == e.id]
            us = [self.units(d, depth + 1) for d in defs]
            return us[0] if us and us[0] is not None and all(u == us[0] for u in us) else None
        v = self.const(e) if not isinstance(e, ast.BinOp) else None
        if isinstance(v, str):
            return {1: len(v)} if v.strip(" ") == "" else None
        if isinstance(e, ast.BinOp) and isinstance(e.op, ast.Add):
            a, b = self.units(e.left, depth), self.units(e.right, depth)
            return None if a is None or b is None else _lin_add(a, b)
        if isinstance(e, ast.BinOp) and isinstance(e.op, ast.Mult):
            for s_, n_ in ((e.left, e.right), (e.right, e.left)):
                su = self.units(s_, depth) if not (isinstance(s_, ast.Constant) and not isinstance(s_.value, str)) else None
                nl = self.lin(n_)
                if su is not None and set(su) <= {1} and nl is not None:
                    return {key: v * su.get(1, 0) for key, v in nl.items()}
            return None
        if isinstance(e, ast.Subscript) and not isinstance(e.slice, ast.Slice):
            t = self.const(e.value)
            if isinstance(t, (tuple, list)) and t and all(isinstance(x, str) and x.strip(" ") == "" for x in t):
                il = self.lin(e.slice)
                if il is None:
                    return None
                if set(il) <= {1}:
                    k = il.get(1, 0)
                    return {1: len(t[k])} if -len(t) <= k < len(t) else None
                # a table whose k-th entry is k units: the entry selected by an in-range index has as many units as the index
                if len(t) > 1 and all(len(x) == k * len(t[1]) for k, x in enumerate(t)):
                    return {key: v * len(t[1]) for key, v in il.items()}
            return None
        return None


def _judge_pad(run: Run, rule: str, em, fname: str, st: ast.AST, u: dict) -> None:
    u = {k: v for k, v in u.items() if v != 0 or k == 1}
    u.setdefault(1, 0)
    ok = u in ({"indent": 2, 1: 0}, {"indent": 2, 1: 2})
    shown = " + ".join(([f"{v}*{k}" for k, v in u.items() if k != 1]) + [str(u.get(1, 0))])
    run.instance(rule, em.loc(st), f"{fname}: `{_text(st)[:80]}` is {shown} space(s)", ok=ok)
    if not ok:
        run.violation(rule, em, fname, st, f"an indentation string of {fname} has {shown} spaces where the nesting level is `indent` (2*indent for the own line, 2*indent + 2 for a child line): lines at that level are not indented by exactly two spaces per level (the reader then attaches them to another parent)")


def _level_uses(run: Run, rule: str, em, fname: str, fi: FuncInfo) -> None:
    """every read of the `indent` parameter is either handed to a callee's level parameter or is part of the definition of an
    indentation string that has exactly `indent` or `indent + 1` two-space units - however that string is computed"""
    parents: dict[int, ast.AST] = {}
    for a in ast.walk(fi.node):
        for ch in ast.iter_child_nodes(a):
            parents[id(ch)] = a
    U = _Units(run, em, fi)
    judged: set[int] = set()
    # pad strings defined from other pad strings (`child = own + "  "`): no read of `indent` in the statement itself
    derived = [a for a in walk_no_nested(fi.node) if isinstance(a, ast.Assign) and len(a.targets) == 1 and isinstance(a.targets[0], ast.Name) and not any(isinstance(x, ast.Name) and x.id == "indent" for x in ast.walk(a.value)) and not isinstance(a.value, ast.Constant)]
    for a in derived:
        u = U.units(a.value)
        if u is not None and "indent" in u:
            _judge_pad(run, rule, em, fname, a, u)
            judged.add(id(a))
    for n in walk_no_nested(fi.node):
        if not (isinstance(n, ast.Name) and n.id == "indent" and isinstance(n.ctx, ast.Load)):
            continue
        x: ast.AST = n

        def _pkg_call(c: ast.AST | None) -> bool:
            return isinstance(c, ast.Call) and isinstance(c.func, ast.Name) and em.has_func(c.func.id)

        while not isinstance(parents[id(x)], ast.stmt) and not _pkg_call(parents[id(x)]) and not (isinstance(parents[id(x)], ast.keyword) and _pkg_call(parents.get(id(parents[id(x)])))):
            x = parents[id(x)]
        par = parents[id(x)]
        if isinstance(par, (ast.Call, ast.keyword)):
            continue  # handed to a function of the emitter: judged by the call-argument clause below
        st = par
        if isinstance(st, ast.If) and x is st.test:
            # a guard is part of a pad definition when both arms do nothing but define pad strings (a table with a fallback)
            arms = [b for b in (st.body, st.orelse) if b]
            if len(arms) == 2 and all(isinstance(s_, ast.Assign) and len(s_.targets) == 1 and isinstance(s_.targets[0], ast.Name) for b in arms for s_ in b) and all(U.units(s_.value) is not None for b in arms for s_ in b):  # type: ignore[attr-defined]
                continue
            raise AnalysisError(f"{fname}: the nesting level is tested in `{_text(st.test)[:80]}` - a use of `indent` that is neither a callee's level argument nor part of an indentation string; two spaces per level is not decided for this function")
        if isinstance(st, (ast.Assign, ast.AnnAssign)) and st.value is not None and id(st) in judged:
            continue
        if isinstance(st, ast.Assign) and len(st.targets) == 1 and isinstance(st.targets[0], ast.Name) and U.lin(st.value) is not None and "indent" in (U.lin(st.value) or {}):
            continue  # a level alias; judged where it is used (as a callee's level argument or inside an indentation string)
        if isinstance(st, (ast.Assign, ast.AnnAssign)) and st.value is not None and U.units(st.value) is not None:
            judged.add(id(st))
            _judge_pad(run, rule, em, fname, st, U.units(st.value))
            continue
        # the level used inside a larger expression (an f-string field, an argument of append): the largest enclosing
        # sub-expression that is a run of spaces is the indentation string
        best = None
        y: ast.AST = n
        while not isinstance(y, ast.stmt):
            if isinstance(y, ast.expr) and U.units(y) is not None:
                best = y
            y = parents[id(y)]
        if best is None:
            raise AnalysisError(f"{fname}: `{_text(st)[:100]}` uses the nesting level in a way this check does not read as an indentation string or a callee's level argument; two spaces per level is not decided for this function")
        if id(best) not in judged:
            judged.add(id(best))
            _judge_pad(run, rule, em, fname, best, U.units(best))


EMIT_FUNCS = {"emit_assignment", "emit_block", "emit_section", "emit_comment", "emit_value", "_emit_multiline_list", "_emit_leading_comments"}


def check_indent(run: Run, rule: str = "R01.4") -> None:
    run.rule(rule, "indent arithmetic in the emitter: inside emit_block/emit_section every child is emitted at `indent + 1`, own-level helpers at `indent`, top level at 0; indentation strings are exactly two spaces times an integer level", 14)
    em = run.project.mod("core.emitter")
    callers = [q for q, f in em.functions.items() if "." not in q and any(isinstance(c, ast.Call) and isinstance(c.func, ast.Name) and c.func.id in EMIT_FUNCS for c in walk_no_nested(f.node))]
    for fname in sorted(set(callers) | {"emit_block", "emit_section", "emit_assignment", "_emit_multiline_list", "emit", "emit_meta"}):
        if not em.has_func(fname):
            continue
        fi = em.func(fname)
        pads = {}
        for a in walk_no_nested(fi.node):
            if isinstance(a, ast.Assign) and len(a.targets) == 1 and isinstance(a.targets[0], ast.Name) and isinstance(a.value, ast.BinOp) and isinstance(a.value.op, ast.Mult) and isinstance(a.value.left, ast.Constant) and a.value.left.value == "  ":
                pads[a.targets[0].id] = _text(a.value.right).strip("()")
        params = [a.arg for a in fi.node.args.args]  # type: ignore[attr-defined]
        has_indent = "indent" in params
        if has_indent:
            _level_uses(run, rule, em, fname, fi)
        for n in walk_no_nested(fi.node):
            # indentation strings
            if not has_indent and isinstance(n, ast.BinOp) and isinstance(n.op, ast.Mult) and isinstance(n.left, ast.Constant) and isinstance(n.left.value, str) and n.left.value.strip() == "" and n.left.value:
                ok = n.left.value == "  "
                run.instance(rule, em.loc(n), f"{fname}: indentation unit {n.left.value!r} * {_text(n.right)}", ok=ok)
                if not ok:
                    run.violation(rule, em, fname, f"indent unit {n.left.value!r}", f"indentation is built from {len(n.left.value)} space(s) per level instead of two: nested blocks are re-read at a different depth")
                lvl = _text(n.right)
                if has_indent and lvl not in ("indent", "(indent + 1)", "indent + 1", "depth", "level"):
                    run.violation(rule, em, fname, f"indent level {lvl}", f"indentation string uses level `{lvl}`; only `indent` (own line) and `indent + 1` (child line) are consistent with the reader's block structure")
            if not (isinstance(n, ast.Call) and isinstance(n.func, ast.Name) and n.func.id in EMIT_FUNCS):
                continue
            callee = em.func(n.func.id)
            cparams = [a.arg for a in callee.node.args.args]  # type: ignore[attr-defined]
            if "indent" not in cparams:
                continue
            idx = cparams.index("indent")
            arg = n.args[idx] if idx < len(n.args) else next((k.value for k in n.keywords if k.arg == "indent"), None)
            a = _text(arg) if arg is not None else "<default 0>"
            child_call = _is_child_arg(n)
            if not has_indent and fname != "emit" and arg is not None:
                # level-parameterised emitters: the line that receives the text starts with a pad variable `"  " * E`; the value
                # must be laid out for that same E
                st0 = n
                while not isinstance(st0, ast.stmt):
                    st0 = getattr(st0, "_parent")
                var0 = st0.targets[0].id if isinstance(st0, ast.Assign) and isinstance(st0.targets[0], ast.Name) else None
                pad_levels = []
                for js in walk_no_nested(fi.node):
                    if isinstance(js, ast.JoinedStr) and var0 and any(isinstance(v, ast.FormattedValue) and isinstance(v.value, ast.Name) and v.value.id == var0 for v in js.values) and isinstance(js.values[0], ast.FormattedValue) and isinstance(js.values[0].value, ast.Name) and js.values[0].value.id in pads:
                        pad_levels.append(pads[js.values[0].value.id])
                if pad_levels:
                    ok = all(pl == a.strip("()") for pl in pad_levels)
                    run.instance(rule, em.loc(n), f"{fname}: {n.func.id}(indent={a}) written behind a pad of level {pad_levels}", ok=ok)
                    if not ok:
                        run.violation(rule, em, fname, f"{n.func.id}(indent={a}) vs pad level {pad_levels[0]}", f"{fname} lays out a value for depth `{a}` but writes it on a line padded for depth `{pad_levels[0]}`: continuation lines of a multi-line value are indented for the wrong level (not two spaces per level)")
                    continue
            if not has_indent and isinstance(arg, ast.Constant) and isinstance(arg.value, int) and fname != "emit":
                # constant-depth emitters (emit_meta): the literal prefix of the line that receives the text has 2 * k spaces
                st = n
                while not isinstance(st, ast.stmt):
                    st = getattr(st, "_parent")
                var = st.targets[0].id if isinstance(st, ast.Assign) and isinstance(st.targets[0], ast.Name) else None
                par = getattr(st, "_parent", None)
                blk = next((getattr(par, f) for f in ("body", "orelse") if isinstance(getattr(par, f, None), list) and st in getattr(par, f)), [])
                widths = []
                for s2 in blk:
                    for js in ast.walk(s2):
                        if isinstance(js, ast.JoinedStr) and var and any(isinstance(v, ast.FormattedValue) and isinstance(v.value, ast.Name) and v.value.id == var for v in js.values) and isinstance(js.values[0], ast.Constant):
                            lead = js.values[0].value
                            widths.append(len(lead) - len(lead.lstrip(" ")))
                if not widths and var is None:
                    # the text is handed on as a whole line (returned / appended / a list element), not formatted behind a prefix
                    up = getattr(n, "_parent", None)
                    while isinstance(up, (ast.List, ast.Tuple, ast.IfExp, ast.Starred)):
                        up = getattr(up, "_parent", None)
                    if isinstance(up, (ast.Return, ast.Expr)) or (isinstance(up, ast.Call) and isinstance(up.func, ast.Attribute) and up.func.attr in ("append", "extend")):
                        widths = [0]
                ok = bool(widths) and all(w == 2 * arg.value for w in widths)
                run.instance(rule, em.loc(n), f"{fname}: {n.func.id}(indent={arg.value}) written behind {widths} leading spaces", ok=ok)
                if not ok:
                    run.violation(rule, em, fname, f"{n.func.id}(indent={arg.value}) vs literal prefix", f"{fname} lays out a value for depth {arg.value} but writes it behind {widths} leading spaces (expected {2 * arg.value}): continuation lines of a multi-line value and the key line disagree about the nesting depth")
                continue
            if fname == "emit":
                want = {"0", "<default 0>"}
            elif fname in ("emit_block", "emit_section") and child_call:
                want = {"indent + 1"}
            elif fname == "_emit_multiline_list":
                want = {"indent + 1", "indent"}
            else:
                want = {"indent"}
            if arg is not None and has_indent and a not in want:
                la = _Units(run, em, fi).lin(arg)
                if la is not None:
                    la = {k: v for k, v in la.items() if v != 0}
                    a_norm = "indent" if la == {"indent": 1} else ("indent + 1" if la == {"indent": 1, 1: 1} else ("0" if not la else a))
                    a = a_norm if a_norm in want or a_norm != a else a
            ok = a in want
            run.instance(rule, em.loc(n), f"{fname}: {n.func.id}(..., indent={a})" + (" for a child" if child_call else ""), ok=ok)
            if not ok:
                run.violation(rule, em, fname, f"{n.func.id}(indent={a})", f"{fname} emits {'a child' if child_call else 'its own-level part'} through {n.func.id} at indent `{a}` (expected {sorted(want)}): the emitted nesting differs from the document's, so re-reading changes the structure")


def _is_child_arg(call: ast.Call) -> bool:
    """the first argument is the variable of an enclosing `for` loop (an element of the node's children), whatever its name"""
    if not (call.args and isinstance(call.args[0], ast.Name)):
        return False
    v = call.args[0].id
    cur = getattr(call, "_parent", None)
    while cur is not None and not isinstance(cur, (ast.FunctionDef, ast.AsyncFunctionDef)):
        if isinstance(cur, (ast.For, ast.AsyncFor)) and any(isinstance(x, ast.Name) and x.id == v for x in ast.walk(cur.target)):
            return True
        cur = getattr(cur, "_parent", None)
    return False


# ======================================================================================= R01.6
def check_trailing_comment(run: Run) -> None:
    run.rule("R01.6", "emit_assignment appends the trailing comment to the line that ends with the complete value text (after the closing bracket of a list), which is where collect_trailing_comment reads it; comments inside brackets are discarded by parse_list", 2)
    em = run.project.mod("core.emitter")
    fi = em.func("emit_assignment")
    # the local that holds the value's text: bound from emit_value(...) directly or through a quoting helper applied to it
    value_vars = {a.targets[0].id for a in walk_no_nested(fi.node) if isinstance(a, ast.Assign) and isinstance(a.targets[0], ast.Name) and isinstance(a.value, ast.Call) and any(isinstance(c, ast.Call) and _text(c.func) == "emit_value" for c in ast.walk(a.value))}
    # ... and locals that copy such a local (`value_str = quoted_or_plain`)
    grew = True
    while grew:
        grew = False
        for a in walk_no_nested(fi.node):
            if isinstance(a, ast.Assign) and isinstance(a.targets[0], ast.Name) and a.targets[0].id not in value_vars and isinstance(a.value, ast.Name) and a.value.id in value_vars:
                value_vars.add(a.targets[0].id)
                grew = True
    if not value_vars:
        raise AnalysisError("emit_assignment: value text variable not found")
    uses = [n for n in walk_no_nested(fi.node) if isinstance(n, ast.Call) and _text(n.func) == "_emit_trailing_comment"]
    if not uses:
        raise AnalysisError("emit_assignment: _emit_trailing_comment is not called")
    for u in uses:
        st = u
        while not isinstance(st, ast.stmt):
            st = getattr(st, "_parent")
        ok = False
        why = f"`{_text(st)[:70]}`"
        if isinstance(st, ast.AugAssign) and isinstance(st.op, ast.Add) and isinstance(st.target, ast.Name) and st.value is u:
            line_var = st.target.id
            defs = [a for a in walk_no_nested(fi.node) if isinstance(a, ast.Assign) and any(isinstance(t, ast.Name) and t.id == line_var for t in a.targets)]
            if len(defs) == 1 and isinstance(defs[0].value, ast.JoinedStr):
                last = defs[0].value.values[-1]
                ok = isinstance(last, ast.FormattedValue) and isinstance(last.value, ast.Name) and last.value.id in value_vars
                # and the line is appended to the output after the comment was added, unchanged
                later = [s for s in walk_no_nested(fi.node) if isinstance(s, (ast.Assign, ast.AugAssign)) and s is not st and s is not defs[0] and line_var in {x.id for x in ast.walk(s.targets[0] if isinstance(s, ast.Assign) else s.target) if isinstance(x, ast.Name)}]
                ok = ok and not later
                why = f"comment appended to `{line_var}` = {_text(defs[0].value)[:60]}"
        if not ok:
            # the same line written as one concatenation / f-string: `<prefix> + value_str + _emit_trailing_comment(..)` - the
            # comment is the operand right after the complete value text
            par = getattr(u, "_parent", None)
            if isinstance(par, ast.BinOp) and isinstance(par.op, ast.Add) and par.right is u:
                left = par.left
                while isinstance(left, ast.BinOp) and isinstance(left.op, ast.Add):
                    left = left.right
                if isinstance(left, ast.JoinedStr) and left.values:
                    left = left.values[-1].value if isinstance(left.values[-1], ast.FormattedValue) else left
                ok = isinstance(left, ast.Name) and left.id in value_vars
                # ... and nothing is appended after the comment
                top = par
                while isinstance(getattr(top, "_parent", None), ast.BinOp):
                    top = top._parent  # type: ignore[attr-defined]
                    ok = ok and top.left is not u and (top.right is par or top.left is par or True) and not (isinstance(top, ast.BinOp) and top.left is not None and any(x is u for x in ast.walk(top.left)) and top.right is not None and top.right is not u and not any(x is u for x in ast.walk(top.right)))
                why = f"comment concatenated right after the value text in `{_text(st)[:60]}`"
            elif isinstance(par, ast.FormattedValue) and isinstance(getattr(par, "_parent", None), ast.JoinedStr):
                vals = par._parent.values  # type: ignore[attr-defined]
                i_ = vals.index(par)
                ok = i_ == len(vals) - 1 and i_ >= 1 and isinstance(vals[i_ - 1], ast.FormattedValue) and isinstance(vals[i_ - 1].value, ast.Name) and vals[i_ - 1].value.id in value_vars
                why = f"comment interpolated right after the value text in `{_text(st)[:60]}`"
        run.instance("R01.6", em.loc(u), f"emit_assignment: {why}", ok=ok)
        if not ok:
            run.violation("R01.6", em, "emit_assignment", "trailing comment placement", f"the trailing comment is not appended to the line that ends with the complete value text ({why}): for a multi-line list it lands inside the brackets, where the reader drops comments, so the canonical text changes on the next pass")
    # reader side: collect_trailing_comment is called after parse_value in parse_section
    pm = run.project.mod("core.parser")
    ps = pm.func("Parser.parse_section")
    order_ok = False
    for blk in ast.walk(ps.node):
        body = getattr(blk, "body", None)
        if isinstance(body, list):
            idx_v = [i for i, s in enumerate(body) if isinstance(s, ast.stmt) and "self.parse_value()" in _text(s) and isinstance(s, ast.Assign)]
            idx_c = [i for i, s in enumerate(body) if isinstance(s, ast.stmt) and "self.collect_trailing_comment()" in _text(s)]
            if idx_v and idx_c and min(idx_c) > min(idx_v):
                order_ok = True
    run.instance("R01.6", pm.loc(ps.node), "parse_section collects the trailing comment after the value has been parsed", ok=order_ok)
    if not order_ok:
        run.violation("R01.6", pm, "Parser.parse_section", "collect_trailing_comment after parse_value", "the reader does not collect the end-of-line comment after the value: emitted trailing comments are not read back")


# ======================================================================================= R01.8
def check_bare_key_children(run: Run, rule: str = "R01.8") -> None:
    """a node without a key is written out only by code that knows it has none"""
    run.rule(rule, "a bare-key node is emitted only by an emitter that expects one: wherever the parser builds Assignment(key=\"\") and hands it to a Block / Section / Document, the emitter function for that parent tests the child's key for emptiness before it falls back to emit_assignment (which would write a line that is just `::`, re-read as something else)", 2)
    pm = run.project.mod("core.parser")
    em = run.project.mod("core.emitter")
    emitter_of = {"Block": "emit_block", "Section": "emit_section", "Document": "emit"}

    def handles_bare(fname: str) -> bool:
        fi = em.func(fname)
        for c in walk_no_nested(fi.node):
            if isinstance(c, ast.Compare) and len(c.ops) == 1 and isinstance(c.ops[0], (ast.Eq, ast.NotEq)) and isinstance(c.left, ast.Attribute) and c.left.attr == "key" and isinstance(c.comparators[0], ast.Constant) and c.comparators[0].value == "":
                return True
            if isinstance(c, ast.UnaryOp) and isinstance(c.op, ast.Not) and isinstance(c.operand, ast.Attribute) and c.operand.attr == "key":
                return True
        return False

    n = 0
    for q, fi in pm.functions.items():
        for c in walk_no_nested(fi.node):
            if not (isinstance(c, ast.Call) and isinstance(c.func, ast.Name) and c.func.id == "Assignment"):
                continue
            key = next((k.value for k in c.keywords if k.arg == "key"), c.args[0] if c.args else None)
            if not (isinstance(key, ast.Constant) and key.value == ""):
                continue
            n += 1
            def parents_in(fnode: ast.AST, value_node: ast.AST) -> set[str]:
                """the node classes constructed in `fnode` with the list that `value_node` is appended to"""
                par = getattr(value_node, "_parent", None)
                lst = par.func.value.id if isinstance(par, ast.Call) and isinstance(par.func, ast.Attribute) and par.func.attr in ("append", "insert") and isinstance(par.func.value, ast.Name) else None
                if lst is None and isinstance(par, ast.Assign) and len(par.targets) == 1 and isinstance(par.targets[0], ast.Name):
                    # bound to a local first: follow the local into an append
                    nm = par.targets[0].id
                    for k in walk_no_nested(fnode):
                        if isinstance(k, ast.Call) and isinstance(k.func, ast.Attribute) and k.func.attr in ("append", "insert") and isinstance(k.func.value, ast.Name) and any(isinstance(a, ast.Name) and a.id == nm for a in k.args):
                            lst = k.func.value.id
                out: set[str] = set()
                if lst is not None:
                    for k in walk_no_nested(fnode):
                        if isinstance(k, ast.Call) and isinstance(k.func, ast.Name) and k.func.id in emitter_of and any(isinstance(a, ast.Name) and a.id == lst for a in list(k.args) + [kw.value for kw in k.keywords]):
                            out.add(k.func.id)
                return out

            parents = parents_in(fi.node, c)
            if not parents:
                # built by a helper that hands the node back: look at what its callers do with the result
                short = q.split(".")[-1]
                for q2, f2 in pm.functions.items():
                    for k in walk_no_nested(f2.node):
                        if isinstance(k, ast.Call) and ((isinstance(k.func, ast.Attribute) and k.func.attr == short) or (isinstance(k.func, ast.Name) and k.func.id == short)):
                            parents |= parents_in(f2.node, k)
            if not parents:
                raise AnalysisError(f"{q}: Assignment(key=\"\") is built but the Block / Section / Document it becomes a child of is not found in the same function; who emits it is not decided")
            for P in sorted(parents):
                ok = handles_bare(emitter_of[P])
                run.instance(rule, pm.loc(c), f"{q}: a bare-key Assignment becomes a child of a {P}; {emitter_of[P]} tests the child's key for emptiness", ok=ok)
                if not ok:
                    run.violation(rule, pm, q, f"Assignment(key=\"\") child of {P}", f"{q} puts a bare-key Assignment (a literal zone without `KEY::`) among the children of a {P}, but {emitter_of[P]} has no branch for a child without a key: it is written through emit_assignment as a line that is just `::` followed by the fence, which the reader does not read back as that zone - the canonical text changes when it is canonicalised again")
    if n == 0:
        raise AnalysisError("no Assignment(key=\"\") construction found in the parser (bare literal-zone children): anchor moved")


# ======================================================================================= R01.9
def check_envelope_name_sources(run: Run, rule: str = "R01.9") -> None:
    """the envelope line ===NAME=== is written from Document.name verbatim: NAME must be in the reader's envelope language"""
    import re as _re

    run.rule(rule, "a document name set outside the parser is readable as an envelope: every Document(name=E) / <doc>.name = E in the tools, CLI, sealer and projector takes E from another document's .name, from a constant, or from a capture group of a constant regex whose group is the lexer's envelope-name pattern - or is guarded by a full match of that pattern; str.isidentifier() / isalnum() are not such guards (they admit non-ASCII letters the ENVELOPE_START token does not)", 3)
    lx = run.project.mod("core.lexer")
    pats = [p for p, t in _token_patterns(run, lx) if t == "ENVELOPE_START"]
    if len(pats) != 1:
        raise AnalysisError("lexer: ENVELOPE_START pattern not found")
    m = _re.fullmatch(r"===\((.+)\)===", pats[0])
    if not m:
        raise AnalysisError(f"lexer: ENVELOPE_START pattern {pats[0]!r} is not ===(<name>)===")
    name_pat = m.group(1)
    name_re = _re.compile(name_pat)
    n = 0
    for mod in run.project.modules.values():
        if mod.name.endswith("core.parser") or mod.name.endswith("core.lexer") or mod.name.endswith("core.ast_nodes"):
            continue
        for fi in mod.functions.values():
            sites: list[tuple[ast.AST, ast.AST]] = []
            for c in walk_no_nested(fi.node):
                if isinstance(c, ast.Call) and isinstance(c.func, ast.Name) and c.func.id == "Document":
                    v = next((k.value for k in c.keywords if k.arg == "name"), c.args[0] if c.args else None)
                    if v is not None:
                        sites.append((c, v))
                if isinstance(c, ast.Assign) and len(c.targets) == 1 and isinstance(c.targets[0], ast.Attribute) and c.targets[0].attr == "name" and isinstance(c.targets[0].value, ast.Name) and c.targets[0].value.id in ("doc", "document", "new_doc", "result_doc", "sealed", "projected"):
                    sites.append((c, c.value))
            if not sites:
                continue
            from ..cfg import CFG, atomic_conditions

            cfg = CFG(fi.node)

            def ok_source(e: ast.AST, holder: int | None, depth: int = 0) -> bool:
                if isinstance(e, ast.Constant):
                    return isinstance(e.value, str) and bool(name_re.fullmatch(e.value))
                if isinstance(e, ast.Attribute) and e.attr == "name":
                    return True  # another document's name
                if isinstance(e, ast.IfExp):
                    return ok_source(e.body, holder, depth + 1) and ok_source(e.orelse, holder, depth + 1)
                if isinstance(e, ast.Call) and isinstance(e.func, ast.Attribute) and e.func.attr == "group" and isinstance(e.func.value, ast.Name) and len(e.args) == 1 and isinstance(e.args[0], ast.Constant):
                    mdefs = [a.value for a in walk_no_nested(fi.node) if isinstance(a, ast.Assign) and any(isinstance(t, ast.Name) and t.id == e.func.value.id for t in a.targets)]
                    for d in mdefs:
                        if not (isinstance(d, ast.Call) and ast.unparse(d.func) in ("re.search", "re.match", "re.fullmatch") and d.args):
                            return False
                        pat = run.project.try_fold(mod, d.args[0])
                        if not isinstance(pat, str) or f"({name_pat})" not in pat:
                            return False
                    return bool(mdefs)
                if isinstance(e, ast.Name) and depth < 3:
                    # guarded by a full match of the envelope-name pattern
                    if holder is not None:
                        for t, val in atomic_conditions(cfg, holder):
                            if val and isinstance(t, ast.Call) and ast.unparse(t.func) in ("re.fullmatch", "re.match") and len(t.args) == 2 and isinstance(t.args[1], ast.Name) and t.args[1].id == e.id:
                                pat = run.project.try_fold(mod, t.args[0])
                                if isinstance(pat, str) and pat.strip("^$").rstrip("\\Z") == name_pat and (ast.unparse(t.func) == "re.fullmatch" or pat.endswith(("$", "\\Z"))):
                                    return True
                    defs = [a.value for a in walk_no_nested(fi.node) if isinstance(a, ast.Assign) and any(isinstance(t, ast.Name) and t.id == e.id for t in a.targets)]
                    params = {a.arg for a in fi.node.args.args}  # type: ignore[attr-defined]
                    return bool(defs) and e.id not in params and all(ok_source(d, holder, depth + 1) for d in defs)
                return False

            for site, v in sites:
                holder = next((nd.id for nd in cfg.nodes if nd.ast is not None and nd.kind == "stmt" and any(x is site for x in ast.walk(nd.ast))), None)
                ok = ok_source(v, holder)
                n += 1
                run.instance(rule, mod.loc(site), f"{fi.qualname}: document name <- `{_text(v)[:50]}`", ok=ok)
                if not ok:
                    run.violation(rule, mod, fi.qualname, site, f"the document name is set from `{_text(v)[:60]}`, which is not known to match the lexer's envelope name pattern {name_pat!r} (a guard such as str.isidentifier() also admits non-ASCII letters): emit() writes it verbatim as ===NAME===, and the reader refuses that line - the canonical text the tool returns or writes cannot be read again")
    if n == 0:
        raise AnalysisError("no Document(name=...) / <doc>.name = ... outside the parser found (sealer copies, octave_write salvage): anchor moved")


def _token_patterns(run: Run, lx) -> list[tuple[str, str]]:
    node = lx.const_node("TOKEN_PATTERNS")
    out = []
    for el in getattr(node, "elts", []):
        if isinstance(el, ast.Tuple) and len(el.elts) == 2:
            p = run.project.try_fold(lx, el.elts[0])
            if isinstance(p, str):
                out.append((p, ast.unparse(el.elts[1]).split(".")[-1]))
    return out


# ======================================================================================= R01.7
VERBATIM_NAME_FIELDS = {"Section": ["key", "section_id"], "Block": ["key"], "Assignment": ["key"], "Document": ["name"]}


def check_name_fields(run: Run) -> None:
    run.rule("R01.7", "names the emitter writes verbatim (Section.key / section_id, Block.key, Assignment.key) are taken by the parser only from tokens whose text re-lexes to itself: wherever such a name is read from the current token's .value the token cannot be a STRING (a quoted title may contain anything; written back bare it is cut at the first operator or refused)", 4)
    from ..progress import ParserModel
    from ..source import enum_members

    tt = enum_members(run.project, "core.lexer", "TokenType")
    pmodel = ParserModel(run.project, tt)
    pm = pmodel.pm
    n = 0
    for name, fi in pmodel.cls.methods.items():
        ctors = [c for c in walk_no_nested(fi.node) if isinstance(c, ast.Call) and isinstance(c.func, ast.Name) and c.func.id in VERBATIM_NAME_FIELDS]
        if not ctors:
            continue
        cfg = pmodel.cfg(fi)
        rt = pmodel.reaching_types(fi)
        aliases = pmodel.aliases(fi)
        for c in ctors:
            for field in VERBATIM_NAME_FIELDS[c.func.id]:  # type: ignore[union-attr]
                kw = next((k.value for k in c.keywords if k.arg == field), None)
                if kw is None:
                    continue
                seen: set[str] = set()
                work = [x.id for x in ast.walk(kw) if isinstance(x, ast.Name)]
                while work:
                    v = work.pop()
                    if v in seen:
                        continue
                    seen.add(v)
                    for node in cfg.nodes:
                        a = node.ast
                        if not (node.kind == "stmt" and isinstance(a, (ast.Assign, ast.AugAssign))):
                            continue
                        tg = a.targets if isinstance(a, ast.Assign) else [a.target]
                        if not any(isinstance(x, ast.Name) and x.id == v for t in tg for x in ast.walk(t)):
                            continue
                        reads_value = any(isinstance(x, ast.Attribute) and x.attr == "value" and ((isinstance(x.value, ast.Call) and _text(x.value) == "self.current()") or (isinstance(x.value, ast.Name) and x.value.id in aliases)) for x in ast.walk(a.value))
                        if reads_value:
                            n += 1
                            ts = rt.get(node.id, frozenset())
                            ok = "STRING" not in ts or len(ts) > 20  # an unrefined set means the read is not under a test of the current token (alias of an earlier token)
                            run.instance("R01.7", pm.loc(a), f"{name}: {c.func.id}.{field} <- `{_text(a)[:50]}` with current token in {sorted(ts)[:4]}{'…' if len(ts) > 4 else ''}", ok=ok)  # type: ignore[union-attr]
                            if not ok:
                                run.violation("R01.7", pm, fi.qualname, f"{c.func.id}.{field} from a STRING token", f"`{_text(a)[:60]}` takes {c.func.id}.{field} from the current token while it can be a STRING; the emitter writes this name bare, so a quoted title such as \"Q&A\" or \"2nd phase\" canonicalises to text that reads back as a different name (cut at the operator) or not at all")  # type: ignore[union-attr]
                        else:
                            work += [x.id for x in ast.walk(a.value) if isinstance(x, ast.Name) and x.id not in seen]
    if n < 4:
        raise AnalysisError(f"only {n} reads of a name field from the current token found")


def check(run: Run) -> None:
    lm = lexmodel.build(run.project)
    em = run.project.mod("core.emitter")
    run.rule("R01.1", "bare ⊆ lexable: every string needs_quotes leaves unquoted is consumed by the tokenizer as exactly the token(s) its reader expects - no token regex steals a prefix, the identifier scanner reads the whole word, expression segments and operators are ones parse_flow_expression accepts (automata over the symbolic alphabet; shared engine with C04 R04.3 / C09 R09.6)", 30)
    bare.check_token_construction(run, "R01.1")
    bare.check_bare(run, "R01.1", lm, em)
    check_verbatim(run)
    check_part_order(run)
    check_indent(run)
    run.rule("R01.5", "numbers stay in the NUMBER token language: failing int()/float() conversions become LexerError and non-finite floats are refused, so the emitter never writes inf/nan", 3)
    c04.check_number_lexemes(run, "R01.5", lm)
    check_trailing_comment(run)
    check_name_fields(run)
    check_bare_key_children(run)
    check_envelope_name_sources(run)
    run.assume("emit(parse(emit(parse(x)))) == emit(parse(x)) itself, list-layout stability (_needs_multiline vs parse_list), indentation re-reading through INDENT tokens and comment placement other than the assignment trailing comment are not decided")
