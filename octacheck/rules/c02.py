"""C02 Canonicalisation preserves document content exactly (I1 fidelity).

Decided (structural necessary conditions; equality with an independent content model is not decided):
  R02.1  token -> text tables on the canonical path drop no content token (three-valued evaluation of each dispatch chain
         for every TokenType member)
  R02.2  field symmetry: every AST field the parser fills is read by the emitter function of that node kind
  R02.3  comments are recorded when consumed: every point where the current token is known to be a COMMENT and the parser
         moves on has stored its text first (discard sites are findings)
  R02.4  parse_value has an explicit branch for every member of VALUE_TOKENS
  R02.5  escape-on-read is the inverse of escape-on-write (shared with C04 R04.1/R04.2)
  R02.6  the two indentation-tracked child loops (block children, section children) agree on how the line-indent tracker is
         reset after a child
  R02.7  the lenient pre-pass of octave_write consults every protected range before rewriting a match (shared with C05)
"""
from __future__ import annotations

import ast

from ..astmodel import AstModel
from ..cfg import CFG
from ..progress import ParserModel
from ..report import Run
from ..source import AnalysisError, EnumRef, FuncInfo, enum_members, walk_no_nested
from . import c04

SKIPPABLE = {"NEWLINE", "INDENT", "COMMENT", "EOF"}


def _text(n: ast.AST) -> str:
    return " ".join(ast.unparse(n).split())


# ======================================================================================= R02.1
class Chain:
    """three-valued evaluation of a token-type dispatch for one concrete TokenType member"""

    def __init__(self, project, module, typevars: set[str], sinks: set[str], local_sets: dict[str, set[str]]):
        self.p = project
        self.m = module
        self.typevars = typevars  # expressions that denote the token's type: {"token.type", "tok.type", "token_type"}
        self.sinks = sinks  # list names whose append/extend means "rendered"
        self.local_sets = local_sets

    def types_of(self, e: ast.AST) -> set[str] | None:
        if isinstance(e, ast.Attribute) and isinstance(e.value, ast.Name) and e.value.id == "TokenType":
            return {e.attr}
        if isinstance(e, (ast.Tuple, ast.List, ast.Set)):
            out: set[str] = set()
            for x in e.elts:
                s = self.types_of(x)
                if s is None:
                    return None
                out |= s
            return out
        if isinstance(e, ast.Name):
            if e.id in self.local_sets:
                return self.local_sets[e.id]
            v = self.p.try_fold(self.m, e)
            if isinstance(v, (set, frozenset, tuple, list)) and all(isinstance(x, EnumRef) for x in v):
                return {x.member for x in v}
        return None

    def test(self, t: ast.AST, T: str) -> bool | None:
        if isinstance(t, ast.UnaryOp) and isinstance(t.op, ast.Not):
            r = self.test(t.operand, T)
            return None if r is None else not r
        if isinstance(t, ast.BoolOp):
            rs = [self.test(v, T) for v in t.values]
            if isinstance(t.op, ast.And):
                if any(r is False for r in rs):
                    return False
                return True if all(r is True for r in rs) else None
            if any(r is True for r in rs):
                return True
            return False if all(r is False for r in rs) else None
        if isinstance(t, ast.Compare) and len(t.ops) == 1 and _text(t.left) in self.typevars:
            s = self.types_of(t.comparators[0])
            if s is None:
                return None
            op = t.ops[0]
            if isinstance(op, (ast.Eq, ast.In)):
                return T in s
            if isinstance(op, (ast.NotEq, ast.NotIn)):
                return T not in s
        return None

    def run(self, stmts: list[ast.stmt], T: str, appended: bool = False) -> set[str]:
        """outcomes of executing stmts for a token of type T: 'rendered' / 'dropped'"""
        outcomes: set[str] = set()
        states = [(0, appended)]
        while states:
            i, app = states.pop()
            if i >= len(stmts):
                outcomes.add("rendered" if app else "dropped")
                continue
            st = stmts[i]
            if isinstance(st, ast.If):
                r = self.test(st.test, T)
                branches = []
                if r is not False:
                    branches.append(st.body)
                if r is not True:
                    branches.append(st.orelse)
                for b in branches:
                    sub = self.run(list(b) + [ast.Pass()] if False else list(b), T, app)
                    # continue after the if with each sub-outcome unless the branch ended the iteration
                    ended = any(isinstance(x, (ast.Continue, ast.Return, ast.Raise, ast.Break)) for x in b if isinstance(x, ast.stmt))
                    for o in sub:
                        if ended:
                            outcomes.add(o)
                        else:
                            states.append((i + 1, o == "rendered"))
                continue
            if isinstance(st, (ast.Continue, ast.Break)):
                outcomes.add("rendered" if app else "dropped")
                continue
            if isinstance(st, (ast.Return, ast.Raise)):
                outcomes.add("rendered" if (app or (isinstance(st, ast.Return) and st.value is not None) or isinstance(st, ast.Raise)) else "dropped")
                continue
            a2 = app
            for c in ast.walk(st):
                if isinstance(c, ast.Call) and isinstance(c.func, ast.Attribute) and c.func.attr in ("append", "extend") and isinstance(c.func.value, ast.Name) and c.func.value.id in self.sinks:
                    a2 = True
            states.append((i + 1, a2))
        return outcomes


def check_tables(run: Run, tt: list[str]) -> None:
    run.rule("R02.1", "token -> text tables on the canonical path (holographic raw pattern, captured bracket annotations, multi-word rendering) render every token kind that is not whitespace/comment: evaluating each dispatch chain for every TokenType member never ends without appending text", 45)
    p = run.project
    pm = p.mod("core.parser")
    cls = pm.cls("Parser")
    # (function, loop variable type expressions, sinks, exempt kinds with reason)
    tables = []
    # (the locals named here are canonicalised by octacheck.localnames, whatever the repository calls them)
    f1 = cls.methods["_reconstruct_pattern_from_tokens"]
    tables.append((f1, {"token.type"}, {"parts"}, {}))
    f2 = cls.methods["_consume_bracket_annotation"]
    tables.append((f2, {"tok.type"}, {"annotation_tokens"}, {"LIST_END": "the bracket that closes the annotation itself is not part of its text"}))
    for fi, tv, sinks, exempt in tables:
        loops = [n for n in walk_no_nested(fi.node) if isinstance(n, (ast.For, ast.While)) and any(isinstance(c, ast.Call) and isinstance(c.func, ast.Attribute) and c.func.attr == "append" and isinstance(c.func.value, ast.Name) and c.func.value.id in sinks for c in ast.walk(n))]
        if not loops:
            raise AnalysisError(f"{fi.qualname}: rendering loop not found")
        local_sets = {}
        for n in walk_no_nested(fi.node):
            if isinstance(n, ast.Assign) and len(n.targets) == 1 and isinstance(n.targets[0], ast.Name) and isinstance(n.value, (ast.Set, ast.Tuple)):
                s = Chain(p, pm, tv, sinks, {}).types_of(n.value)
                if s is not None:
                    local_sets[n.targets[0].id] = s
        ch = Chain(p, pm, tv, sinks, local_sets)
        for loop in loops:
            for T in tt:
                if T in SKIPPABLE:
                    continue
                if isinstance(loop, ast.While):
                    r = ch.test(loop.test, T)
                    if r is False:
                        continue
                out = ch.run(list(loop.body), T)
                dropped = "dropped" in out
                if dropped and T in exempt:
                    run.instance("R02.1", pm.loc(loop), f"{fi.name}: {T} not rendered on some path - {exempt[T]}", nontrivial=False)
                    continue
                run.instance("R02.1", pm.loc(loop), f"{fi.name}: {T} -> {sorted(out)}", ok=not dropped)
                if dropped:
                    run.violation("R02.1", pm, fi.qualname, f"{fi.name}: token kind {T} not rendered", f"a {T} token inside the brackets passes through {fi.name} without any text being appended: the value that is written back has lost that token (content silently dropped)")
    # _token_to_str: every path returns text
    f3 = pm.func("_token_to_str")
    last = f3.node.body[-1]  # type: ignore[attr-defined]
    ok = isinstance(last, ast.Return) and last.value is not None
    run.instance("R02.1", pm.loc(f3.node), "_token_to_str ends in an unconditional `return str(token.value)`-style fallback", ok=ok)
    if not ok:
        run.violation("R02.1", pm, "_token_to_str", "fallback return", "_token_to_str has no unconditional fallback return: some token kind renders as None")


# ======================================================================================= R02.2
EMITTER_OF = {
    "Assignment": ["emit_assignment"], "Block": ["emit_block"], "Section": ["emit_section"], "Document": ["emit"], "Comment": ["emit_comment"],
    "ListValue": ["emit_value", "_emit_multiline_list", "_needs_multiline"], "InlineMap": ["emit_value", "_emit_multiline_list", "_force_quote_inline_map_value", "_needs_multiline"],
    "HolographicValue": ["emit_value"], "LiteralZoneValue": ["emit_assignment", "emit_block", "emit_value"],
}
FIELD_EXEMPT = {
    ("*", "line"): "position, not content", ("*", "column"): "position, not content",
    ("ListValue", "tokens"): "token slice kept for schema extraction, not emitted",
    ("HolographicValue", "tokens"): "token slice kept for schema extraction, not emitted",
    ("HolographicValue", "example"): "derived from raw_pattern, which is what the emitter writes",
    ("HolographicValue", "constraints"): "derived from raw_pattern", ("HolographicValue", "target"): "derived from raw_pattern",
}


def check_fields(run: Run) -> None:
    run.rule("R02.2", "field symmetry: every field of Document/Assignment/Block/Section/Comment and of the value classes that some parser construction or store fills is read by the emitter function(s) of that kind (positions and derived fields exempt by name)", 18)
    p = run.project
    am = AstModel(p)
    pm = p.mod("core.parser")
    em = p.mod("core.emitter")
    written: dict[tuple[str, str], str] = {}
    for fi in pm.functions.values():
        for call, cls in am.constructions(fi):
            if cls not in EMITTER_OF:
                continue
            fields = list(am.classes[cls]) if cls in am.classes else []
            for kw in call.keywords:
                if kw.arg:
                    written.setdefault((cls, kw.arg), pm.loc(call))
            for i, _a in enumerate(call.args):
                # positional: dataclass field order (own fields after inherited ones)
                order = _field_order(am, cls)
                if i < len(order):
                    written.setdefault((cls, order[i]), pm.loc(call))
        for n in walk_no_nested(fi.node):
            if isinstance(n, ast.Assign):
                for t in n.targets:
                    if isinstance(t, ast.Attribute) and isinstance(t.value, ast.Name) and t.value.id == "doc" and t.attr in am.classes.get("Document", []):
                        written.setdefault(("Document", t.attr), pm.loc(n))
            if isinstance(n, ast.Call) and isinstance(n.func, ast.Attribute) and n.func.attr in ("append", "extend") and isinstance(n.func.value, ast.Attribute) and isinstance(n.func.value.value, ast.Name) and n.func.value.value.id == "doc":
                written.setdefault(("Document", n.func.value.attr), pm.loc(n))
    if len(written) < 15:
        raise AnalysisError(f"only {len(written)} written AST fields found in parser.py")
    for (cls, field), where in sorted(written.items()):
        why = FIELD_EXEMPT.get((cls, field)) or FIELD_EXEMPT.get(("*", field))
        if why:
            run.instance("R02.2", where, f"{cls}.{field}: exempt - {why}", nontrivial=False)
            continue
        readers = []
        for fname in EMITTER_OF[cls]:
            if not em.has_func(fname):
                continue
            for n in walk_no_nested(em.func(fname).node):
                if isinstance(n, ast.Attribute) and n.attr == field and isinstance(n.ctx, ast.Load):
                    readers.append(fname)
                if isinstance(n, ast.Call) and isinstance(n.func, ast.Name) and n.func.id in ("getattr", "hasattr") and len(n.args) >= 2 and isinstance(n.args[1], ast.Constant) and n.args[1].value == field:
                    readers.append(fname)
        ok = bool(readers)
        run.instance("R02.2", where, f"{cls}.{field} written by the parser, read by {sorted(set(readers)) or 'NO emitter function'}", ok=ok)
        if not ok:
            run.violation("R02.2", em, EMITTER_OF[cls][0], f"{cls}.{field} never read", f"the parser fills {cls}.{field} ({where}) but {', '.join(EMITTER_OF[cls])} never read it: that part of the document is lost in the canonical text")


def _field_order(am: AstModel, cls: str) -> list[str]:
    out: list[str] = []
    def rec(c: str) -> None:
        ci = am.module.classes.get(c)
        if ci is None:
            return
        for b in ci.bases:
            rec(b.split(".")[-1])
        for st in ci.node.body:
            if isinstance(st, ast.AnnAssign) and isinstance(st.target, ast.Name) and not st.target.id.startswith("_"):
                if st.target.id not in out:
                    out.append(st.target.id)
    rec(cls)
    return out


# ======================================================================================= R02.3
def _records_value(node_ast: ast.AST, aliases: set[str]) -> bool:
    for n in walk_no_nested(node_ast):
        if isinstance(n, ast.Attribute) and n.attr == "value":
            v = n.value
            if (isinstance(v, ast.Call) and ast.unparse(v) in ("self.current()", "self.advance()")) or (isinstance(v, ast.Name) and v.id in aliases):
                return True  # advance() returns the token it has just consumed
        # the consumed token itself kept in a list whose elements' .value is read later in the function (collect first, pick
        # the comment texts afterwards)
        if isinstance(n, ast.Call) and isinstance(n.func, ast.Attribute) and n.func.attr == "append" and isinstance(n.func.value, ast.Name) and n.args and isinstance(n.args[0], ast.Call) and ast.unparse(n.args[0]) in ("self.advance()", "self.current()"):
            lst = n.func.value.id
            fn = n
            while fn is not None and not isinstance(fn, (ast.FunctionDef, ast.AsyncFunctionDef)):
                fn = getattr(fn, "_parent", None)
            if fn is not None:
                for c in ast.walk(fn):
                    if isinstance(c, (ast.ListComp, ast.GeneratorExp, ast.SetComp)):
                        for g in c.generators:
                            if isinstance(g.iter, ast.Name) and g.iter.id == lst and isinstance(g.target, ast.Name) and any(isinstance(x, ast.Attribute) and x.attr == "value" and isinstance(x.value, ast.Name) and x.value.id == g.target.id for x in ast.walk(c.elt)):
                                return True
                    if isinstance(c, ast.For) and isinstance(c.iter, ast.Name) and c.iter.id == lst and isinstance(c.target, ast.Name) and any(isinstance(x, ast.Attribute) and x.attr == "value" and isinstance(x.value, ast.Name) and x.value.id == c.target.id for b in c.body for x in ast.walk(b)):
                        return True
    return False


def check_comments(run: Run, pmodel: ParserModel) -> None:
    run.rule("R02.3", "comments are recorded when consumed: from every test that establishes the current token may be a COMMENT (== COMMENT, or membership in a small set containing it), every path to the next consuming call on which the token can still be a COMMENT first reads its .value into the result", 8)
    pm = pmodel.pm
    n_sites = 0
    for name, fi in pmodel.cls.methods.items():
        cfg = pmodel.cfg(fi)
        al_all = pmodel.aliases(fi)
        for t in cfg.nodes:
            if t.kind != "test" or t.ast is None:
                continue
            s0 = pmodel.refine(t.ast, True, pmodel.types, al_all, fi)
            if "COMMENT" not in s0 or len(s0) > 4:
                continue
            n_sites += 1
            # explore from the true edge
            bad = []
            seen = set()
            work = [(s, s0, False, (t.id,)) for s, lab in cfg.succ[t.id] if lab == "t"]
            while work:
                n, ts, rec, path = work.pop()
                if (n, ts, rec) in seen or "COMMENT" not in ts:
                    continue
                seen.add((n, ts, rec))
                node = cfg.nodes[n]
                if node.ast is not None and node.kind in ("stmt", "test", "iter"):
                    if _records_value(node.ast, al_all):
                        rec = True
                    if pmodel.node_may_consume(node.ast):
                        if not rec:
                            bad.append((node, path + (n,)))
                        continue
                if n == cfg.exit:
                    continue  # returned without consuming: the caller deals with the comment
                for s, lab in cfg.succ[n]:
                    if lab == "x":
                        continue
                    ts2 = ts
                    if node.kind == "test" and node.ast is not None and lab in ("t", "f"):
                        ts2 = pmodel.refine(node.ast, lab == "t", ts, al_all, fi)
                    work.append((s, ts2, rec, path + (n,)))
            ok = not bad
            run.instance("R02.3", pm.loc(t.ast), f"{name}: `{_text(t.ast)[:60]}` -> " + ("comment text stored before moving on" if ok else "COMMENT consumed WITHOUT storing its text"), ok=ok)
            seen_c = set()
            for node, path in bad:
                key = _text(node.ast)[:60]
                if key in seen_c:
                    continue
                seen_c.add(key)
                # keyed by the set of token kinds the test admits, not by how the test is spelled (a hoisted or renamed set
                # constant must not turn a recorded finding into a new one)
                run.violation("R02.3", pm, fi.qualname, "COMMENT discarded where the current token is one of {" + ",".join(sorted(s0)) + "}", f"after `{_text(t.ast)[:60]}` the current token can be a COMMENT and `{key}` moves past it without storing its text anywhere: the comment is missing from the document that is read (and from the canonical text)", path=[cfg.nodes[i].lineno for i in path if cfg.nodes[i].lineno])
    run.extra["comment_test_sites"] = n_sites
    # expect() is only ever asked for concrete non-comment kinds
    bad_expect = []
    for name, fi in pmodel.cls.methods.items():
        for n in walk_no_nested(fi.node):
            if isinstance(n, ast.Call) and _text(n.func) == "self.expect" and n.args:
                a = n.args[0]
                if not (isinstance(a, ast.Attribute) and isinstance(a.value, ast.Name) and a.value.id == "TokenType" and a.attr != "COMMENT"):
                    bad_expect.append(n)
    run.instance("R02.3", pm.relpath, "every expect(...) names a concrete TokenType other than COMMENT", ok=not bad_expect)
    for n in bad_expect:
        run.violation("R02.3", pm, "Parser", f"{_text(n)[:50]}", "expect() with a non-constant or COMMENT kind may consume a comment without storing it")


# ======================================================================================= R02.4
def check_value_dispatch(run: Run) -> None:
    run.rule("R02.4", "Parser.parse_value has an explicit `token.type == TokenType.X` branch for every member X of VALUE_TOKENS, so no value token reaches the catch-all that renders str(token.value); a structural token (NEWLINE, COMMENT, INDENT, EOF, ENVELOPE_END) in value position is never consumed as the value", 10)
    p = run.project
    pm = p.mod("core.parser")
    vt = p.const(pm, "VALUE_TOKENS")
    members = sorted(x.member for x in vt if isinstance(x, EnumRef))
    fi = pm.func("Parser.parse_value")
    explicit: set[str] = set()
    for st in fi.node.body:  # type: ignore[attr-defined]
        cur = st
        while isinstance(cur, ast.If):
            for c in ast.walk(cur.test):
                if isinstance(c, ast.Compare) and _text(c.left) in ("token.type", "self.current().type") and len(c.ops) == 1 and isinstance(c.ops[0], (ast.Eq, ast.In)):
                    for x in ast.walk(c.comparators[0]):
                        if isinstance(x, ast.Attribute) and isinstance(x.value, ast.Name) and x.value.id == "TokenType":
                            explicit.add(x.attr)
            nxt = cur.orelse
            cur = nxt[0] if len(nxt) == 1 and isinstance(nxt[0], ast.If) else None
    # ... a branch may also be selected through a module-level table keyed by token kinds: `TABLE.get(token.type)`,
    # `token.type in TABLE`, `TABLE[token.type]` at the top level of the function: its keys are explicit branches
    for n in walk_no_nested(fi.node):
        tbl = None
        if isinstance(n, ast.Call) and isinstance(n.func, ast.Attribute) and n.func.attr == "get" and isinstance(n.func.value, ast.Name) and n.args and _text(n.args[0]) in ("token.type", "self.current().type"):
            tbl = n.func.value.id
        elif isinstance(n, ast.Compare) and len(n.ops) == 1 and isinstance(n.ops[0], ast.In) and _text(n.left) in ("token.type", "self.current().type") and isinstance(n.comparators[0], ast.Name):
            tbl = n.comparators[0].id
        elif isinstance(n, ast.Subscript) and isinstance(n.value, ast.Name) and _text(n.slice) in ("token.type", "self.current().type"):
            tbl = n.value.id
        if tbl and pm.has_const(tbl):
            t = pm.const_node(tbl)
            if isinstance(t, ast.Dict):
                explicit |= {k.attr for k in t.keys if isinstance(k, ast.Attribute) and isinstance(k.value, ast.Name) and k.value.id == "TokenType"}
    # structural tokens must not be consumed as a value by the catch-all
    ch = Chain(p, pm, {"token.type", "self.current().type"}, set(), {})
    top = [st for st in fi.node.body if isinstance(st, ast.If)]  # type: ignore[attr-defined]
    for T in ("NEWLINE", "COMMENT", "INDENT", "EOF", "ENVELOPE_END"):
        taken = None
        for st in top:
            cur = st
            while isinstance(cur, ast.If):
                r = ch.test(cur.test, T)
                if r is not False:
                    taken = cur.body
                    break
                nxt = cur.orelse
                if len(nxt) == 1 and isinstance(nxt[0], ast.If):
                    cur = nxt[0]
                else:
                    taken = nxt or None
                    cur = None
            if taken is not None:
                break
        reads_value = taken is not None and any(isinstance(n, ast.Attribute) and n.attr == "value" and _text(n.value) in ("token", "self.current()") for b in taken for n in ast.walk(b))
        consumes = taken is not None and any(isinstance(n, ast.Call) and _text(n.func) == "self.advance" for b in taken for n in ast.walk(b))
        ok = not (reads_value and consumes)
        run.instance("R02.4", pm.loc(fi.node), f"parse_value: a {T} token in value position is " + ("left for the caller" if ok else "CONSUMED as the value"), ok=ok)
        if not ok:
            run.violation("R02.4", pm, "Parser.parse_value", f"{T} consumed as a value", f"when the token after `::` is a {T} (nothing on the line), parse_value's branch for it takes str(token.value) as the value and consumes the token: `K::` at the end of a line reads as the text of that token instead of an empty value")
    for m in members:
        ok = m in explicit
        run.instance("R02.4", pm.loc(fi.node), f"parse_value: branch for {m}", ok=ok)
        if not ok:
            run.violation("R02.4", pm, "Parser.parse_value", f"no branch for {m}", f"parse_value has no explicit branch for {m}, a member of VALUE_TOKENS: such a value falls into the catch-all and is read as the string str(token.value), changing its type")


# ======================================================================================= R02.6
def check_child_loops(run: Run) -> None:
    run.rule("R02.6", "sibling agreement of the two indentation-tracked child loops (block children in parse_section, section children in parse_section_marker): after a child was appended both reset the line-indent tracker unconditionally before the next iteration, and both apply the same three dedent tests", 2)
    pm = run.project.mod("core.parser")
    facts = {}
    for qual in ("Parser.parse_section", "Parser.parse_section_marker"):
        fi = pm.func(qual)
        cfg = CFG(fi.node)
        appends = [n for n in cfg.nodes if n.kind == "stmt" and n.ast is not None and _text(n.ast) == "children.append(child)"]
        if not appends:
            raise AnalysisError(f"{qual}: children.append(child) not found")
        resets = {n.id for n in cfg.nodes if n.kind == "stmt" and isinstance(n.ast, ast.Assign) and _text(n.ast) == "current_line_indent = 0"}
        heads = [n for n in cfg.nodes if n.kind == "test" and isinstance(n.owner, ast.While) and any(id(a.ast) in {id(x) for x in ast.walk(n.owner)} for a in appends)]
        if not heads:
            raise AnalysisError(f"{qual}: child loop not found")
        head = heads[-1].id
        unconditional = all(cfg.all_paths_pass(a.id, head, lambda nn: nn.id in resets, {"x"}) is None for a in appends)
        loop = heads[-1].owner
        dedent_tests = sorted({_text(t.test) for t in ast.walk(loop) if isinstance(t, ast.If) and "current_line_indent < child_indent" in _text(t.test)})
        n_dedent = sum(1 for t in ast.walk(loop) if isinstance(t, ast.If) and "current_line_indent < child_indent" in _text(t.test))
        facts[qual] = (unconditional, n_dedent, dedent_tests)
        run.instance("R02.6", pm.loc(loop), f"{qual}: tracker reset after a child on every path: {unconditional}; dedent tests: {n_dedent}", ok=True, nontrivial=True)
    a, b = facts["Parser.parse_section"], facts["Parser.parse_section_marker"]
    if a[0] != b[0]:
        who = "Parser.parse_section" if not a[0] else "Parser.parse_section_marker"
        run.violation("R02.6", pm, who, "current_line_indent reset after a child", f"the two child loops disagree: {who} resets the line-indent tracker after a child only on some paths, its sibling on all: after such a child the stale indent hides an implicit dedent and the next top-level item is read as a child of this block (wrong parent)")
    if not a[0] and not b[0]:
        run.violation("R02.6", pm, "Parser.parse_section", "current_line_indent reset after a child", "neither child loop resets the line-indent tracker after a child on every path")
    if a[1] < 2 or b[1] < 2:
        who = "Parser.parse_section" if a[1] < 2 else "Parser.parse_section_marker"
        run.violation("R02.6", pm, who, "dedent tests in the child loop", f"{who} applies {min(a[1], b[1])} dedent test(s) `current_line_indent < child_indent`; the explicit-INDENT and the implicit-dedent test are both needed to decide parentage")


def check_leading_comments_emitted(run: Run) -> None:
    """R02.10: comments the reader attached to a node are written back: in every emitter function whose node parameter has
    `leading_comments`, the read of `<node>.leading_comments` (handed to the comment emitter) dominates every return of text -
    a branch that returns before it (an early return added in front, a helper call that skips it) drops the comments of exactly
    the nodes that take that branch"""
    run.rule("R02.10", "leading comments are written for every node that carries them: in emit_assignment / emit_block / emit_section the read of <node>.leading_comments dominates every return", 3)
    em = run.project.mod("core.emitter")
    from ..cfg import CFG

    n = 0
    for q in ("emit_assignment", "emit_block", "emit_section"):
        fi = em.func(q)
        p0 = fi.node.args.args[0].arg  # type: ignore[attr-defined]
        cfg = CFG(fi.node)
        reads = [nd.id for nd in cfg.nodes if nd.ast is not None and nd.kind in ("stmt", "test", "iter", "with") and any(isinstance(x, ast.Attribute) and x.attr == "leading_comments" and isinstance(x.value, ast.Name) and x.value.id == p0 and not isinstance(getattr(x, "_parent", None), ast.Call) or (isinstance(x, ast.Attribute) and x.attr == "leading_comments" and isinstance(x.value, ast.Name) and x.value.id == p0 and isinstance(getattr(x, "_parent", None), ast.Call) and ast.unparse(getattr(x, "_parent").func) != "hasattr") for x in ast.walk(nd.ast))]
        if not reads:
            raise AnalysisError(f"{q}: no read of {p0}.leading_comments found")
        for rn in [nd for nd in cfg.nodes if isinstance(nd.ast, ast.Return) and nd.ast.value is not None]:
            n += 1
            # is there a path entry -> this return that neither reads the comments nor leaves `hasattr(node, "leading_comments")`
            # by its false edge (a node without the attribute has no comments to write)?
            seen, stack, found = {cfg.entry}, [cfg.entry], False
            while stack and not found:
                cur = stack.pop()
                if cur == rn.id:
                    found = True
                    break
                if cur in reads:
                    continue
                cn = cfg.nodes[cur]
                has_test = cn.kind == "test" and cn.ast is not None and "hasattr" in ast.unparse(cn.ast) and "leading_comments" in ast.unparse(cn.ast)
                for s_, lab in cfg.succ[cur]:
                    if lab == "x" or (has_test and lab == "f") or s_ in seen:
                        continue
                    seen.add(s_)
                    stack.append(s_)
            ok = not found
            run.instance("R02.10", em.loc(rn.ast), f"{q}: `{_text(rn.ast)[:50]}` comes after the node's leading comments were read", ok=ok)
            if not ok:
                run.violation("R02.10", em, q, f"return before {p0}.leading_comments", f"{q} can return its text on a path that never reads {p0}.leading_comments: the comments the reader attached to such a node are missing from the canonical text (content the author wrote is dropped)", line=rn.lineno)


def _frontmatter_markers(run: Run) -> None:
    """R02.13: reader and writer agree on what delimits the frontmatter"""
    run.rule("R02.13", "the frontmatter ends where the emitter would end it: every line _strip_yaml_frontmatter accepts as a delimiter is a delimiter emit() writes around raw_frontmatter (`---`); any other closing marker (`...`, `+++`) can occur as an ordinary line inside the YAML text, which would then be cut short and its rest read as document body", 1)
    pm = run.project.mod("core.parser")
    em = run.project.mod("core.emitter")
    fi = pm.func("_strip_yaml_frontmatter")
    markers: set[str] = set()
    sites = []
    for c in walk_no_nested(fi.node):
        if isinstance(c, ast.Compare) and len(c.ops) == 1 and isinstance(c.ops[0], (ast.Eq, ast.NotEq, ast.In, ast.NotIn)) and "lines[" in ast.unparse(c.left):
            v = run.project.try_fold(pm, c.comparators[0])
            vals = [v] if isinstance(v, str) else (list(v) if isinstance(v, (tuple, list, set, frozenset)) else None)
            if vals is None or not all(isinstance(x, str) for x in vals):
                raise AnalysisError(f"_strip_yaml_frontmatter: the marker set in `{ast.unparse(c)[:60]}` does not fold to constants")
            markers |= set(vals)
            sites.append(c)
        if isinstance(c, ast.Call) and isinstance(c.func, ast.Attribute) and c.func.attr in ("startswith", "endswith") and "lines[" in ast.unparse(c.func.value) and c.args:
            v = run.project.try_fold(pm, c.args[0])
            if isinstance(v, str):
                markers.add(v + "<prefix>")
                sites.append(c)
    if not sites:
        raise AnalysisError("_strip_yaml_frontmatter: no delimiter comparison on lines[...] found")
    efi = em.func("emit")
    written = set()
    for c in walk_no_nested(efi.node):
        if isinstance(c, ast.Call) and isinstance(c.func, ast.Attribute) and c.func.attr == "append" and c.args:
            v = run.project.try_fold(em, c.args[0])
            if isinstance(v, str) and v.strip() and set(v.strip()) <= set("-.+~=") and len(v.strip()) == 3:
                written.add(v.strip())
    if not written:
        raise AnalysisError("emit(): the frontmatter delimiter lines are not found")
    extra = sorted(markers - written)
    run.instance("R02.13", pm.loc(fi.node), f"_strip_yaml_frontmatter accepts {sorted(markers)}; emit() writes {sorted(written)}", ok=not extra)
    if extra:
        run.violation("R02.13", pm, fi.qualname, f"frontmatter delimiters {sorted(markers)}", f"the reader ends the frontmatter at {extra}, which the emitter never writes as a delimiter: a frontmatter whose YAML text contains such a line (an indented `...` in a block scalar) is cut short, the rest is read as document content (other keys, envelope INFERRED) and written back that way")


def check(run: Run) -> None:
    tt = enum_members(run.project, "core.lexer", "TokenType")
    pmodel = ParserModel(run.project, tt)
    check_leading_comments_emitted(run)
    check_tables(run, tt)
    check_fields(run)
    check_comments(run, pmodel)
    check_value_dispatch(run)
    run.rule("R02.5", "escape-on-read is the inverse of escape-on-write: the lexer's STRING decoder undoes exactly the emitter's escape chain, on every character", 2)
    run.rule("R02.5b", "all copies of the emitter's escape chain are identical", 1)
    c04.check_escape_inverse(run, "R02.5", "R02.5b")
    c04.check_number_spelling(run, "R02.11")
    from . import c01 as _c01

    _frontmatter_markers(run)
    _c01.check_indent(run, "R02.12")  # which parent a field belongs to is carried by indentation alone
    check_child_loops(run)
    from . import c05
    c05.check_prepass_protection(run, "R02.7")
    from .. import bare, lexmodel

    lm = lexmodel.build(run.project)
    run.rule("R02.8", "a string value the emitter leaves unquoted is read back as that same string: bare ⊆ lexable (automata, shared with C01 R01.1 / C04 R04.3 / C09 R09.6), and a scanned identifier becomes exactly an IDENTIFIER token", 30)
    bare.check_token_construction(run, "R02.8")
    bare.check_bare(run, "R02.8", lm, run.project.mod("core.emitter"))
    c05.check_prelex_text(run, "R02.9")
    run.assume("equality of the parsed content with an independent statement of what was written (parentage by indentation on concrete layouts, duplicate-key order, value equality) is not decided")
