"""C05 Literal zones pass through every pipeline byte-for-byte.

Decided (structural necessary conditions; byte equality through a pipeline is not decided):
  R05.1  content flow: every read of .content/.info_tag/.fence_marker of a literal zone is in a verbatim form (no transforming
         method, slice or concatenation)
  R05.2  zones are immutable and built in one place: no store to those fields, LiteralZoneValue(...) only in parse_literal_zone
  R05.3  every function that dispatches on the value classes has a LiteralZoneValue branch (or returns unknown objects unchanged)
  R05.4  fence-aware normalisation: inside a fence the raw line is appended; unicodedata.normalize is called nowhere else;
         the tab rejection consults every fence span
  R05.5  the lenient pre-pass of octave_write finds zones with the lexer's fence rules and consults every protected range
  R05.6  whole-text passes over emitted output are fence-aware
  R05.7  the sites that lay out a zone as a field agree: key line, fence lines at the field's indent, content appended verbatim
         exactly when non-empty
"""
from __future__ import annotations

import ast

from ..cfg import CFG, branch_conditions
from ..pathstate import conjuncts
from ..report import Run
from ..source import AnalysisError, FuncInfo, Module, walk_no_nested, norm

ZONE_FIELDS = {"content", "info_tag", "fence_marker"}
VALUE_CLASSES = {"ListValue", "InlineMap", "HolographicValue", "LiteralZoneValue"}
OBSERVER_METHODS = {"endswith", "startswith", "count", "encode", "isspace"}
SAFE_CALLEES = {"append", "LiteralZoneValue", "len", "isinstance", "bool", "hash", "repr", "str", "sha256", "update", "get"}
SCOPE_QUICK = ("core.emitter", "core.repair", "mcp.write", "mcp.validate", "mcp.eject", "core.validator", "core.constraints", "cli.main", "core.projector", "core.sealer", "core.parser")


def _text(n: ast.AST) -> str:
    return " ".join(ast.unparse(n).split())


def _par(n: ast.AST) -> ast.AST | None:
    return getattr(n, "_parent", None)


# ======================================================================================= R05.1 / R05.2
def _zone_exprs(fi: FuncInfo) -> set[str]:
    """texts of expressions known to denote a LiteralZoneValue somewhere in the function"""
    out: set[str] = set()
    fn = fi.node
    for a in fn.args.args + fn.args.kwonlyargs:  # type: ignore[attr-defined]
        if a.annotation is not None and "LiteralZoneValue" in _text(a.annotation) and "|" not in _text(a.annotation):
            out.add(a.arg)
    if fi.cls == "LiteralZoneValue":
        out.add("self")
    for n in walk_no_nested(fn):
        if isinstance(n, ast.Call) and isinstance(n.func, ast.Name) and n.func.id == "isinstance" and len(n.args) == 2 and _text(n.args[1]) == "LiteralZoneValue":
            out.add(_text(n.args[0]))
    changed = True
    while changed:
        changed = False
        for n in walk_no_nested(fn):
            if isinstance(n, ast.Assign) and len(n.targets) == 1 and isinstance(n.targets[0], ast.Name) and _text(n.value) in out and n.targets[0].id not in out:
                out.add(n.targets[0].id)
                changed = True
            if isinstance(n, ast.Assign) and len(n.targets) == 1 and isinstance(n.targets[0], ast.Name) and isinstance(n.value, ast.Call) and _text(n.value.func) in ("self.parse_literal_zone", "LiteralZoneValue") and n.targets[0].id not in out:
                out.add(n.targets[0].id)
                changed = True
    return out


def _classify_read(n: ast.AST, field: str) -> tuple[bool, str]:
    """is this read of a zone field in a verbatim form?"""
    cur = n
    par = _par(cur)
    if isinstance(par, ast.FormattedValue):
        ok = par.conversion == -1 and par.format_spec is None
        return ok, "interpolated in an f-string" + ("" if ok else " WITH a conversion/format spec")
    if isinstance(par, (ast.List, ast.Tuple, ast.Set)):
        return True, "element of a literal"
    if isinstance(par, ast.Dict):
        return True, "dict value"
    if isinstance(par, ast.keyword):
        return True, f"keyword argument {par.arg}"
    if isinstance(par, (ast.If, ast.While, ast.IfExp)) and getattr(par, "test", None) is cur:
        return True, "truthiness test"
    if isinstance(par, ast.BoolOp):
        return True, "operand of and/or"
    if isinstance(par, ast.UnaryOp) and isinstance(par.op, ast.Not):
        return True, "negated truthiness"
    if isinstance(par, ast.Compare):
        return True, "comparison"
    if isinstance(par, ast.Return):
        return True, "returned unchanged"
    if isinstance(par, ast.Assign) and par.value is cur:
        return True, "bound to a name"
    if isinstance(par, ast.AugAssign) and par.value is cur and isinstance(par.op, ast.Add):
        return True, "appended to a line being built"
    if isinstance(par, ast.Call) and cur in par.args:
        callee = par.func.attr if isinstance(par.func, ast.Attribute) else (par.func.id if isinstance(par.func, ast.Name) else _text(par.func))
        ok = callee in SAFE_CALLEES
        return ok, f"argument of {callee}()" + ("" if ok else " - not a verbatim sink")
    if isinstance(par, ast.Attribute) and par.value is cur:
        m = par.attr
        if m in OBSERVER_METHODS:
            return True, f".{m}() observer"
        if m == "lower" and field == "info_tag":
            # comparison of the language tag only
            gp = _par(_par(par)) if isinstance(_par(par), ast.Call) else None
            return True, ".lower() of the info tag for comparison"
        if m in ("strip", "lstrip", "rstrip") and field == "info_tag" and False:
            return True, ""
        # predicates used only as a test
        call = _par(par)
        test_user = _par(call) if isinstance(call, ast.Call) else None
        if isinstance(test_user, (ast.If, ast.While, ast.UnaryOp, ast.BoolOp, ast.Compare)):
            return True, f".{m}() used only as a test"
        return False, f".{m}() transforms the {field}"
    if isinstance(par, ast.Subscript) and par.value is cur:
        return False, f"sliced/indexed: {_text(par)[:40]}"
    if isinstance(par, ast.BinOp):
        return False, f"combined by an operator: {_text(par)[:50]}"
    if isinstance(par, ast.Expr):
        return True, "expression statement"
    if isinstance(par, ast.Starred):
        return True, "unpacked"
    return False, f"unrecognised use in {type(par).__name__}: {_text(par)[:50] if par is not None else ''}"


def check_flow(run: Run, scope: list[Module]) -> None:
    run.rule("R05.1", "every read of .content / .info_tag / .fence_marker on an expression known to be a literal zone is verbatim: interpolated or appended unchanged, stored, compared, tested, or observed (endswith/startswith/count); any transforming method, slice or operator is a violation; names bound to such a read are followed", 25)
    run.rule("R05.2", "no assignment to .content / .info_tag / .fence_marker of a zone anywhere, and LiteralZoneValue(...) is constructed only by Parser.parse_literal_zone", 1)
    n_reads = 0
    for m in scope:
        for fi in m.functions.values():
            zs = _zone_exprs(fi)
            if not zs:
                continue
            aliases: dict[str, str] = {}
            for n in walk_no_nested(fi.node):
                if isinstance(n, ast.Attribute) and n.attr in ZONE_FIELDS and isinstance(n.ctx, ast.Load) and _text(n.value) in zs:
                    n_reads += 1
                    ok, why = _classify_read(n, n.attr)
                    par = _par(n)
                    if isinstance(par, ast.Assign) and par.value is n and len(par.targets) == 1 and isinstance(par.targets[0], ast.Name):
                        aliases[par.targets[0].id] = n.attr
                    if isinstance(par, ast.BoolOp):
                        gp = _par(par)
                        if isinstance(gp, ast.Assign) and len(gp.targets) == 1 and isinstance(gp.targets[0], ast.Name):
                            aliases[gp.targets[0].id] = n.attr
                    run.instance("R05.1", m.loc(n), f"{fi.qualname}: {_text(n)} {why}", ok=ok)
                    if not ok:
                        run.violation("R05.1", m, fi.qualname, f"{_text(n)}: {why[:60]}", f"the literal zone's {n.attr} is not passed on verbatim here ({why}): what comes out of this pipeline differs from what went in")
                if isinstance(n, ast.Attribute) and n.attr in ZONE_FIELDS and isinstance(n.ctx, ast.Store) and (_text(n.value) in zs or n.attr in ("info_tag", "fence_marker")):
                    run.violation("R05.2", m, fi.qualname, f"store to {_text(n)}", f"`{_text(n)}` is assigned after construction: a literal zone must come out exactly as it was read")
            # uses of names bound to a zone field
            for n in walk_no_nested(fi.node):
                if isinstance(n, ast.Name) and isinstance(n.ctx, ast.Load) and n.id in aliases:
                    # skip when the name was re-bound from something else as well
                    binds = [a for a in walk_no_nested(fi.node) if isinstance(a, ast.Assign) and any(isinstance(t, ast.Name) and t.id == n.id for t in a.targets)]
                    if len(binds) != 1:
                        continue
                    n_reads += 1
                    ok, why = _classify_read(n, aliases[n.id])
                    run.instance("R05.1", m.loc(n), f"{fi.qualname}: `{n.id}` (= zone {aliases[n.id]}) {why}", ok=ok)
                    if not ok:
                        run.violation("R05.1", m, fi.qualname, f"{n.id} (zone {aliases[n.id]}): {why[:60]}", f"`{n.id}` holds the literal zone's {aliases[n.id]} and is not passed on verbatim ({why})")
    run.extra["zone_field_reads"] = n_reads
    # constructions: whole package
    n_ctor = 0
    for m in run.project.modules.values():
        for fi in m.functions.values():
            for n in walk_no_nested(fi.node):
                if isinstance(n, ast.Call) and isinstance(n.func, ast.Name) and n.func.id == "LiteralZoneValue":
                    n_ctor += 1
                    ok = m.name.endswith("core.parser") and fi.qualname == "Parser.parse_literal_zone"
                    run.instance("R05.2", m.loc(n), f"{fi.qualname}: LiteralZoneValue(...) constructed", ok=ok)
                    if not ok:
                        run.violation("R05.2", m, fi.qualname, "LiteralZoneValue(...) constructed outside the parser", "a literal zone is built outside Parser.parse_literal_zone: its content did not come verbatim from a fenced span of the input")
                if isinstance(n, ast.Call) and _text(n.func) in ("replace", "dataclasses.replace") and n.args and any(k.arg in ZONE_FIELDS for k in n.keywords) and any(_text(n.args[0]) in _zone_exprs(fi) for _ in [0]):
                    run.violation("R05.2", m, fi.qualname, f"{_text(n)[:60]}", "dataclasses.replace on a literal zone changes its content/tag/marker")
    if n_ctor == 0:
        raise AnalysisError("no LiteralZoneValue construction found")


# ======================================================================================= R05.3
def check_dispatchers(run: Run, scope: list[Module]) -> None:
    run.rule("R05.3", "every function that dispatches on the AST value classes (isinstance tests against at least two of ListValue / InlineMap / HolographicValue on one expression) also tests LiteralZoneValue on it, or ends in a fallback that returns the object unchanged", 6)
    for m in scope:
        for fi in m.functions.values():
            tested: dict[str, set[str]] = {}
            for n in walk_no_nested(fi.node):
                if isinstance(n, ast.Call) and isinstance(n.func, ast.Name) and n.func.id == "isinstance" and len(n.args) == 2:
                    t = n.args[1]
                    names = {x.id for x in ast.walk(t) if isinstance(x, ast.Name)}
                    tested.setdefault(_text(n.args[0]), set()).update(names & VALUE_CLASSES)
            # predicates / validators (return only True/False/None or raise) inspect shape, they do not convert values
            rets_all = [r for r in walk_no_nested(fi.node) if isinstance(r, ast.Return)]
            predicate = all(r.value is None or (isinstance(r.value, ast.Constant) and r.value.value in (True, False, None)) or isinstance(r.value, (ast.Compare, ast.BoolOp)) or (isinstance(r.value, ast.Call) and _text(r.value.func) in ("any", "all", "isinstance", "bool")) for r in rets_all)
            for expr, classes in tested.items():
                if len(classes - {"LiteralZoneValue"}) < 2:
                    continue
                if predicate:
                    run.instance("R05.3", m.loc(fi.node), f"{fi.qualname}: shape predicate over {sorted(classes)} (returns no converted value)", nontrivial=False)
                    continue
                has_zone = "LiteralZoneValue" in classes
                fallback = False
                last = fi.node.body[-1]  # type: ignore[attr-defined]
                rets = [r for r in walk_no_nested(fi.node) if isinstance(r, ast.Return) and r.value is not None and _text(r.value) == expr]
                # a fallback `return <value>` is an identity only in functions that hand values on as AST objects; a converter
                # to plain containers / text would leak the zone object (json.dumps TypeError, repr in markdown)
                converts = any(isinstance(r.value, (ast.ListComp, ast.List, ast.Dict, ast.DictComp, ast.JoinedStr)) for r in rets_all if r.value is not None)
                if rets and not converts:
                    fallback = True
                ok = has_zone or fallback
                run.instance("R05.3", m.loc(fi.node), f"{fi.qualname}: dispatch on `{expr}` over {sorted(classes)}" + ("" if has_zone else (" - no zone branch, falls back to returning the object" if fallback else " - NO zone branch")), ok=ok)
                if not ok:
                    run.violation("R05.3", m, fi.qualname, f"dispatch on {expr} without LiteralZoneValue", f"{fi.qualname} handles {sorted(classes)} but has neither a LiteralZoneValue branch nor a fallback returning the object unchanged: a literal zone reaching it is stringified, dropped or raises")


# ======================================================================================= R05.4
def check_normalisation(run: Run) -> None:
    run.rule("R05.4", "fence-aware normalisation: in _normalize_with_fence_detection a line that is content of an open fence is appended as the raw loop variable; unicodedata.normalize is called nowhere else in the package; the tab rejection in tokenize is taken only when a test over every fence span says the tab is outside all of them", 6)
    p = run.project
    lx = p.mod("core.lexer")
    fi = lx.func("_normalize_with_fence_detection")
    cfg = CFG(fi.node)
    loops = [n for n in walk_no_nested(fi.node) if isinstance(n, ast.For) and "lines" in _text(n.iter) and any(isinstance(c, ast.Call) and _text(c.func) == "output_parts.append" for c in ast.walk(n))]
    if not loops or not isinstance(loops[0].target, (ast.Tuple, ast.Name)):
        raise AnalysisError("_normalize_with_fence_detection: line loop not found")
    tgt = loops[0].target
    line_var = tgt.elts[-1].id if isinstance(tgt, ast.Tuple) else tgt.id  # type: ignore[union-attr]
    n_app = 0

    def facts_at(nid: int) -> set[str]:
        f: set[str] = set()
        for cond, pol in branch_conditions(cfg, nid):
            f |= set(conjuncts(cond, pol))
        return f

    def classify(expr: ast.AST, facts: set[str], where: ast.AST) -> None:
        """expr is what gets appended for a line on a path with `facts`"""
        nonlocal n_app
        if isinstance(expr, ast.IfExp):
            classify(expr.body, facts | set(conjuncts(expr.test, True)), where)
            classify(expr.orelse, facts | set(conjuncts(expr.test, False)), where)
            return
        n_app += 1
        in_fence = "in_fence" in facts
        closing = any(f.startswith(("result == ", "verdict == ")) and "close" in f for f in facts) or any(" == 'close'" in f for f in facts)
        # a boolean local that says "this line closes the fence": every binding of it is a conjunction that contains the
        # match of FENCE_PATTERN on this line (a closing fence is a fence line; the length comparison is R05.5's concern)
        for f in facts:
            if f.isidentifier() and not closing:
                ds = [a.value for a in walk_no_nested(fi.node) if isinstance(a, ast.Assign) and len(a.targets) == 1 and isinstance(a.targets[0], ast.Name) and a.targets[0].id == f]
                if ds and all((any(isinstance(x, ast.Name) and x.id in ("match", "fence_match", "m") for x in ast.walk(d)) and ("len(" in _text(d) or ">=" in _text(d) or "==" in _text(d))) or (isinstance(d, ast.Compare) and any(isinstance(x, ast.Constant) and x.value == "close" for x in ast.walk(d))) for d in ds):
                    closing = True
        opening = "!in_fence" in facts
        arg = _text(expr)
        content_path = in_fence and not closing and not opening
        ok = (arg == line_var) if content_path else True
        run.instance("R05.4", lx.loc(where), f"a line is emitted as `{arg}` on a path with in_fence={in_fence}, closing={closing}", ok=ok)
        if not ok:
            run.violation("R05.4", lx, fi.qualname, f"output_parts.append({arg}) inside an open fence", f"inside an open fence the content line is appended as `{arg}`, not as the raw line `{line_var}`: literal zone content is normalised")

    for n in cfg.nodes:
        if n.kind != "stmt" or n.ast is None:
            continue
        for c in walk_no_nested(n.ast):
            if isinstance(c, ast.Call) and _text(c.func) == "output_parts.append" and c.args:
                a0 = c.args[0]
                if isinstance(a0, ast.Name) and a0.id != line_var and a0.id != "normalized_line" or (isinstance(a0, ast.Name) and a0.id == "normalized_line" and False):
                    # a shared append of a per-branch variable: classify every assignment of that variable with its own facts
                    defs = [d for d in cfg.nodes if d.kind == "stmt" and isinstance(d.ast, ast.Assign) and any(isinstance(t, ast.Name) and t.id == a0.id for t in d.ast.targets)]
                    direct_norm = [d for d in defs if "normalize" in _text(d.ast.value)]
                    if defs and not (len(defs) == len(direct_norm) and a0.id == "normalized_line"):
                        for d in defs:
                            classify(d.ast.value, facts_at(d.id), d.ast)
                        continue
                classify(a0, facts_at(n.id), c)
    if n_app < 3:
        raise AnalysisError(f"_normalize_with_fence_detection: only {n_app} emitted-line site(s) found")
    # who may call unicodedata.normalize
    for m in p.modules.values():
        for f2 in m.functions.values():
            for n in walk_no_nested(f2.node):
                if isinstance(n, ast.Call) and (_text(n.func) in ("unicodedata.normalize", "normalize") or (isinstance(n.func, ast.Attribute) and n.func.attr == "normalize" and "unicodedata" in _text(n.func))):
                    ok = m is lx and f2.qualname == "_normalize_with_fence_detection"
                    run.instance("R05.4", m.loc(n), f"{f2.qualname}: {_text(n)[:50]}", ok=ok, nontrivial=not ok)
                    if not ok:
                        run.violation("R05.4", m, f2.qualname, f"{_text(n)[:50]}", "Unicode normalisation outside the fence-aware pass: if this text contains a literal zone its content is normalised")
        for st in m.tree.body:
            for n in ast.walk(st) if not isinstance(st, (ast.FunctionDef, ast.ClassDef)) else []:
                if isinstance(n, ast.Call) and "unicodedata.normalize" in _text(n.func):
                    run.violation("R05.4", m, "<module>", f"{_text(n)[:50]}", "Unicode normalisation at module level")
    # tab rejection
    tk = lx.func("tokenize")
    cfg2 = CFG(tk.node)
    raises = [n for n in cfg2.nodes if n.kind == "stmt" and isinstance(n.ast, ast.Raise) and "Tabs are not allowed" in _text(n.ast)]
    if not raises:
        # the pre-scan may have been extracted into a helper of the lexer module that tokenize calls
        for c in walk_no_nested(tk.node):
            if isinstance(c, ast.Call) and isinstance(c.func, ast.Name) and lx.has_func(c.func.id):
                h = lx.func(c.func.id)
                if any(isinstance(x, ast.Raise) and "Tabs are not allowed" in _text(x) for x in walk_no_nested(h.node)):
                    tk = h
                    cfg2 = CFG(tk.node)
                    raises = [n for n in cfg2.nodes if n.kind == "stmt" and isinstance(n.ast, ast.Raise) and "Tabs are not allowed" in _text(n.ast)]
                    break
    if not raises:
        raise AnalysisError("tokenize: tab rejection not found")
    for r in raises:
        conds = branch_conditions(cfg2, r.id)
        facts = set()
        for cond, pol in conds:
            facts |= set(conjuncts(cond, pol))
        flags = [f[1:] for f in facts if f.startswith("!") and f[1:].isidentifier()]
        ok = False
        why = "no test on a fence-span flag controls the raise"
        # the scan itself may be the condition: `if any(start <= i < end for ... in fence_spans): continue`
        for cond, pol in conds:
            t = cond.operand if isinstance(cond, ast.UnaryOp) and isinstance(cond.op, ast.Not) else cond
            neg = (pol is False) != (t is not cond)
            if neg and isinstance(t, ast.Call) and _text(t.func) == "any" and t.args and isinstance(t.args[0], ast.GeneratorExp):
                ge = t.args[0]
                if len(ge.generators) == 1 and _text(ge.generators[0].iter) == "fence_spans" and not ge.generators[0].ifs and isinstance(ge.elt, ast.Compare) and len(ge.elt.ops) == 2:
                    ok, why = True, "the raise is taken only when any(start <= i < end over every fence span) is false"
        for fl in flags:
            defs = [a for a in walk_no_nested(tk.node) if isinstance(a, ast.Assign) and any(isinstance(t, ast.Name) and t.id == fl for t in a.targets)]
            if len(defs) == 1 and isinstance(defs[0].value, ast.Call) and _text(defs[0].value.func) == "any" and isinstance(defs[0].value.args[0], ast.GeneratorExp):
                ge = defs[0].value.args[0]
                if len(ge.generators) == 1 and _text(ge.generators[0].iter) == "fence_spans" and not ge.generators[0].ifs and isinstance(ge.elt, ast.Compare) and len(ge.elt.ops) == 2:
                    ok, why = True, f"`{fl}` = any(start <= i < end over every fence span)"
            elif defs:
                why = f"`{fl}` is not computed by a scan over every fence span ({len(defs)} definition(s): {_text(defs[0])[:60]})"
                # cursor idiom: accepted only when the cursor is advanced in a while loop
                cursor_ifs = [x for x in walk_no_nested(tk.node) if isinstance(x, ast.AugAssign) and isinstance(x.op, ast.Add) and isinstance(x.target, ast.Name) and f"fence_spans[{x.target.id}]" in _text(tk.node) and x.target.id != "fence_span_idx"]
                if cursor_ifs and all(isinstance(_par(x), ast.While) for x in cursor_ifs):
                    ok, why = True, f"`{fl}` uses a span cursor advanced by a while loop"
        run.instance("R05.4", lx.loc(r.ast), f"tab rejection: {why}", ok=ok)
        if not ok:
            run.violation("R05.4", lx, "tokenize", "tab rejection vs fence spans", f"the `Tabs are not allowed` error is not guarded by a test that consults every fence span ({why}): a tab inside some literal zone is rejected")


# ======================================================================================= R05.5
def check_prepass_protection(run: Run, rule: str) -> None:
    run.rule(rule, "the curly-brace pre-pass of octave_write decides 'inside a literal zone' with the lexer's FENCE_PATTERN and closes a zone only on a fence of the opening length; its protected-range lookup examines every range that starts at or before the position (full scan, early exit only on `start > pos` after sorting)", 3)
    w = run.project.mod("mcp.write")
    fi = w.func("WriteTool._repair_curly_brace_annotations")
    src = _text(fi.node)
    # (a) fence authority
    uses_pattern = any(isinstance(n, ast.Call) and _text(n.func) == "FENCE_PATTERN.match" for n in walk_no_nested(fi.node))
    own_detector = any(isinstance(n, ast.Call) and isinstance(n.func, ast.Attribute) and n.func.attr == "startswith" and n.args and isinstance(n.args[0], ast.Constant) and isinstance(n.args[0].value, str) and set(n.args[0].value) == {"`"} for n in walk_no_nested(fi.node))
    ok_a = uses_pattern and not own_detector
    run.instance(rule, w.loc(fi.node), f"fence lines recognised with FENCE_PATTERN: {uses_pattern}; private backtick test: {own_detector}", ok=ok_a)
    if not ok_a:
        run.violation(rule, w, fi.qualname, "fence detection in the pre-pass", "the pre-pass recognises fences with its own backtick test instead of the lexer's FENCE_PATTERN: a ``` line inside a ```` zone (or an indented/decorated line) switches protection at a different place than the lexer, and NAME{q} inside the zone is rewritten")
    closes = [n for n in walk_no_nested(fi.node) if isinstance(n, ast.If) and "in_fence = False" in _text(ast.Module(body=n.body, type_ignores=[]))]
    len_test = any("len(" in _text(n.test) and "fence_marker" in _text(n.test) for n in closes) or any("len(" in _text(n.test) for n in closes)
    run.instance(rule, w.loc(fi.node), f"a zone is closed only by a fence whose length is compared with the opening marker: {len_test}", ok=len_test)
    if not len_test:
        run.violation(rule, w, fi.qualname, "zone closed by any fence line", "the pre-pass closes a zone at the first fence line of any length: shorter backtick runs inside a longer fence end the protected range too early")
    # (b) lookup
    nested = [f for q, f in w.functions.items() if q.startswith(fi.qualname + ".<locals>.")]
    lookups = [f for f in nested if any(isinstance(n, ast.Name) and n.id == "protected" for n in walk_no_nested(f.node))]
    if not lookups:
        # lookup inlined: look for any(...) over protected
        inl = [n for n in walk_no_nested(fi.node) if isinstance(n, ast.Call) and _text(n.func) == "any" and "protected" in _text(n)]
        ok = bool(inl)
        run.instance(rule, w.loc(fi.node), "protected-range lookup inlined as any(... for ... in protected)", ok=ok)
        if not ok:
            run.violation(rule, w, fi.qualname, "protected-range lookup", "no lookup over the protected ranges found before a match is rewritten")
        return
    for lf in lookups:
        loops = [n for n in walk_no_nested(lf.node) if isinstance(n, ast.For) and _text(n.iter) == "protected"]
        anys = [n for n in walk_no_nested(lf.node) if isinstance(n, ast.Call) and _text(n.func) == "any" and "protected" in _text(n)]
        ok, why = False, "neither a for loop over all protected ranges nor any(...) over them"
        if anys:
            ok, why = True, "any(...) over all ranges"
        elif loops:
            loop = loops[0]
            exits = [n for n in ast.walk(loop) if isinstance(n, (ast.Break, ast.Return, ast.Continue))]
            bad = []
            for e in exits:
                cond = _par(e)
                ctext = _text(cond.test) if isinstance(cond, ast.If) else ""
                if isinstance(e, ast.Return) and isinstance(e.value, ast.Constant) and e.value.value is True:
                    continue
                if isinstance(e, ast.Break) and ("> pos" in ctext or "pos <" in ctext) and "start" in ctext and "protected.sort()" in src:
                    continue
                bad.append(_text(e) + (" under " + ctext if ctext else ""))
            ok = not bad
            why = "full scan, leaves early only on a hit or once starts are past the position (ranges sorted)" if ok else f"leaves the scan early: {bad[0][:60]}"
        run.instance(rule, w.loc(lf.node), f"{lf.name}: {why}", ok=ok)
        if not ok:
            run.violation(rule, w, lf.qualname, "protected-range lookup", f"the lookup that protects literal zones, strings and comments from the rewrite does not examine every range that can contain the position ({why}); the ranges overlap (strings and comments inside zones), so an inner range that ended hides the enclosing zone and NAME{{q}} inside the zone is rewritten")


# ======================================================================================= R05.6
def check_text_passes(run: Run) -> None:
    run.rule("R05.6", "whole-text passes over emitted output (per-line strip, blank-line squeezing) track fence state and leave zone lines alone", 1)
    em = run.project.mod("core.emitter")
    if not em.has_func("_apply_format_options"):
        run.instance("R05.6", em.relpath, "no post-emission text pass", nontrivial=False)
        return
    fi = em.func("_apply_format_options")
    transforms = [n for n in walk_no_nested(fi.node) if isinstance(n, ast.Call) and isinstance(n.func, ast.Attribute) and n.func.attr in ("rstrip", "strip", "lstrip", "expandtabs", "replace") and isinstance(n.func.value, ast.Name)]
    fence_aware = any("FENCE" in _text(n) or "fence" in _text(n).lower() for n in walk_no_nested(fi.node) if isinstance(n, (ast.Name, ast.Attribute)))
    ok = not transforms or fence_aware
    run.instance("R05.6", em.loc(fi.node), f"_apply_format_options: {len(transforms)} per-line transformation(s), fence-aware: {fence_aware}", ok=ok)
    if not ok:
        run.violation("R05.6", em, "_apply_format_options", "per-line formatting without fence tracking", "the post-emission formatting pass strips / squeezes every line of the output, including the content lines of literal zones")


# ======================================================================================= R05.7
def _zone_layout(fn_body: list[ast.stmt], zone: str) -> dict[str, object]:
    """shape facts of one hand-written zone layout"""
    mod = ast.Module(body=fn_body, type_ignores=[])
    facts: dict[str, object] = {}
    appends = [n for n in ast.walk(mod) if isinstance(n, ast.Call) and isinstance(n.func, ast.Attribute) and n.func.attr == "append" and n.args]
    facts["content_appended_raw"] = any(_text(a.args[0]) == f"{zone}.content" for a in appends)
    guards = [n for n in ast.walk(mod) if isinstance(n, ast.If) and _text(n.test) == f"{zone}.content"]
    facts["content_guard_is_nonempty_only"] = bool(guards) and all(len(g.body) == 1 for g in guards)
    fence_lines = [n for n in ast.walk(mod) if isinstance(n, ast.JoinedStr) and n.values and isinstance(n.values[-1], ast.FormattedValue) and _text(n.values[-1].value) == f"{zone}.fence_marker"]
    facts["closing_fence"] = len(fence_lines) >= 2 or sum(1 for a in appends if isinstance(a.args[0], ast.JoinedStr) and _text(a.args[0]).endswith(f"{{{zone}.fence_marker}}'")) >= 1
    facts["mentions_endswith"] = any(isinstance(n, ast.Attribute) and n.attr == "endswith" for n in ast.walk(mod))
    return facts


def check_layout_siblings(run: Run) -> None:
    run.rule("R05.7", "the sites that lay out a literal zone as lines (every region of the emitter that builds a line ending in `{zone.fence_marker}`: emit_assignment, the bare-key child in emit_block, the META helper - or the one helper they share) agree: content is appended as its own list element exactly when non-empty, between an opening and a closing fence line, with no end-of-content newline arithmetic", 1)
    em = run.project.mod("core.emitter")
    sites: list[tuple[str, list[ast.stmt], str]] = []

    def fence_fstrings(stmts: list[ast.stmt]) -> list[str]:
        zs = []
        for st in stmts:
            for n in ast.walk(st):
                if isinstance(n, ast.JoinedStr) and n.values and isinstance(n.values[-1], ast.FormattedValue) and isinstance(n.values[-1].value, ast.Attribute) and n.values[-1].value.attr == "fence_marker" and isinstance(n.values[-1].value.value, ast.Name):
                    zs.append(n.values[-1].value.value.id)
        return zs

    for fi in em.functions.values():
        if "." in fi.qualname:
            continue
        regions: list[list[ast.stmt]] = []
        branch_nodes = [n for n in walk_no_nested(fi.node) if isinstance(n, ast.If) and "LiteralZoneValue" in _text(n.test)]
        for bnode in branch_nodes:
            regions.append(bnode.body)
        # statements of the function outside those branches
        inside = {id(x) for bnode in branch_nodes for st in bnode.body for x in ast.walk(st)}
        rest = [st for st in fi.node.body if id(st) not in inside and not any(id(x) in inside for x in ast.walk(st))]  # type: ignore[attr-defined]
        if rest:
            regions.append(rest)
        for reg in regions:
            zs = fence_fstrings(reg)
            if zs:
                sites.append((fi.qualname, reg, zs[0]))
    if len(sites) < 1:
        raise AnalysisError("no zone layout site (a line built as `...{zone.fence_marker}`) found in the emitter")
    for fname, body, z in sites:
        f = _zone_layout(body, z)
        ok = bool(f["content_appended_raw"]) and bool(f["content_guard_is_nonempty_only"]) and bool(f["closing_fence"]) and not f["mentions_endswith"]
        run.instance("R05.7", f"{em.relpath}:{fname}", f"{fname}: {f}", ok=ok)
        if not ok:
            bad = [k for k, v in f.items() if (k != "mentions_endswith" and not v) or (k == "mentions_endswith" and v)]
            run.violation("R05.7", em, fname, f"zone layout in {fname}", f"{fname} lays out a literal zone differently from its siblings ({', '.join(bad)}): content must be appended unchanged as its own element exactly when non-empty, followed by the closing fence line - otherwise trailing blank lines of a zone are eaten or added on every pass")
    run.extra["zone_layout_sites"] = [x[0] for x in sites]
    # a zone that is a field value must not be rendered through emit_value's inline form (fence on the key line, end-of-content
    # newline arithmetic): inside a branch that knows the value is a zone, emit_value is not called on it
    for fi in em.functions.values():
        for b in walk_no_nested(fi.node):
            if not (isinstance(b, ast.If) and "LiteralZoneValue" in _text(b.test)):
                continue
            conj = b.test.values if isinstance(b.test, ast.BoolOp) and isinstance(b.test.op, ast.And) else [b.test]
            zexprs = {_text(c.args[0]) for c in conj if isinstance(c, ast.Call) and _text(c.func) == "isinstance" and len(c.args) == 2 and _text(c.args[1]) == "LiteralZoneValue"}
            for st in b.body:
                for c in ast.walk(st):
                    if isinstance(c, ast.Call) and _text(c.func) == "emit_value" and c.args and _text(c.args[0]) in zexprs and fi.qualname != "emit_value":
                        run.violation("R05.7", em, fi.qualname, f"emit_value({_text(c.args[0])}) on a known zone", f"{fi.qualname} renders a value it knows to be a literal zone through emit_value, whose zone branch is the inline form (adds a newline only when the content does not already end with one): a zone whose content ends with blank lines loses one of them on every emission, unlike the sibling layouts")


# ======================================================================================= R05.8
TEXT_TRANSFORM_FUNCS = {"textwrap.dedent", "textwrap.indent", "textwrap.fill", "inspect.cleandoc", "unicodedata.normalize", "re.sub", "re.subn"}
TEXT_TRANSFORM_METHODS = {"expandtabs", "splitlines", "title", "upper", "lower", "casefold", "swapcase", "translate", "zfill", "center", "ljust", "rjust"}


def check_prelex_text(run: Run, rule: str) -> None:
    run.rule(rule, "text on its way to the lexer is never put through a whole-text transformer: in the helpers that rewrite octave_write's input before parsing (found from the assignments to the variable that is parsed) no dedent/indent/normalize/re.sub/expandtabs/splitlines/case call receives the content or anything derived from it, and the lexer, parser and emitter split text on '\\n' only (str.splitlines also splits on U+2028, U+0085, VT, FF ...)", 3)
    p = run.project
    w = p.mod("mcp.write")
    fi = w.func("WriteTool.execute")
    parsed_vars = set()
    for n in walk_no_nested(fi.node):
        if isinstance(n, ast.Call) and isinstance(n.func, ast.Name) and n.func.id in ("parse", "parse_with_warnings", "tokenize") and n.args and isinstance(n.args[0], ast.Name):
            parsed_vars.add(n.args[0].id)
    helpers = set()
    for n in walk_no_nested(fi.node):
        if isinstance(n, ast.Assign) and isinstance(n.value, ast.Call) and isinstance(n.value.func, ast.Attribute) and isinstance(n.value.func.value, ast.Name) and n.value.func.value.id == "self":
            tg = n.targets[0]
            names = {x.id for x in ast.walk(tg) if isinstance(x, ast.Name)}
            if names & parsed_vars and any(isinstance(a, ast.Name) and a.id in parsed_vars for a in n.value.args):
                helpers.add(n.value.func.attr)
    if len(helpers) < 2:
        raise AnalysisError(f"WriteTool.execute: pre-lexing helpers not found ({sorted(helpers)})")
    for h in sorted(helpers):
        hf = w.func(f"WriteTool.{h}")
        params = [a.arg for a in hf.node.args.args if a.arg != "self"]  # type: ignore[attr-defined]
        derived = {params[0]} if params else set()
        changed = True
        while changed:
            changed = False
            for n in walk_no_nested(hf.node):
                if isinstance(n, ast.Assign) and any(isinstance(x, ast.Name) and x.id in derived for x in ast.walk(n.value)):
                    for t in n.targets:
                        for x in ast.walk(t):
                            if isinstance(x, ast.Name) and x.id not in derived:
                                derived.add(x.id)
                                changed = True
                if isinstance(n, ast.For) and any(isinstance(x, ast.Name) and x.id in derived for x in ast.walk(n.iter)):
                    for x in ast.walk(n.target):
                        if isinstance(x, ast.Name) and x.id not in derived:
                            derived.add(x.id)
                            changed = True
        bad = []
        for n in walk_no_nested(hf.node):
            if not isinstance(n, ast.Call):
                continue
            mentions = lambda e: any(isinstance(x, ast.Name) and x.id in derived for x in ast.walk(e))  # noqa: E731
            ft = _text(n.func)
            if ft in TEXT_TRANSFORM_FUNCS and any(mentions(a) for a in n.args):
                bad.append(n)
            elif isinstance(n.func, ast.Attribute) and n.func.attr in TEXT_TRANSFORM_METHODS and mentions(n.func.value):
                bad.append(n)
        run.instance(rule, w.loc(hf.node), f"{h}: content-derived names {sorted(derived)[:6]}; whole-text transformers applied: {[_text(b)[:40] for b in bad]}", ok=not bad)
        for b in bad:
            run.violation(rule, w, hf.qualname, f"{_text(b.func)}(...) on the text to be parsed", f"{h} puts the text that is about to be lexed through `{_text(b)[:60]}`: the call works on every line, including the content lines of literal zones (blank-line blanking, tab expansion, case or Unicode folding), before the lexer can protect them")
    # line splitting in the core pipeline
    n_split = 0
    for short in ("core.lexer", "core.parser", "core.emitter"):
        m = p.mod(short)
        for f2 in m.functions.values():
            for n in walk_no_nested(f2.node):
                if isinstance(n, ast.Call) and isinstance(n.func, ast.Attribute) and n.func.attr == "splitlines":
                    n_split += 1
                    run.violation(rule, m, f2.qualname, f"{_text(n)[:50]}", "str.splitlines() also splits on U+2028, U+2029, U+0085, VT, FF, FS, GS, RS: a quoted value, comment or literal zone containing one of them is cut into lines and re-joined with '\\n' (content changed on the first read)")
    run.instance(rule, "src/octave_mcp/core", f"lexer/parser/emitter: {n_split} use(s) of str.splitlines()", ok=n_split == 0)
    ctl = ast.parse("x.splitlines()").body[0].value  # type: ignore[attr-defined]
    run.control(rule, "a `.splitlines()` call is recognised", isinstance(ctl, ast.Call) and ctl.func.attr == "splitlines")  # type: ignore[attr-defined]


# ======================================================================================= R05.9
def check_fence_recognition(run: Run, rule: str = "R05.9") -> None:
    """what opens and closes a zone is decided by FENCE_PATTERN on the line as it stands in the text"""
    run.rule(rule, "a fence is recognised on the raw line: every application of the lexer's FENCE_PATTERN (match / fullmatch) takes a line of the newline-split text unchanged - the loop variable, or an element of that list - never a stripped, case-folded, expanded or otherwise rewritten copy (a copy would let a tab-indented or otherwise different content line open or close a zone); search() is not used", 2)
    n = 0
    for m in run.project.modules.values():
        # the name(s) under which this module knows the lexer's FENCE_PATTERN
        names = set()
        if m.name.endswith("core.lexer") and m.has_const("FENCE_PATTERN"):
            names.add("FENCE_PATTERN")
        for st in ast.walk(m.tree):
            if isinstance(st, ast.ImportFrom) and st.module and st.module.endswith("lexer"):
                for a in st.names:
                    if a.name == "FENCE_PATTERN":
                        names.add(a.asname or a.name)
        if not names:
            continue
        for fi in m.functions.values():
            for c in walk_no_nested(fi.node):
                if not (isinstance(c, ast.Call) and isinstance(c.func, ast.Attribute) and c.func.attr in ("match", "fullmatch", "search", "finditer", "findall") and (ast.unparse(c.func.value) in names or ast.unparse(c.func.value).endswith(".FENCE_PATTERN"))):
                    continue
                n += 1
                arg = c.args[0] if c.args else None
                why = None
                if c.func.attr not in ("match", "fullmatch"):
                    why = f"FENCE_PATTERN.{c.func.attr} is not an anchored whole-line test"
                elif len(c.args) != 1 or c.keywords:
                    why = "FENCE_PATTERN applied with a start/end position"
                elif not _is_raw_line(fi, arg):
                    why = f"FENCE_PATTERN is applied to `{norm(arg)}`, which is not a line of the newline-split text as it stands"
                run.instance(rule, m.loc(c), f"{fi.qualname}: `{norm(c)}`", ok=why is None)
                if why:
                    run.violation(rule, m, fi.qualname, c, f"{why}: a content line that is not a fence (tab-indented backticks, a fence followed by other text) can open or close a literal zone, so zone content is cut short or neighbouring fields are swallowed")
    if n < 2:
        raise AnalysisError(f"only {n} application(s) of FENCE_PATTERN found (lexer normaliser and octave_write pre-pass expected)")


def _is_raw_line(fi: FuncInfo, arg: ast.AST | None) -> bool:
    def is_split(e: ast.AST) -> bool:
        if isinstance(e, ast.Call) and isinstance(e.func, ast.Attribute) and e.func.attr == "split" and len(e.args) == 1 and isinstance(e.args[0], ast.Constant) and e.args[0].value == "\n":
            return True
        if isinstance(e, ast.Call) and isinstance(e.func, ast.Name) and e.func.id == "enumerate" and e.args:
            return is_split(e.args[0])
        if isinstance(e, ast.Name):
            defs = [a.value for a in walk_no_nested(fi.node) if isinstance(a, (ast.Assign, ast.AnnAssign)) and a.value is not None and any(isinstance(t, ast.Name) and t.id == e.id for t in (a.targets if isinstance(a, ast.Assign) else [a.target]))]
            return bool(defs) and all(is_split(d) for d in defs)
        return False

    if isinstance(arg, ast.Subscript) and not isinstance(arg.slice, ast.Slice):
        return is_split(arg.value)
    if not isinstance(arg, ast.Name):
        return False
    # every binding of the name is the target of a for loop over the split lines (directly or through enumerate)
    binds = []
    for a in walk_no_nested(fi.node):
        if isinstance(a, (ast.For, ast.comprehension)):
            tg = a.target
            tnames = [tg] if isinstance(tg, ast.Name) else (list(tg.elts) if isinstance(tg, ast.Tuple) else [])
            if any(isinstance(t, ast.Name) and t.id == arg.id for t in tnames):
                it = a.iter
                last = isinstance(tg, ast.Name) or (isinstance(tg, ast.Tuple) and isinstance(tg.elts[-1], ast.Name) and tg.elts[-1].id == arg.id)
                binds.append(is_split(it) and last)
        elif isinstance(a, (ast.Assign, ast.AnnAssign, ast.AugAssign, ast.NamedExpr)):
            tgs = a.targets if isinstance(a, ast.Assign) else [a.target]
            if any(isinstance(x, ast.Name) and x.id == arg.id for t in tgs for x in ast.walk(t)):
                v = a.value
                binds.append(isinstance(a, (ast.Assign, ast.AnnAssign)) and isinstance(v, ast.Subscript) and not isinstance(v.slice, ast.Slice) and is_split(v.value))
    return bool(binds) and all(binds)


def check_zone_construction(run: Run, rule: str = "R05.10") -> None:
    """what goes into a LiteralZoneValue is what the tokens carried"""
    run.rule(rule, "a literal zone is built from its tokens unchanged: in Parser.parse_literal_zone every local that flows into LiteralZoneValue(content=, info_tag=, fence_marker=) is bound only from token values / the fence record, None, or - for the info tag - .strip() of itself; no split / join / replace / re.sub / normalize / case / expandtabs / dedent call touches them (collapsing blanks inside an info string, trimming content lines)", 3)
    pm = run.project.mod("core.parser")
    fi = pm.func("Parser.parse_literal_zone")
    ctor = [c for c in walk_no_nested(fi.node) if isinstance(c, ast.Call) and isinstance(c.func, ast.Name) and c.func.id == "LiteralZoneValue"]
    if not ctor:
        raise AnalysisError("Parser.parse_literal_zone: LiteralZoneValue(...) construction not found")
    REWRITE = {"split", "rsplit", "join", "replace", "sub", "subn", "normalize", "lower", "upper", "title", "casefold", "expandtabs", "dedent", "indent", "translate", "splitlines", "lstrip", "rstrip", "removeprefix", "removesuffix", "encode", "decode", "format"}
    for c in ctor:
        for k in c.keywords:
            if k.arg not in ("content", "info_tag", "fence_marker"):
                continue
            # all definitions of the locals the argument reads, transitively (3 levels)
            seen: set[str] = set()
            frontier = {x.id for x in ast.walk(k.value) if isinstance(x, ast.Name)}
            exprs: list[ast.AST] = [k.value]
            for _ in range(3):
                nxt: set[str] = set()
                for nm in frontier - seen:
                    seen.add(nm)
                    for a in walk_no_nested(fi.node):
                        if isinstance(a, (ast.Assign, ast.AugAssign, ast.AnnAssign)) and a.value is not None:
                            tg = a.targets if isinstance(a, ast.Assign) else [a.target]
                            if any(isinstance(x, ast.Name) and x.id == nm for t in tg for x in ast.walk(t)):
                                exprs.append(a.value)
                                nxt |= {x.id for x in ast.walk(a.value) if isinstance(x, ast.Name)}
                frontier = nxt
            bad = sorted({x.func.attr for e in exprs for x in ast.walk(e) if isinstance(x, ast.Call) and isinstance(x.func, ast.Attribute) and x.func.attr in REWRITE and not (k.arg == "content" and x.func.attr == "join")})
            if k.arg != "info_tag":
                bad += sorted({"strip" for e in exprs for x in ast.walk(e) if isinstance(x, ast.Call) and isinstance(x.func, ast.Attribute) and x.func.attr == "strip"})
            run.instance(rule, pm.loc(c), f"parse_literal_zone: {k.arg} <- `{norm(k.value)[:40]}` built without a rewriting call", ok=not bad)
            if bad:
                run.violation(rule, pm, fi.qualname, f"LiteralZoneValue({k.arg}=...)", f"the zone's {k.arg} passes through {', '.join(bad)}() on its way into the LiteralZoneValue: the {('info tag' if k.arg == 'info_tag' else k.arg)} that parse / canonicalise / write hand on is not the text between the fences as written (only surrounding blanks of the info tag may go)")


def check(run: Run) -> None:
    p = run.project
    scope = [p.mod(s) for s in SCOPE_QUICK] if run.tier == "quick" else list(p.modules.values())
    check_flow(run, scope)
    check_dispatchers(run, scope)
    check_normalisation(run)
    check_prepass_protection(run, "R05.5")
    check_text_passes(run)
    check_layout_siblings(run)
    check_prelex_text(run, "R05.8")
    check_fence_recognition(run)
    check_zone_construction(run)
    run.assume("byte equality of zone content through a whole pipeline, and the collapse of a zone holding exactly one empty line into an empty zone (a value-level fact of the token representation) are not decided")
