"""C07 Every lenient rewrite has a receipt; canonical input has none (I4).

Decided (structural necessary conditions; the bijection on concrete documents is not decided):
  R07.1  lexer pairing: every Token built with a non-None normalized_from is followed on every path to the loop head by one
         repairs.append of type "normalization" carrying that original and the token's own line/column variables, unchanged
  R07.1b position bookkeeping: every update of pos in tokenize is accompanied by the matching update of column/line
         (for tokens containing newlines: line += count, column = characters after the last newline + 1, checked symbolically)
  R07.2  parser pairing: every `" ".join(<word list>)` in Parser that builds a value is receipted by a
         warnings.append(multi_word_coalesce) on every path to the return on which more than one word was joined
  R07.3  mappers are total: the two octave_write mappers turn every normalization record (and every lenient_parse record)
         into exactly one correction and filter on `type` only; both tools feed the complete receipt list into repairs/corrections,
         in strict and lenient mode
  R07.4  no receipt without a rewrite: normalization records are appended only under a non-empty normalized_from, which is
         assigned only under `matched_text in ASCII_ALIASES` or the triple-quote prefix test; the alias table is irreflexive
"""
from __future__ import annotations

import ast
import re

from ..cfg import CFG, branch_conditions
from ..pathstate import Explorer, conjuncts
from ..report import Run
from ..source import AnalysisError, FuncInfo, Module, walk_no_nested


def _text(n: ast.AST) -> str:
    return " ".join(ast.unparse(n).split())


def _dict_of_append(call: ast.Call) -> ast.Dict | None:
    if isinstance(call.func, ast.Attribute) and call.func.attr == "append" and call.args and isinstance(call.args[0], ast.Dict):
        return call.args[0]
    return None


def _dget(d: ast.Dict, key: str) -> ast.AST | None:
    for k, v in zip(d.keys, d.values):
        if isinstance(k, ast.Constant) and k.value == key:
            return v
    return None


def _is_receipt(call: ast.AST, recv: str, typ: str, subtype: str | None = None) -> ast.Dict | None:
    if not isinstance(call, ast.Call):
        return None
    d = _dict_of_append(call)
    if d is None or ast.unparse(call.func.value) != recv:  # type: ignore[attr-defined]
        return None
    t = _dget(d, "type")
    if not (isinstance(t, ast.Constant) and t.value == typ):
        return None
    if subtype is not None:
        s = _dget(d, "subtype")
        if not (isinstance(s, ast.Constant) and s.value == subtype):
            return None
    return d


def _receipt_nodes(cfg: CFG, recv: str, typ: str, subtype: str | None = None) -> dict[int, ast.Dict]:
    out = {}
    for n in cfg.nodes:
        if n.kind == "stmt" and isinstance(n.ast, ast.Expr):
            d = _is_receipt(n.ast.value, recv, typ, subtype)
            if d is not None:
                out[n.id] = d
    return out


# ======================================================================================= R07.1 / R07.4 lexer
def check_lexer_pairing(run: Run) -> None:
    run.rule("R07.1", "in tokenize every Token constructed with a normalized_from that can be non-None is followed on every path to the loop head by exactly the repairs.append({type: normalization, original: <that value>, line: line, column: column}) with line/column not reassigned in between", 2)
    run.rule("R07.4", "no receipt without a rewrite: every normalization record is appended under the truth of the token's normalized_from (or directly beside a Token built with a constant alias); normalized_from is assigned only under `matched_text in ASCII_ALIASES` or the triple-quote prefix test; no alias maps to itself and no canonical form is itself an alias", 4)
    p = run.project
    lx = p.mod("core.lexer")
    fi = lx.func("tokenize")
    cfg = CFG(fi.node)
    heads = [n for n in cfg.nodes if n.kind == "test" and isinstance(n.owner, ast.While) and ast.unparse(n.ast) == "pos < len(content)" and not isinstance(getattr(n.owner, "_parent", None), (ast.While, ast.For, ast.If))]  # type: ignore[arg-type]
    if len(heads) != 1:
        raise AnalysisError("tokenize main loop not found")
    head = heads[0].id
    receipts = _receipt_nodes(cfg, "repairs", "normalization")
    if not receipts:
        raise AnalysisError("tokenize: no normalization receipt found")
    # Token constructions
    n_tokens = 0
    for n in cfg.nodes:
        if n.ast is None or n.kind != "stmt":
            continue
        for c in walk_no_nested(n.ast):
            if not (isinstance(c, ast.Call) and isinstance(c.func, ast.Name) and c.func.id == "Token"):
                continue
            nf = c.args[4] if len(c.args) > 4 else next((k.value for k in c.keywords if k.arg == "normalized_from"), None)
            if nf is None or (isinstance(nf, ast.Constant) and nf.value is None):
                continue
            if isinstance(nf, ast.Attribute) and nf.attr == "normalized_from":
                run.instance("R07.1", lx.loc(c), f"Token(..., {_text(nf)}) copies an existing token's marker (already receipted when that token was made)", nontrivial=False)
                continue
            n_tokens += 1
            nf_txt = _text(nf)
            line_arg = _text(c.args[2]) if len(c.args) > 2 else "?"
            col_arg = _text(c.args[3]) if len(c.args) > 3 else "?"
            # matching receipts: original == nf expression (or the same constant), line/column == the token's
            good = set()
            for rid, d in receipts.items():
                o, ln, col = _dget(d, "original"), _dget(d, "line"), _dget(d, "column")
                if o is not None and _text(o) == nf_txt and ln is not None and _text(ln) == line_arg and col is not None and _text(col) == col_arg:
                    good.add(rid)
            ex = Explorer(cfg)
            missing = []
            moved = []

            def visit(st, good=good, nf=nf, nf_txt=nf_txt, missing=missing, moved=moved, start=n.id):
                nid, facts, _fl = st
                if nid in good:
                    return "prune"
                node = cfg.nodes[nid]
                if isinstance(nf, ast.Name) and ("!" + nf_txt) in facts:
                    return "prune"  # the marker is known to be empty on this path: nothing was rewritten
                if nid == head or nid == cfg.exit:
                    missing.append(st)
                    return "prune"
                if nid != start and node.kind == "stmt" and node.ast is not None:
                    from ..pathstate import assigned
                    if assigned(node.ast) & {line_arg, col_arg}:
                        moved.append(st)
                        return "prune"
                return None

            ex.explore([(n.id, frozenset(), ())], visit)
            ok = bool(good) and not missing and not moved
            run.instance("R07.1", lx.loc(c), f"Token(..., normalized_from={nf_txt}) -> {len(good)} matching receipt site(s); {len(missing)} path(s) without receipt, {len(moved)} with line/column moved first", ok=ok)
            if not good:
                run.violation("R07.1", lx, "tokenize", f"Token(..., {nf_txt}) receipt", f"a token is built with normalized_from={nf_txt} but no repairs.append of type 'normalization' carries that original together with the token's `{line_arg}`/`{col_arg}`: the rewrite has no receipt identifying the occurrence")
            elif missing:
                path = ex.path_to(missing[0])
                run.violation("R07.1", lx, "tokenize", f"Token(..., {nf_txt}) receipt", f"a path from the construction of a token with normalized_from={nf_txt} reaches the next loop cycle without appending its normalization receipt", path=[cfg.nodes[i].lineno for i in path if cfg.nodes[i].lineno][:30])
            elif moved:
                path = ex.path_to(moved[0])
                run.violation("R07.1", lx, "tokenize", f"Token(..., {nf_txt}) receipt position", f"`{line_arg}`/`{col_arg}` are reassigned between the construction of the token and its receipt, so the receipt does not carry the position of the rewritten occurrence", path=[cfg.nodes[i].lineno for i in path if cfg.nodes[i].lineno][:30])
    if n_tokens < 2:
        raise AnalysisError(f"tokenize: only {n_tokens} Token constructions with a normalized_from found (expected >= 2)")
    # rewrite => marker: wherever the token's value is taken from the alias table, the marker is set to the text that was replaced
    n_alias = 0
    for a in walk_no_nested(fi.node):
        if isinstance(a, ast.Assign) and isinstance(a.value, ast.Subscript) and isinstance(a.value.value, ast.Name) and a.value.value.id == "ASCII_ALIASES":
            n_alias += 1
            key = _text(a.value.slice)
            blk = _block_of(a) or []
            ok = any(isinstance(b, ast.Assign) and any(isinstance(t, ast.Name) and t.id == "normalized_from" for t in b.targets) and _text(b.value) == key for b in blk)
            run.instance("R07.1", lx.loc(a), f"tokenize: `{_text(a)}` is accompanied by normalized_from = {key}", ok=ok)
            if not ok:
                run.violation("R07.1", lx, "tokenize", f"{_text(a)} without marker", f"the token's value is replaced by its alias-table entry but normalized_from is not set to the replaced text `{key}` beside it: the rewrite produces no receipt at all")
    if n_alias < 1:
        raise AnalysisError("tokenize: no `value = ASCII_ALIASES[...]` rewrite found")

    # R07.4 (a) receipts only under the marker
    for rid, d in receipts.items():
        node = cfg.nodes[rid]
        o = _dget(d, "original")
        conds = branch_conditions(cfg, rid)
        facts = set()
        for cond, pol in conds:
            facts |= set(conjuncts(cond, pol))
        if isinstance(o, ast.Name):
            ok = o.id in facts
            why = f"guarded by the truth of `{o.id}`" if ok else f"NOT guarded by `{o.id}`"
        elif isinstance(o, ast.Constant):
            # constant original: a Token with that constant marker is built in the same block
            blk = _block_of(node.ast)
            ok = any(isinstance(c, ast.Call) and isinstance(c.func, ast.Name) and c.func.id == "Token" and len(c.args) > 4 and isinstance(c.args[4], ast.Constant) and c.args[4].value == o.value for s in (blk or []) for c in ast.walk(s))
            why = "beside the Token built with the same constant marker" if ok else "no Token with that marker in the same block"
        else:
            ok, why = False, f"original is `{_text(o) if o is not None else None}`"
        run.instance("R07.4", lx.loc(node.ast), f"normalization receipt {why}", ok=ok)  # type: ignore[arg-type]
        if not ok:
            run.violation("R07.4", lx, "tokenize", f"repairs.append(normalization, original={_text(o) if o is not None else None})", f"this normalization receipt is appended without the token's normalized_from being known non-empty ({why}): canonical input can produce a receipt although nothing was rewritten")
    # (b) assignments of the marker
    for n in walk_no_nested(fi.node):
        if isinstance(n, ast.Assign) and any(isinstance(t, ast.Name) and t.id == "normalized_from" for t in n.targets):
            if isinstance(n.value, ast.Constant) and n.value.value is None:
                continue
            ids = cfg.node_for_stmt_containing(n)
            facts = set()
            for i in ids:
                for cond, pol in branch_conditions(cfg, i):
                    facts |= set(conjuncts(cond, pol))
                    # a branch on a local bound once to a test stands for that test (`triple = text.startswith('"""') ... if triple:`)
                    c0, p0 = cond, pol
                    while isinstance(c0, ast.UnaryOp) and isinstance(c0.op, ast.Not):
                        c0, p0 = c0.operand, not p0
                    if isinstance(c0, ast.Name):
                        defs0 = [a.value for a in walk_no_nested(fi.node) if isinstance(a, ast.Assign) and len(a.targets) == 1 and isinstance(a.targets[0], ast.Name) and a.targets[0].id == c0.id]
                        if len(defs0) == 1:
                            facts |= set(conjuncts(defs0[0], p0))
            val = n.value
            # `<marker> if <cond> else None`: the marker is set under <cond> (a local bound once stands for its definition)
            if isinstance(val, ast.IfExp) and isinstance(val.orelse, ast.Constant) and val.orelse.value is None:
                test = val.test
                if isinstance(test, ast.Name):
                    defs = [a.value for a in walk_no_nested(fi.node) if isinstance(a, ast.Assign) and len(a.targets) == 1 and isinstance(a.targets[0], ast.Name) and a.targets[0].id == test.id]
                    if len(defs) == 1:
                        test = defs[0]
                facts = facts | set(conjuncts(test, True))
                val = val.body
            v = _text(val)
            if v == "matched_text":
                ok = "matched_text in ASCII_ALIASES" in facts
                why = "under `matched_text in ASCII_ALIASES`"
            elif isinstance(val, ast.Constant) and isinstance(val.value, str):
                ok = any(f == f"matched_text.startswith({val.value!r})" for f in facts)
                why = f"under `matched_text.startswith({val.value!r})`"
            else:
                ok, why = False, "unrecognised source"
            run.instance("R07.4", lx.loc(n), f"normalized_from = {v} {why if ok else 'NOT ' + why}", ok=ok)
            if not ok:
                run.violation("R07.4", lx, "tokenize", f"normalized_from = {v}", f"normalized_from is set to `{v}` without the guard that makes it a real rewrite ({why} missing): text that is already canonical would be reported as normalised")
    # (c) alias table
    aliases = p.const(lx, "ASCII_ALIASES")
    if not isinstance(aliases, dict) or len(aliases) < 5:
        raise AnalysisError("ASCII_ALIASES did not fold to a dict")
    bad = [k for k, v in aliases.items() if k == v] + [v for v in aliases.values() if v in aliases]
    run.instance("R07.4", lx.relpath, f"ASCII_ALIASES: {len(aliases)} entries, irreflexive and no canonical form is an alias", ok=not bad)
    for k in bad:
        run.violation("R07.4", lx, "<module>", f"ASCII_ALIASES[{k!r}]", f"the alias table maps {k!r} to itself or lists a canonical form as an alias: canonical input would yield a normalization receipt")


def _block_of(st: ast.AST | None) -> list[ast.stmt] | None:
    par = getattr(st, "_parent", None)
    if par is None:
        return None
    for f in ("body", "orelse", "finalbody"):
        v = getattr(par, f, None)
        if isinstance(v, list) and st in v:
            return v
    return None


# ======================================================================================= R07.1b bookkeeping
class Lin:
    """linear form over symbols: dict symbol -> coefficient, '' = constant"""

    def __init__(self, d=None):
        self.d = {k: v for k, v in (d or {}).items() if v != 0}

    def __add__(self, o):
        r = dict(self.d)
        for k, v in o.d.items():
            r[k] = r.get(k, 0) + v
        return Lin(r)

    def __sub__(self, o):
        r = dict(self.d)
        for k, v in o.d.items():
            r[k] = r.get(k, 0) - v
        return Lin(r)

    def __eq__(self, o):
        return isinstance(o, Lin) and self.d == o.d

    def __repr__(self):
        return " + ".join(f"{v}*{k}" if k else str(v) for k, v in sorted(self.d.items())) or "0"


class Unknown(Exception):
    pass


def sym_eval(e: ast.AST, env: dict[str, object], text: str) -> object:
    """evaluate an int/str expression over the symbolic string `text` = A + "\\n" + T (T without newline):
    returns Lin for ints, ('str', name) for the symbolic strings 'S' (whole), 'T' (tail), 'A' (head)"""
    if isinstance(e, ast.Constant) and isinstance(e.value, int) and not isinstance(e.value, bool):
        return Lin({"": e.value})
    if not isinstance(e, ast.Constant) and _text(e) == text:
        return env.get("<text>", ("str", "S"))  # (the consumed text, however it is spelled: a local, a slice content[pos:end])
    if isinstance(e, ast.Constant) and isinstance(e.value, str) and repr(e.value) == text:
        return env.get("<text>", ("str", "S"))
    if isinstance(e, ast.Name):
        if e.id == text:
            return env.get("<text>", ("str", "S"))
        if e.id in env:
            return env[e.id]
        raise Unknown(e.id)
    if isinstance(e, ast.BinOp) and isinstance(e.op, (ast.Add, ast.Sub)):
        a, b = sym_eval(e.left, env, text), sym_eval(e.right, env, text)
        if isinstance(a, Lin) and isinstance(b, Lin):
            return a + b if isinstance(e.op, ast.Add) else a - b
        raise Unknown(_text(e))
    if isinstance(e, ast.Call):
        f = e.func
        if isinstance(f, ast.Name) and f.id == "len" and len(e.args) == 1:
            s = sym_eval(e.args[0], env, text)
            if s == ("str", "S"):
                return Lin({"a": 1, "t": 1, "": 1})
            if s == ("str", "T"):
                return Lin({"t": 1})
            if s == ("str", "A"):
                return Lin({"a": 1})
            raise Unknown(_text(e))
        if isinstance(f, ast.Name) and f.id in ("max", "min") and len(e.args) == 2:
            a, b = sym_eval(e.args[0], env, text), sym_eval(e.args[1], env, text)
            return (f.id, a, b)
        if isinstance(f, ast.Attribute):
            recv = sym_eval(f.value, env, text)
            nl = len(e.args) >= 1 and isinstance(e.args[0], ast.Constant) and e.args[0].value == "\n"
            if recv == ("str", "S") and nl:
                if f.attr == "rfind" or f.attr == "rindex":
                    return Lin({"a": 1})
                if f.attr == "count":
                    return Lin({"n": 1})
                if f.attr == "rpartition":
                    return ("tuple", ("str", "A"), ("str", "NL"), ("str", "T"))
                if f.attr == "rsplit" and len(e.args) == 2 and isinstance(e.args[1], ast.Constant) and e.args[1].value == 1:
                    return ("tuple", ("str", "A"), ("str", "T"))
            if recv == ("str", "A") and nl and f.attr == "count":
                return Lin({"n": 1, "": -1})
            if recv == ("str", "T") and nl and f.attr == "count":
                return Lin({})
        raise Unknown(_text(e))
    if isinstance(e, ast.Subscript) and isinstance(e.slice, ast.Constant) or (isinstance(e, ast.Subscript) and isinstance(e.slice, ast.UnaryOp)):
        base = sym_eval(e.value, env, text)
        idx = e.slice.value if isinstance(e.slice, ast.Constant) else (-e.slice.operand.value if isinstance(e.slice.op, ast.USub) and isinstance(e.slice.operand, ast.Constant) else None)  # type: ignore[union-attr]
        if isinstance(base, tuple) and base[0] == "tuple" and isinstance(idx, int):
            return base[1:][idx]
        raise Unknown(_text(e))
    if isinstance(e, ast.Subscript) and isinstance(e.slice, ast.Slice) and e.slice.upper is None and e.slice.step is None and e.slice.lower is not None:
        base = sym_eval(e.value, env, text)
        lo = sym_eval(e.slice.lower, env, text)
        if base == ("str", "S") and lo == Lin({"a": 1, "": 1}):
            return ("str", "T")
        raise Unknown(_text(e))
    raise Unknown(_text(e))


def _same_on_domain(v: object, expected: Lin) -> bool | None:
    """v == expected for all a >= 0, t >= 0, n >= 1 ?  (max/min resolved where one side dominates)"""
    if isinstance(v, Lin):
        return v == expected
    if isinstance(v, tuple) and v[0] in ("max", "min") and isinstance(v[1], Lin) and isinstance(v[2], Lin):
        # max(x, y) == expected everywhere needs x == expected and y <= x everywhere (or symmetric); decide by sampling the
        # corner t = 0 and a large t: linear forms agree everywhere iff they agree on enough points
        def val(lin: Lin, a: int, t: int, n: int) -> int:
            return lin.d.get("", 0) + lin.d.get("a", 0) * a + lin.d.get("t", 0) * t + lin.d.get("n", 0) * n
        fn = max if v[0] == "max" else min
        for a in (0, 1, 5):
            for t in (0, 1, 2, 7):
                for n in (1, 3):
                    if fn(val(v[1], a, t, n), val(v[2], a, t, n)) != val(expected, a, t, n):
                        return False
        return True
    return None


def _under_span_guard(u: ast.AST) -> bool:
    """the update sits in the branch taken when pos is the start of a recorded fence span (`pos == <span>[0]`), together with an
    absolute reset of column: the literal zone is skipped as a whole and line/column are set from the span's own arithmetic"""
    cur = getattr(u, "_parent", None)
    prev = u
    while cur is not None and not isinstance(cur, (ast.FunctionDef, ast.AsyncFunctionDef)):
        if isinstance(cur, ast.If) and prev in cur.body and any(f.startswith("pos == ") and f.endswith("[0]") for f in conjuncts(cur.test, True)):
            return any(isinstance(a, ast.Assign) and any(isinstance(t, ast.Name) and t.id == "column" for t in a.targets) and isinstance(a.value, ast.Constant) for a in ast.walk(cur))
        prev, cur = cur, getattr(cur, "_parent", None)
    return False


def check_bookkeeping(run: Run) -> None:
    run.rule("R07.1b", "position bookkeeping in tokenize: each update of pos sits beside the matching update of column (same amount), and after a regex token that contains newlines `line` grows by their count and `column` becomes the number of characters after the last newline plus one (checked by symbolic evaluation of the update expressions on text = A + '\\n' + T)", 5)
    lx = run.project.mod("core.lexer")
    fi = lx.func("tokenize")
    fn = fi.node
    updates = [n for n in walk_no_nested(fn) if (isinstance(n, ast.AugAssign) and isinstance(n.target, ast.Name) and n.target.id == "pos") or (isinstance(n, ast.Assign) and any(isinstance(t, ast.Name) and t.id == "pos" for t in n.targets))]
    n_checked = 0
    for u in updates:
        blk = _block_of(u)
        if blk is None:
            continue
        val = _text(u.value)
        where = lx.loc(u)
        if isinstance(u, ast.Assign) and isinstance(u.value, ast.Constant):
            continue  # pos = 0
        if isinstance(u, ast.Assign) and (val == "span_end" or _under_span_guard(u)):
            run.instance("R07.1b", where, "fence span: line/column are set from the span's own line arithmetic (literal zones carry no rewrite receipts; C05)", nontrivial=False)
            continue
        n_checked += 1
        # the general position helper read in place: an if/else on "does the consumed text contain a newline" over a text whose
        # length is the amount pos moves by - judged by the same symbolic evaluation as the regex-token site
        amount_text = None
        if isinstance(u, ast.AugAssign) and isinstance(u.op, ast.Add):
            if isinstance(u.value, ast.Call) and _text(u.value.func) == "len" and len(u.value.args) == 1:
                amount_text = _text(u.value.args[0])
            elif isinstance(u.value, ast.Constant) and isinstance(u.value.value, int):
                consts = [c for s_ in blk[: blk.index(u)] for c in ast.walk(s_) if isinstance(c, ast.Call) and isinstance(c.func, ast.Attribute) and c.func.attr in ("rpartition", "rfind", "rindex") and isinstance(c.func.value, ast.Constant) and isinstance(c.func.value.value, str) and len(c.func.value.value) == u.value.value]
                if consts:
                    amount_text = repr(consts[0].func.value.value)  # type: ignore[attr-defined]
        elif isinstance(u, ast.Assign) and isinstance(u.value, ast.Name):
            amount_text = f"content[pos:{u.value.id}]"
        if amount_text is not None and any(isinstance(c, ast.Call) and isinstance(c.func, ast.Attribute) and c.func.attr in ("rpartition", "rfind", "rindex", "rsplit") and (_text(c.func.value) == amount_text or (isinstance(c.func.value, ast.Constant) and repr(c.func.value.value) == amount_text)) for s_ in blk[: blk.index(u)] for c in ast.walk(s_)):
            try:
                okg, whyg = _check_match_block(blk, u, amount_text)
            except AnalysisError:
                okg, whyg = False, ""
            if okg:
                run.instance("R07.1b", where, f"`{_text(u)}`: {whyg} (text {amount_text})", ok=True)
                continue
        if isinstance(u, ast.AugAssign) and isinstance(u.op, ast.Add):
            # column += <same amount> in the same block, or a counter incremented in lockstep that is later added to column
            same = [s for s in blk if isinstance(s, ast.AugAssign) and isinstance(s.target, ast.Name) and s.target.id == "column" and isinstance(s.op, ast.Add) and _text(s.value) == val]
            counters = [s.target.id for s in blk if isinstance(s, ast.AugAssign) and isinstance(s.target, ast.Name) and s.target.id not in ("pos", "column") and isinstance(s.op, ast.Add) and _text(s.value) == val]
            via_counter = [c for c in counters if any(isinstance(s, ast.AugAssign) and isinstance(s.target, ast.Name) and s.target.id == "column" and _text(s.value) == c for s in walk_no_nested(fn))]
            newline_case = any(isinstance(s, ast.Expr) and "TokenType.NEWLINE" in _text(s) for s in blk)
            # delta form: `S = pos` before the run, `column += pos - S` (directly or through a local) after it
            delta = False
            starts = [a.targets[0].id for a in walk_no_nested(fn) if isinstance(a, ast.Assign) and len(a.targets) == 1 and isinstance(a.targets[0], ast.Name) and isinstance(a.value, ast.Name) and a.value.id == "pos"]
            for S in starts:
                dl = {a.targets[0].id for a in walk_no_nested(fn) if isinstance(a, ast.Assign) and len(a.targets) == 1 and isinstance(a.targets[0], ast.Name) and _text(a.value) == f"pos - {S}"}
                if any(isinstance(s_, ast.AugAssign) and isinstance(s_.target, ast.Name) and s_.target.id == "column" and isinstance(s_.op, ast.Add) and (_text(s_.value) == f"pos - {S}" or (isinstance(s_.value, ast.Name) and s_.value.id in dl)) for s_ in walk_no_nested(fn)):
                    par_loop = getattr(u, "_parent", None)
                    if isinstance(par_loop, ast.While) and val == "1":
                        delta = True
            ok = bool(same) or bool(via_counter) or newline_case or delta
            why = "column += (pos - <saved start>) after the run" if (delta and not same and not via_counter) else "column += same amount" if same else (f"counter `{via_counter[0]}` later added to column" if via_counter else ("consumes the newline after a fence (line/column already set for the next line)" if newline_case else "NO matching column update"))
            run.instance("R07.1b", where, f"pos += {val}: {why}", ok=ok)
            if not ok:
                run.violation("R07.1b", lx, "tokenize", f"pos += {val} without column update", f"`pos += {val}` is not accompanied by `column += {val}` in the same block: every later token on the line - and every receipt that copies its position - is stamped with a wrong column")
            continue
        if isinstance(u, ast.Assign) and val == "match.end()":
            ok, why = _check_match_block(blk, u)
            run.instance("R07.1b", where, f"pos = match.end(): {why}", ok=ok)
            if not ok:
                run.violation("R07.1b", lx, "tokenize", "line/column update after a matched token", f"the line/column update that accompanies `pos = match.end()` is not the position after the token ({why}): receipts for later rewrites on that line point at the wrong place")
            continue
        if isinstance(u, ast.Assign) and isinstance(u.value, ast.Name):
            # pos = X  with  column += (X - pos) before it in the block
            x = u.value.id
            ok = False
            for s in blk[: blk.index(u)]:
                if isinstance(s, ast.AugAssign) and isinstance(s.target, ast.Name) and s.target.id == "column" and isinstance(s.op, ast.Add):
                    v = s.value
                    if isinstance(v, ast.Name):
                        d = [a for a in blk if isinstance(a, ast.Assign) and isinstance(a.targets[0], ast.Name) and a.targets[0].id == v.id]
                        if d and _text(d[0].value) == f"{x} - pos":
                            ok = True
                    elif _text(v) == f"{x} - pos":
                        ok = True
            run.instance("R07.1b", where, f"pos = {x}: " + ("column += (that position - pos) first" if ok else "NO matching column update"), ok=ok)
            if not ok:
                run.violation("R07.1b", lx, "tokenize", f"pos = {x} without column update", f"`pos = {x}` is not preceded by `column += {x} - pos`: later tokens on the line get a wrong column")
            continue
        if isinstance(u, ast.Assign) and isinstance(u.value, ast.Call) and isinstance(u.value.func, ast.Attribute) and u.value.func.attr == "end" and not u.value.args:
            # pos = <m>.end()  with  column += (<m>.end() - pos) before it in the block (directly or through a local)
            x = _text(u.value)
            ok = False
            for s in blk[: blk.index(u)]:
                if isinstance(s, ast.AugAssign) and isinstance(s.target, ast.Name) and s.target.id == "column" and isinstance(s.op, ast.Add):
                    v = s.value
                    if isinstance(v, ast.Name):
                        d = [a for a in blk if isinstance(a, ast.Assign) and isinstance(a.targets[0], ast.Name) and a.targets[0].id == v.id]
                        if d and _text(d[0].value) == f"{x} - pos":
                            ok = True
                    elif _text(v) == f"{x} - pos":
                        ok = True
            run.instance("R07.1b", where, f"pos = {x}: " + ("column += (that position - pos) first" if ok else "NO matching column update"), ok=ok)
            if not ok:
                run.violation("R07.1b", lx, "tokenize", f"pos = {x} without column update", f"`pos = {x}` is not preceded by `column += {x} - pos`: later tokens on the line get a wrong column")
            continue
        run.instance("R07.1b", where, f"pos update `{_text(u)}` not classified", ok=False)
        run.violation("R07.1b", lx, "tokenize", f"{_text(u)}", "this update of pos has no recognised column/line bookkeeping")
    if n_checked < 5:
        raise AnalysisError(f"tokenize: only {n_checked} pos updates examined (expected >= 5)")


def _sym_exec(stmts: list[ast.stmt], env: dict[str, object], text: str) -> None:
    """straight-line symbolic execution: x = e, x += e, (a, b) = (e1, e2) [simultaneous], (a, b) = <tuple-valued e>"""
    for s in stmts:
        if isinstance(s, ast.Assign) and len(s.targets) == 1 and isinstance(s.targets[0], ast.Name):
            env[s.targets[0].id] = sym_eval(s.value, env, text)
        elif isinstance(s, ast.Assign) and len(s.targets) == 1 and isinstance(s.targets[0], ast.Tuple) and all(isinstance(t, ast.Name) for t in s.targets[0].elts):
            if isinstance(s.value, ast.Tuple) and len(s.value.elts) == len(s.targets[0].elts):
                vals = [sym_eval(v, env, text) for v in s.value.elts]
            else:
                v = sym_eval(s.value, env, text)
                if not (isinstance(v, tuple) and v[0] == "tuple" and len(v) - 1 == len(s.targets[0].elts)):
                    raise Unknown(_text(s))
                vals = list(v[1:])
            for t, x in zip(s.targets[0].elts, vals):
                env[t.id] = x  # type: ignore[attr-defined]
        elif isinstance(s, ast.AugAssign) and isinstance(s.target, ast.Name) and isinstance(s.op, ast.Add):
            cur = env.get(s.target.id)
            v = sym_eval(s.value, env, text)
            if not (isinstance(cur, Lin) and isinstance(v, Lin)):
                raise Unknown(_text(s))
            env[s.target.id] = cur + v
        elif isinstance(s, (ast.Pass, ast.Expr)):
            continue
        elif isinstance(s, ast.Assign) or isinstance(s, ast.AugAssign):
            raise Unknown(_text(s))


def _check_match_block(blk: list[ast.stmt], u: ast.stmt, text: str = "matched_text") -> tuple[bool, str]:
    """symbolic check of the statements before `pos = match.end()` (or any other update of pos by len(<text>)) in its block"""
    env_nl: dict[str, object] = {"line": Lin({"line": 1}), "column": Lin({"column": 1})}
    before = blk[: blk.index(u)]
    # find the if/else that distinguishes tokens with and without newline
    split = None
    for s in before:
        if isinstance(s, ast.If) and ("\\n" in _text(s.test) or any(isinstance(x, ast.Name) and x.id in env_nl for x in ast.walk(s.test))):
            split = s
        elif isinstance(s, ast.If) and any(isinstance(a, (ast.Assign, ast.AugAssign)) and "column" in _text(a) for a in ast.walk(s)):
            split = s
    # straight-line assignments before the split feed the environment
    try:
        for s in before:
            if s is split:
                break
            if isinstance(s, ast.Assign) and len(s.targets) == 1 and isinstance(s.targets[0], ast.Name):
                try:
                    env_nl[s.targets[0].id] = sym_eval(s.value, env_nl, text)
                except Unknown:
                    pass
            elif isinstance(s, ast.Assign) and len(s.targets) == 1 and isinstance(s.targets[0], ast.Tuple):
                try:
                    v = sym_eval(s.value, env_nl, text)
                    if isinstance(v, tuple) and v[0] == "tuple":
                        for t, x in zip(s.targets[0].elts, v[1:]):
                            if isinstance(t, ast.Name):
                                env_nl[t.id] = x
                except Unknown:
                    pass
        if split is None:
            return False, "no branch distinguishing tokens that contain a newline"
        # which branch is the newline branch?
        test_facts_true = conjuncts(split.test, True)
        nl_true = any(("> 0" in f or ">= 1" in f or "in matched_text" in f or f.strip() in env_nl or "!= -1" in f) and not f.startswith("!") for f in test_facts_true)
        nl_body, plain_body = (split.body, split.orelse) if nl_true else (split.orelse, split.body)
        env = dict(env_nl)
        _sym_exec(nl_body, env, text)
        col_ok = _same_on_domain(env["column"], Lin({"t": 1, "": 1}))
        line_ok = _same_on_domain(env["line"], Lin({"line": 1, "n": 1}))
        if col_ok is None or line_ok is None:
            raise Unknown("column/line expression")
        if not col_ok:
            return False, f"after a token containing newlines column becomes `{env['column']}` instead of len(tail) + 1"
        if not line_ok:
            return False, f"after a token containing newlines line becomes `{env['line']}` instead of line + count"
        # plain branch (the token is one line: matched_text = T): column grows by len(matched_text), line stays
        envp: dict[str, object] = {k: v for k, v in env_nl.items() if k in ("line", "column")}
        envp["<text>"] = ("str", "T")
        try:
            _sym_exec(plain_body, envp, text)
            ok_plain = _same_on_domain(envp["column"], Lin({"column": 1, "t": 1})) is True and _same_on_domain(envp["line"], Lin({"line": 1})) is True
        except Unknown:
            ok_plain = False
        if not ok_plain:
            return False, "for a token without newline column is not advanced by len(matched_text)"
        return True, "line += count, column = len(tail) + 1 with newlines; column += len(matched_text) without"
    except Unknown as e:
        raise AnalysisError(f"tokenize: the line/column update after a matched token uses an expression the symbolic evaluator does not know: {e}")


# ======================================================================================= R07.2 parser pairing
def check_parser_pairing(run: Run) -> None:
    run.rule("R07.2", "in Parser every `\" \".join(<word list>)` that builds a value is followed on every path to the return by warnings.append({subtype: multi_word_coalesce}) unless the path knows that at most one word was joined (`len(words) > 1` false, or a flag fed with `len(words) > 1` false)", 8)
    pm = run.project.mod("core.parser")
    cls = pm.cls("Parser")
    total = 0
    # words are coalesced only where this rule reads: a `" ".join(<words>)` in the parser module outside the Parser's own methods
    # (a helper class that accumulates the run, a module-level function) would pair with its receipt across objects, which the
    # path search below does not follow - that is "not decided", not "holds"
    for q_, f_ in pm.functions.items():
        if f_.cls == cls.name:
            continue
        for n_ in walk_no_nested(f_.node):
            if isinstance(n_, ast.Call) and isinstance(n_.func, ast.Attribute) and n_.func.attr == "join" and isinstance(n_.func.value, ast.Constant) and n_.func.value.value == " " and len(n_.args) == 1 and isinstance(n_.args[0], (ast.Name, ast.Attribute)):
                raise AnalysisError(f"{q_}: words are joined into a value outside the Parser's methods (`{_text(n_)[:50]}`); the pairing of that rewrite with its multi_word_coalesce receipt is not decided")
    for name, fi in cls.methods.items():
        joins = []
        for n in walk_no_nested(fi.node):
            if isinstance(n, ast.Call) and isinstance(n.func, ast.Attribute) and n.func.attr == "join" and isinstance(n.func.value, ast.Constant) and n.func.value.value == " " and len(n.args) == 1 and isinstance(n.args[0], ast.Name):
                # skip joins that are themselves inside a receipt dict
                cur = n
                inside_receipt = False
                while cur is not None and not isinstance(cur, ast.stmt):
                    if isinstance(cur, ast.Dict):
                        inside_receipt = True
                    cur = getattr(cur, "_parent", None)
                if not inside_receipt:
                    joins.append(n)
        if not joins:
            continue
        cfg = CFG(fi.node)
        receipts = set(_receipt_nodes(cfg, "self.warnings", "lenient_parse", "multi_word_coalesce"))
        for j in joins:
            total += 1
            words = j.args[0].id  # type: ignore[attr-defined]
            ids = cfg.node_for_stmt_containing(j)
            if not ids:
                raise AnalysisError(f"{fi.fqn}: join at line {j.lineno} not found in CFG")
            # flags fed by this word list: F = F or len(words) > 1 in the same block
            st = j
            while not isinstance(st, ast.stmt):
                st = getattr(st, "_parent")
            blk = _block_of(st) or []
            flags = set()
            for s in blk:
                if isinstance(s, ast.Assign) and len(s.targets) == 1 and isinstance(s.targets[0], ast.Name) and f"len({words}) > 1" in _text(s.value):
                    flags.add(s.targets[0].id)
            ex = Explorer(cfg)
            bad = []

            def visit(st_, bad=bad, words=words, flags=flags):
                nid, facts, _fl = st_
                if nid in receipts:
                    return "prune"
                if f"len({words}) <= 1" in facts or any(("!" + f) in facts for f in flags):
                    return "prune"
                if nid == cfg.exit:
                    bad.append(st_)
                    return "prune"
                return None

            # facts known at the join (e.g. we are inside `if len(words) > 1:`)
            pre = set()
            for cond, pol in branch_conditions(cfg, ids[0]):
                pre |= set(conjuncts(cond, pol))
            ex.explore([(ids[0], frozenset(f for f in pre if words in f or any(fl in f for fl in flags)), ())], visit)
            ok = not bad
            run.instance("R07.2", pm.loc(j), f"{name}: ' '.join({words}) " + ("receipted on every path" if ok else "reaches a return WITHOUT receipt"), ok=ok)
            if bad:
                path = ex.path_to(bad[0])
                run.violation("R07.2", pm, fi.qualname, f"' '.join({words})", f"the words in `{words}` are joined into one value but a path to the return appends no multi_word_coalesce warning and does not know that at most one word was joined: the rewrite has no receipt", path=[cfg.nodes[i].lineno for i in path if cfg.nodes[i].lineno][:30])
    run.extra["coalescing_joins"] = total


# ======================================================================================= R07.3 mappers
def _loop_over(fi: FuncInfo, param: str) -> ast.For | None:
    for n in walk_no_nested(fi.node):
        if isinstance(n, ast.For) and isinstance(n.iter, ast.Name) and n.iter.id == param:
            return n
    return None


def _appends_per_path(cfg: CFG, start: int, stop: set[int], recv: str, pre: frozenset[str], only_type_filters: str | None, loopvar: str):
    """explore one iteration of a mapper loop: yields (n_appends, filters_seen, facts) at each arrival at `stop`"""
    results = []
    work = [(start, pre, 0, ())]
    seen = set()
    while work:
        n, facts, cnt, filt = work.pop()
        key = (n, facts, cnt, filt)
        if key in seen:
            continue
        seen.add(key)
        if n in stop:
            results.append((cnt, filt, facts))
            continue
        node = cfg.nodes[n]
        c2 = cnt
        if node.kind == "stmt" and node.ast is not None:
            for c in walk_no_nested(node.ast):
                if isinstance(c, ast.Call) and isinstance(c.func, ast.Attribute) and c.func.attr == "append" and ast.unparse(c.func.value) == recv:
                    c2 += 1
        for s, lab in cfg.succ[n]:
            if lab == "x":
                continue
            f2, fl2 = facts, filt
            if node.kind == "test" and node.ast is not None and lab in ("t", "f"):
                add = conjuncts(node.ast, lab == "t")
                # contradiction pruning on equality facts about the same left side
                contradiction = False
                for a in add:
                    for f in facts:
                        if " == " in a and " == " in f and a.split(" == ")[0] == f.split(" == ")[0] and a != f:
                            contradiction = True
                        if " == " in a and f == a.replace(" == ", " != "):
                            contradiction = True
                        if " != " in a and f == a.replace(" != ", " == "):
                            contradiction = True
                if contradiction:
                    continue
                f2 = facts | frozenset(add)
                fl2 = filt + (_text(node.ast),)
            work.append((s, f2, c2, fl2))
    return results


def _comprehension_mapper(run: Run, w, fi: FuncInfo, qual: str, param: str, types: list[str]) -> bool:
    """the mapper written as `return [<one record> for rec in <param> if <filters>]`: one correction per record that passes
    the filters; the filters are decided per record type"""
    comps = [n for n in walk_no_nested(fi.node) if isinstance(n, ast.ListComp) and len(n.generators) == 1 and is_name_(n.generators[0].iter, param) and isinstance(n.generators[0].target, ast.Name)]
    rets = [n for n in walk_no_nested(fi.node) if isinstance(n, ast.Return)]
    if len(comps) != 1 or len(rets) != 1 or rets[0].value is not comps[0]:
        return False
    comp = comps[0]
    rec = comp.generators[0].target.id  # type: ignore[union-attr]
    type_exprs = {f"{rec}.get('type')", f"{rec}.get('type', '')", f"{rec}['type']"}

    def passes(typ: str) -> tuple[bool, list[str]]:
        foreign = []
        ok = True
        for f in comp.generators[0].ifs:
            facts = conjuncts(f, True)
            if not facts:
                foreign.append(_text(f))
                continue
            for fact in facts:
                m = re.fullmatch(r"(.+) (==|!=) ('[^']*')", fact)
                if not m or m.group(1) not in type_exprs:
                    foreign.append(fact)
                    continue
                holds = (ast.literal_eval(m.group(3)) == typ) == (m.group(2) == "==")
                ok = ok and holds
        return ok, foreign

    for typ in types:
        ok, foreign = passes(typ)
        run.instance("R07.3", f"{w.relpath}:{qual}", f"type {typ!r}: comprehension yields {1 if ok else 0} correction(s) per record, conditions other than type: {foreign[:2]}", ok=ok and not foreign)
        if foreign:
            run.violation("R07.3", w, qual, f"record type {typ} filtered by {foreign[0][:60]}", f"whether a {typ!r} record becomes a correction depends on `{foreign[0][:80]}`, not only on its type: some rewrites lose their receipt in octave_write.corrections")
        elif not ok:
            run.violation("R07.3", w, qual, f"record type {typ} -> 0 corrections", f"a record of type {typ!r} is filtered out of the mapper's comprehension: receipts are dropped on the way to octave_write.corrections")
    ok, foreign = passes("spec_violation")
    run.instance("R07.3", f"{w.relpath}:{qual}", f"type 'spec_violation': comprehension yields {1 if ok else 0} correction(s)", ok=not ok)
    if ok:
        run.violation("R07.3", w, qual, "record type spec_violation -> correction", "a lexer record of type 'spec_violation' (wrong_case, boundary_missing: findings, not rewrites) is turned into a correction: canonical input such as N::True yields a normalization receipt although nothing was rewritten")
    return True


def is_name_(n: ast.AST, name: str) -> bool:
    return isinstance(n, ast.Name) and n.id == name


def check_mappers(run: Run) -> None:
    run.rule("R07.3", "mappers are total and exact: for a record of type 'normalization' (and, in the lenient mapper, of type 'lenient_parse' with any subtype) every path through the mapper loop appends exactly one correction and the only conditions on the way test the record's type/subtype; each tool passes the complete receipt list of the reader it called into repairs/corrections, in strict and lenient mode", 6)
    p = run.project
    w = p.mod("mcp.write")
    # ---- the two write mappers
    for qual, param, types in (("WriteTool._map_parse_warnings_to_corrections", "warnings", ["normalization", "lenient_parse"]), ("WriteTool._track_corrections", "tokenize_repairs", ["normalization"])):
        fi = w.func(qual)
        loop = _loop_over(fi, param)
        if loop is None and _comprehension_mapper(run, w, fi, qual, param, types):
            continue
        if loop is None or not isinstance(loop.target, ast.Name):
            raise AnalysisError(f"{qual}: no `for <record> in {param}` loop")
        rec = loop.target.id
        cfg = CFG(fi.node)
        it = [n for n in cfg.nodes if n.kind == "iter" and n.owner is loop][0]
        body_start = [s for s, lab in cfg.succ[it.id] if lab == "loop"]
        # local aliases of the record's type: w_type = w.get("type", "")
        alias = {}
        for n in walk_no_nested(loop):
            if isinstance(n, ast.Assign) and len(n.targets) == 1 and isinstance(n.targets[0], ast.Name) and isinstance(n.value, ast.Call) and isinstance(n.value.func, ast.Attribute) and n.value.func.attr == "get" and ast.unparse(n.value.func.value) == rec and n.value.args and isinstance(n.value.args[0], ast.Constant):
                alias[n.targets[0].id] = n.value.args[0].value
        type_exprs = {f"{rec}.get('type')", f"{rec}.get('type', '')", f"{rec}['type']"} | {k for k, v in alias.items() if v == "type"}
        sub_exprs = {f"{rec}.get('subtype')", f"{rec}['subtype']"} | {k for k, v in alias.items() if v == "subtype"} | {f"{rec}.get('subtype', 'unknown')"}
        for typ in types:
            pre = frozenset(f"{e} == {typ!r}" for e in type_exprs)
            res = _appends_per_path(cfg, body_start[0], {it.id, cfg.exit}, "corrections", pre, None, rec)
            if not res:
                raise AnalysisError(f"{qual}: no path through the loop body for type {typ}")
            bad_counts = [r for r in res if r[0] != 1]
            foreign = []
            for cnt, filt, _facts in res:
                for t in filt:
                    names = {x for x in type_exprs | sub_exprs if x in t}
                    if not names:
                        foreign.append(t)
            ok = not bad_counts and not foreign
            run.instance("R07.3", f"{w.relpath}:{qual}", f"type {typ!r}: {len(res)} path(s), appends per path {sorted({r[0] for r in res})}, conditions other than type/subtype: {sorted(set(foreign))[:2]}", ok=ok)
            if bad_counts:
                cnt, filt, _f = bad_counts[0]
                run.violation("R07.3", w, qual, f"record type {typ} -> {cnt} corrections", f"a record of type {typ!r} passes through the mapper loop with {cnt} corrections appended (conditions taken: {list(filt)[-3:]}): receipts are dropped or duplicated on the way to octave_write.corrections")
            elif foreign:
                run.violation("R07.3", w, qual, f"record type {typ} filtered by {sorted(set(foreign))[0][:60]}", f"whether a {typ!r} record becomes a correction depends on `{sorted(set(foreign))[0][:80]}`, not only on its type: some rewrites lose their receipt in octave_write.corrections")
        # records that describe no rewrite (spec_violation findings) must not become corrections
        pre = frozenset(f"{e} == 'spec_violation'" for e in type_exprs)
        res = _appends_per_path(cfg, body_start[0], {it.id, cfg.exit}, "corrections", pre, None, rec)
        extra = [r for r in res if r[0] != 0]
        run.instance("R07.3", f"{w.relpath}:{qual}", f"type 'spec_violation': appends per path {sorted({r[0] for r in res})}", ok=not extra)
        if extra:
            run.violation("R07.3", w, qual, "record type spec_violation -> correction", "a lexer record of type 'spec_violation' (wrong_case, boundary_missing: findings, not rewrites) is turned into a correction: canonical input such as N::True yields a normalization receipt although nothing was rewritten")
    # ---- wiring in the tools
    v = p.mod("mcp.validate")
    _check_wiring(run, v, "ValidateTool.execute", "parse_with_warnings", 1, lambda wv: [f"result['repairs'].extend({wv})", f"repairs_list.extend({wv})"])
    _check_wiring(run, w, "WriteTool.execute", "parse_with_warnings", 1, lambda wv: [f"corrections.extend(self._map_parse_warnings_to_corrections({wv}))"], need=1)
    _check_wiring(run, w, "WriteTool.execute", "tokenize", 1, lambda wv: [f"corrections.extend(self._track_corrections(parse_input, parse_input, {wv}))"], need=1)
    # strict mode also surfaces the parser's receipts
    fi = w.func("WriteTool.execute")
    strict_ok = False
    for n in walk_no_nested(fi.node):
        if isinstance(n, ast.If) and _text(n.test) == "lenient":
            for st in n.orelse:
                for c in ast.walk(st):
                    if isinstance(c, ast.Call) and _text(c.func) == "self._map_parse_warnings_to_corrections":
                        strict_ok = True
    run.instance("R07.3", f"{w.relpath}:WriteTool.execute", "strict branch maps the parser's lenient_parse receipts into corrections" if strict_ok else "strict branch does NOT surface parser receipts", ok=strict_ok)
    if not strict_ok:
        run.violation("R07.3", w, "WriteTool.execute", "strict mode: parser receipts -> corrections", "in strict mode (lenient=false) the document is parsed without collecting the parser's lenient_parse receipts: multi-word coalescing still rewrites the value but octave_write.corrections does not report it")


def _check_wiring(run: Run, m: Module, qual: str, reader: str, idx: int, sinks, need: int = 1) -> None:
    fi = m.func(qual)
    found = 0
    wired = 0
    for n in walk_no_nested(fi.node):
        if isinstance(n, ast.Assign) and isinstance(n.value, ast.Call) and isinstance(n.value.func, ast.Name) and n.value.func.id == reader and isinstance(n.targets[0], ast.Tuple) and len(n.targets[0].elts) == 2:
            t = n.targets[0].elts[idx]
            if not isinstance(t, ast.Name) or t.id == "_":
                continue
            found += 1
            wv = t.id
            wanted = set(sinks(wv))
            # the tool's own list must exist under the name this rule knows it by; otherwise the rule cannot judge (fail closed)
            heads = {w0.split(".")[0].split("[")[0] for w0 in wanted}
            fn_names = {x.id for x in walk_no_nested(fi.node) if isinstance(x, ast.Name)}
            if not (heads & fn_names):
                raise AnalysisError(f"{qual}: none of the receipt lists {sorted(heads)} exists in this function (renamed?)")
            # the receipts may first go into a local list that is merged into the tool's list later (a stage that collects its
            # own corrections): any list that flows into `corrections` / `repairs_list` is as good as the list itself
            flows: set[str] = set()
            for w0 in list(wanted):
                if "." in w0.split("(")[0]:
                    flows.add(w0.split(".")[0])
            changed_f = True
            while changed_f:
                changed_f = False
                for x in walk_no_nested(fi.node):
                    src = None
                    if isinstance(x, ast.Call) and isinstance(x.func, ast.Attribute) and x.func.attr == "extend" and isinstance(x.func.value, ast.Name) and x.func.value.id in flows and x.args and isinstance(x.args[0], ast.Name):
                        src = x.args[0].id
                    elif isinstance(x, ast.Assign) and len(x.targets) == 1 and isinstance(x.targets[0], ast.Name) and x.targets[0].id in flows and isinstance(x.value, ast.Name):
                        src = x.value.id
                    elif isinstance(x, ast.AugAssign) and isinstance(x.target, ast.Name) and x.target.id in flows and isinstance(x.value, ast.Name):
                        src = x.value.id
                    if src is not None and src not in flows:
                        flows.add(src)
                        changed_f = True
            for w0 in list(wanted):
                head = w0.split(".")[0]
                if head in flows:
                    wanted |= {f + w0[len(head):] for f in flows}
            blk = _block_of(n) or []
            # the sink follows in the same block, or in the block enclosing the try in which the reader is called
            cands = list(blk[blk.index(n) + 1:]) if n in blk else []
            par = getattr(n, "_parent", None)
            if isinstance(par, ast.Try):
                b2 = _block_of(par) or []
                cands += b2[b2.index(par) + 1:] if par in b2 else []
            hit = any(_text(c) in wanted for s in cands for c in ast.walk(s) if isinstance(c, ast.Call))
            if not hit:
                # the mapped receipts bound to (not extended into) a list that flows into the tool's list
                inner = {w0[w0.index(".extend(") + 8:-1] for w0 in wanted if ".extend(" in w0}
                hit = any(isinstance(a, ast.Assign) and len(a.targets) == 1 and isinstance(a.targets[0], ast.Name) and a.targets[0].id in flows and _text(a.value) in inner for s in cands for a in ast.walk(s))
            if hit:
                wired += 1
            elif wv.startswith("strict_parse_warnings"):
                wired += 1 if any("lenient_parse" in _text(s) and "_map_parse_warnings_to_corrections" in _text(s) for s in cands) else 0
            else:
                # readers whose document is not the one written/validated (baseline for diffing) need no receipts
                uses_doc = n.targets[0].elts[0]
                if isinstance(uses_doc, ast.Name) and uses_doc.id in ("baseline_doc", "_"):
                    found -= 1
                    continue
                run.violation("R07.3", m, qual, f"{_text(n)[:60]} receipts not surfaced", f"the receipts returned by {reader}() in `{wv}` are not passed on to the tool's repairs/corrections list right after the call: rewrites done by this read are not reported")
    run.instance("R07.3", f"{m.relpath}:{qual}", f"{reader}(): {wired}/{found} call(s) whose receipts are passed into the envelope", ok=wired == found and found >= need)
    if found < need:
        raise AnalysisError(f"{qual}: expected at least {need} call(s) `doc, receipts = {reader}(...)`, found {found}")


def check_position_stamping(run: Run) -> None:
    """R07.7: a receipt filed without its position gets it before anything else is filed"""
    from ..cfg import CFG

    run.rule("R07.7", "a receipt that its producer files without a position (line 0 / column 0: the brace-for-angle repair_candidate of _match_unicode_identifier) is stamped with the token's line / column by a loop over every entry appended since the producer was called (`repairs[<length before>:]`), or - if only the newest entry is looked at - before any other receipt can be appended in between", 1)
    lx = run.project.mod("core.lexer")
    fi = lx.func("tokenize")
    cfg = CFG(fi.node)
    stamps = [n for n in cfg.nodes if isinstance(n.ast, ast.Assign) and len(n.ast.targets) == 1 and isinstance(n.ast.targets[0], ast.Subscript) and isinstance(n.ast.targets[0].slice, ast.Constant) and n.ast.targets[0].slice.value == "line" and isinstance(n.ast.targets[0].value, ast.Name)]
    producers = [n for n in cfg.nodes if n.ast is not None and n.kind == "stmt" and any(isinstance(c, ast.Call) and isinstance(c.func, ast.Name) and c.func.id == "_match_unicode_identifier" for c in ast.walk(n.ast))]
    if not stamps or not producers:
        raise AnalysisError(f"tokenize: position stamping of unpositioned receipts not found (stamps={len(stamps)}, producer calls={len(producers)}); R07.7 is not decided")
    for st in stamps:
        var = st.ast.targets[0].value.id  # type: ignore[union-attr]
        # where the stamped record comes from
        loop = None
        cur = getattr(st.ast, "_parent", None)
        while cur is not None and not isinstance(cur, (ast.FunctionDef, ast.AsyncFunctionDef)):
            if isinstance(cur, ast.For) and isinstance(cur.target, ast.Name) and cur.target.id == var:
                loop = cur
                break
            cur = getattr(cur, "_parent", None)
        ok, why = False, ""
        if loop is not None and isinstance(loop.iter, ast.Subscript) and isinstance(loop.iter.slice, ast.Slice) and loop.iter.slice.upper is None and isinstance(loop.iter.slice.lower, ast.Name):
            k = loop.iter.slice.lower.id
            kdefs = [a for a in walk_no_nested(fi.node) if isinstance(a, ast.Assign) and any(isinstance(t, ast.Name) and t.id == k for t in a.targets)]
            ok = bool(kdefs) and all(isinstance(a.value, ast.Call) and ast.unparse(a.value.func) == "len" for a in kdefs)
            why = f"the stamping loop covers `{ast.unparse(loop.iter)}`, everything appended since `{k} = len(...)`" if ok else f"`{k}` is not a saved length of the list"
        elif loop is not None and isinstance(loop.iter, ast.Name):
            ok, why = True, "the stamping loop walks the whole list"
        else:
            # a single record (the newest): nothing may be appended between the producer and the stamp
            between_append = False
            for pnode in producers:
                seen: set[int] = set()
                stack = [s_ for s_, lab in cfg.succ[pnode.id] if lab != "x"]
                while stack:
                    x = stack.pop()
                    if x in seen or x == st.id:
                        continue
                    seen.add(x)
                    a = cfg.nodes[x].ast
                    if a is not None and cfg.nodes[x].kind == "stmt" and _reaches_node(cfg, x, st.id):
                        for c in ast.walk(a):
                            if isinstance(c, ast.Call) and ((isinstance(c.func, ast.Attribute) and c.func.attr in ("append", "extend", "insert") and ast.unparse(c.func.value) == "repairs") or any(isinstance(g, ast.Name) and g.id == "repairs" for g in c.args)):
                                between_append = True
                    stack.extend(s_ for s_, lab in cfg.succ[x] if lab != "x")
            ok = not between_append
            why = "only one record is stamped and nothing is appended between the producer and the stamp" if ok else "only the newest record is stamped, but another receipt can be appended between _match_unicode_identifier and the stamp: the unpositioned record is then no longer the newest"
        run.instance("R07.7", lx.loc(st.ast), f"tokenize: {why}", ok=ok)
        if not ok:
            run.violation("R07.7", lx, "tokenize", st.ast, f"{why}; the brace-for-angle receipt keeps line 0 / column 0 and no longer says where the rewrite happened")


def _reaches_node(cfg, src: int, dst: int) -> bool:
    seen = {src}
    stack = [src]
    while stack:
        n = stack.pop()
        if n == dst:
            return True
        for s_, lab in cfg.succ[n]:
            if lab != "x" and s_ not in seen:
                seen.add(s_)
                stack.append(s_)
    return False


def check(run: Run) -> None:
    check_lexer_pairing(run)
    check_bookkeeping(run)
    check_parser_pairing(run)
    check_mappers(run)
    from . import c05

    c05.check_prepass_protection(run, "R07.5")
    # receipts carry line/column: lines are counted the way the lexer counts them ("\n" only) - the same rule as C02 R02.9
    from . import c05 as _c05

    _c05.check_prelex_text(run, "R07.6")
    check_position_stamping(run)
    run.assume("the multiset equality between injected rewrites and receipts on concrete documents (exact original text, line, column of each occurrence) is not decided; only the pairing, bookkeeping and wiring conditions above")
