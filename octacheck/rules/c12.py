"""C12 Every compiled grammar is well-formed GBNF (static analysis of the generator)."""
from __future__ import annotations

import ast
import re

from .. import rx
from ..cfg import CFG, branch_conditions
from ..fsmodel import is_name, names_in
from ..report import Run
from ..source import AnalysisError, FuncInfo, Module, norm, walk_no_nested

RULENAME_MAKERS = {"self._sanitize_rule_name", "self._unique_rule_name", "self._next_rule_name"}
FRAGMENT_MAKERS_PREFIX = ("self._compile_", "self.compile_chain", "self.compile_constraint")

CONST, ESC, QLIT, ALT, RULENAME, RULEALT, FRAG, ONELINE, TAINTED = "const", "escaped", "quoted-literal", "alternation", "rule-name", "rule-alternation", "fragment", "one-line", "TAINTED"


class Env:
    def __init__(self, fi: FuncInfo, mod: Module, project):
        self.fi = fi
        self.mod = mod
        self.project = project
        self.defs: dict[str, list[ast.AST]] = {}
        self.list_appends: dict[str, list[ast.AST]] = {}
        for n in walk_no_nested(fi.node):
            if isinstance(n, ast.Assign) and len(n.targets) == 1 and isinstance(n.targets[0], ast.Name):
                self.defs.setdefault(n.targets[0].id, []).append(n.value)
            elif isinstance(n, ast.AnnAssign) and isinstance(n.target, ast.Name) and n.value is not None:
                self.defs.setdefault(n.target.id, []).append(n.value)
            elif isinstance(n, ast.Call) and isinstance(n.func, ast.Attribute) and n.func.attr == "append" and isinstance(n.func.value, ast.Name) and n.args:
                self.list_appends.setdefault(n.func.value.id, []).append(n.args[0])

    def classify(self, e: ast.AST, depth: int = 0) -> str:
        if depth > 8:
            return TAINTED
        if isinstance(e, ast.Constant):
            return CONST if isinstance(e.value, str) else TAINTED
        if isinstance(e, ast.Call):
            f = ast.unparse(e.func)
            if f == "self._escape_literal":
                return ESC
            if f in RULENAME_MAKERS:
                return RULENAME
            if f.startswith(FRAGMENT_MAKERS_PREFIX):
                return FRAG
            if isinstance(e.func, ast.Name) and self._bound_fragment_maker(e.func.id):
                return FRAG
            if isinstance(e.func, ast.Attribute) and e.func.attr == "get" and isinstance(e.func.value, ast.Name):
                # dict of constants with constant default
                ds = self.defs.get(e.func.value.id, [])
                if len(ds) == 1 and isinstance(ds[0], ast.Dict) and all(isinstance(v, ast.Constant) and isinstance(v.value, str) for v in ds[0].values) and (len(e.args) < 2 or isinstance(e.args[1], ast.Constant)):
                    return FRAG
                # ... or the same table as a module-level constant the function does not rebind
                if not ds and self.mod.has_const(e.func.value.id) and (len(e.args) < 2 or isinstance(e.args[1], ast.Constant)):
                    try:
                        cn = self.mod.const_node(e.func.value.id)
                    except Exception:
                        cn = None
                    if isinstance(cn, ast.Dict) and cn.values and all(isinstance(v, ast.Constant) and isinstance(v.value, str) for v in cn.values):
                        return FRAG
            if isinstance(e.func, ast.Attribute) and e.func.attr == "join" and isinstance(e.func.value, ast.Constant) and len(e.args) == 1:
                sep = e.func.value.value
                inner = self.classify_list(e.args[0], depth + 1)
                if sep == " | " and inner == QLIT:
                    return ALT
                if sep == " | " and inner == RULENAME:
                    return RULEALT
                if sep == " " and isinstance(e.args[0], ast.Call) and ast.unparse(e.args[0].func).endswith(".split") and not e.args[0].args:
                    return ONELINE  # " ".join(x.split()) : no line breaks left
            return TAINTED
        if isinstance(e, ast.Name):
            ds = self.defs.get(e.id)
            if not ds:
                # a module-level string constant the function does not rebind
                if self.mod.has_const(e.id) and e.id not in {a.arg for a in ast.walk(self.fi.node.args) if isinstance(a, ast.arg)}:  # type: ignore[attr-defined]
                    try:
                        cn = self.mod.const_node(e.id)
                    except Exception:
                        return TAINTED
                    if isinstance(cn, ast.Constant) and isinstance(cn.value, str):
                        return CONST
                return TAINTED
            kinds = {self.classify(d, depth + 1) for d in ds}
            return kinds.pop() if len(kinds) == 1 else (FRAG if kinds <= {FRAG, CONST} else TAINTED)
        if isinstance(e, ast.JoinedStr):
            problems = scan_fstring(self, e, depth + 1)
            if problems:
                return TAINTED
            # a whole f-string of the form "ESC" is a quoted literal; "(ALT)" an alternation; otherwise a fragment
            vals = e.values
            if len(vals) == 3 and isinstance(vals[0], ast.Constant) and vals[0].value == '"' and isinstance(vals[2], ast.Constant) and vals[2].value == '"' and isinstance(vals[1], ast.FormattedValue) and self.classify(vals[1].value, depth + 1) == ESC:
                return QLIT
            return FRAG
        if isinstance(e, ast.IfExp):
            a, b = self.classify(e.body, depth + 1), self.classify(e.orelse, depth + 1)
            return a if a == b else (FRAG if {a, b} <= {FRAG, CONST} else TAINTED)
        if isinstance(e, ast.BoolOp) and isinstance(e.op, ast.Or):
            kinds = {self.classify(v, depth + 1) for v in e.values}
            return FRAG if kinds <= {FRAG, CONST} else TAINTED
        if isinstance(e, ast.BinOp) and isinstance(e.op, ast.Add):
            problems = scan_concat(self, e, depth + 1)
            return TAINTED if problems else FRAG
        return TAINTED

    def _bound_fragment_maker(self, name: str) -> bool:
        """`name = getattr(self, <m>)` where <m> is a constant naming a _compile_* method of this class, or a loop variable
        over a module-level table whose entries at that position all name such methods"""
        ds = self.defs.get(name, [])
        if len(ds) != 1 or not (isinstance(ds[0], ast.Call) and is_name(ds[0].func, "getattr") and len(ds[0].args) == 2 and is_name(ds[0].args[0], "self")):
            return False
        m = ds[0].args[1]
        methods = {f.name for f in self.mod.functions.values() if f.cls == self.fi.cls and f.name.startswith("_compile_")}
        if isinstance(m, ast.Constant):
            return m.value in methods
        if not isinstance(m, ast.Name) or m.id in self.defs:
            return False
        for n in walk_no_nested(self.fi.node):
            if isinstance(n, ast.For) and isinstance(n.target, ast.Tuple) and isinstance(n.iter, ast.Name) and self.mod.has_const(n.iter.id) and n.iter.id not in self.defs:
                idx = [i for i, t in enumerate(n.target.elts) if is_name(t, m.id)]
                if len(idx) != 1:
                    continue
                try:
                    table = self.mod.const_node(n.iter.id)
                except Exception:
                    return False
                if isinstance(table, (ast.Tuple, ast.List)) and table.elts and all(isinstance(r, ast.Tuple) and len(r.elts) == len(n.target.elts) and isinstance(r.elts[idx[0]], ast.Constant) and r.elts[idx[0]].value in methods for r in table.elts):
                    return True
        return False

    def list_lines(self, e: ast.Name, depth: int = 0) -> list[tuple[ast.AST, ast.AST]] | None:
        """(append call, appended expression) for a local list that only starts empty (or as an alias of such a list) and
        grows by append; None when it is built any other way"""
        if depth > 4:
            return None
        out: list[tuple[ast.AST, ast.AST]] = []
        for d in self.defs.get(e.id, []):
            if isinstance(d, ast.List) and not d.elts:
                continue
            if isinstance(d, ast.Name):
                sub = self.list_lines(d, depth + 1)
                if sub is None:
                    return None
                out += sub
                continue
            return None
        for n in walk_no_nested(self.fi.node):
            if isinstance(n, ast.Call) and isinstance(n.func, ast.Attribute) and isinstance(n.func.value, ast.Name) and n.func.value.id == e.id and n.args:
                if n.func.attr == "append":
                    out.append((n, n.args[0]))
                elif n.func.attr in ("extend", "insert", "__iadd__"):
                    return None
        return out if (out or e.id in self.defs) else None

    def classify_list(self, e: ast.AST, depth: int) -> str:
        """element kind of a list expression"""
        if depth > 8:
            return TAINTED
        if isinstance(e, ast.Name):
            ds = self.defs.get(e.id, [])
            kinds = set()
            for d in ds:
                if isinstance(d, (ast.List,)) and not d.elts:
                    continue
                kinds.add(self.classify_list(d, depth + 1))  # (an alias `a = b` takes b's element kind)
            for a in self.list_appends.get(e.id, []):
                kinds.add(self.classify(a, depth + 1))
            return kinds.pop() if len(kinds) == 1 else TAINTED
        if isinstance(e, (ast.ListComp, ast.GeneratorExp)):
            # element classified with the comprehension variable bound to elements of its source
            g = e.generators[0]
            if isinstance(g.target, ast.Name):
                src_kind = self.classify_list(g.iter, depth + 1) if isinstance(g.iter, ast.Name) else TAINTED
                saved = self.defs.get(g.target.id)
                self.defs[g.target.id] = [_Marker(src_kind)]
                try:
                    k = self.classify(e.elt, depth + 1)
                finally:
                    if saved is None:
                        self.defs.pop(g.target.id, None)
                    else:
                        self.defs[g.target.id] = saved
                return k
        if isinstance(e, ast.List):
            kinds = {self.classify(x, depth + 1) for x in e.elts}
            return kinds.pop() if len(kinds) == 1 else TAINTED
        return TAINTED


class _Marker(ast.AST):
    def __init__(self, kind: str):
        self.kind = kind


_orig_classify = Env.classify


def _classify(self, e, depth=0):
    if isinstance(e, _Marker):
        return e.kind
    return _orig_classify(self, e, depth)


Env.classify = _classify  # type: ignore[method-assign]


def flatten_concat(e: ast.AST) -> list[ast.AST]:
    if isinstance(e, ast.BinOp) and isinstance(e.op, ast.Add):
        return flatten_concat(e.left) + flatten_concat(e.right)
    return [e]


def scan_parts(env: Env, parts: list[tuple[str, object]], depth: int) -> list[str]:
    """parts: ('text', str) | ('expr', ast node). Tracks GBNF literal / comment context."""
    problems: list[str] = []
    in_lit = False
    in_comment = False
    started = False
    for kind, v in parts:
        if kind == "text":
            text: str = v  # type: ignore[assignment]
            i = 0
            while i < len(text):
                c = text[i]
                if not started and not c.isspace():
                    started = True
                    if c == "#":
                        in_comment = True
                if in_comment:
                    if c == "\n":
                        in_comment = False
                        started = False
                elif in_lit:
                    if c == "\\":
                        i += 1
                    elif c == '"':
                        in_lit = False
                elif c == '"':
                    in_lit = True
                elif c == "\n":
                    started = False
                i += 1
        else:
            k = env.classify(v, depth)  # type: ignore[arg-type]
            started = True
            if in_comment:
                if k not in (CONST, ONELINE, RULENAME, ESC):
                    problems.append(f"`{ast.unparse(v)}` ({k}) inside a '#' comment: a line break in it would start a new grammar line")  # type: ignore[arg-type]
            elif in_lit:
                if k not in (CONST, ESC):
                    problems.append(f"`{ast.unparse(v)}` ({k}) inside a \"...\" literal without _escape_literal: a quote or backslash in it ends the literal early")  # type: ignore[arg-type]
            else:
                if k not in (CONST, QLIT, ALT, RULENAME, RULEALT, FRAG):
                    problems.append(f"`{ast.unparse(v)}` ({k}) in rule position: dynamic text outside literals must be a sanitised rule name, an escaped quoted literal or a compiled fragment")  # type: ignore[arg-type]
    if in_lit:
        problems.append("unterminated \"...\" literal in the template")
    return problems


def scan_fstring(env: Env, e: ast.JoinedStr, depth: int = 0) -> list[str]:
    parts: list[tuple[str, object]] = []
    for v in e.values:
        if isinstance(v, ast.Constant):
            parts.append(("text", str(v.value)))
        elif isinstance(v, ast.FormattedValue):
            parts.append(("expr", v.value))
    return scan_parts(env, parts, depth)


def scan_concat(env: Env, e: ast.BinOp, depth: int = 0) -> list[str]:
    parts: list[tuple[str, object]] = []
    for p in flatten_concat(e):
        if isinstance(p, ast.Constant) and isinstance(p.value, str):
            parts.append(("text", p.value))
        elif isinstance(p, ast.JoinedStr):
            for v in p.values:
                if isinstance(v, ast.Constant):
                    parts.append(("text", str(v.value)))
                elif isinstance(v, ast.FormattedValue):
                    parts.append(("expr", v.value))
        else:
            parts.append(("expr", p))
    return scan_parts(env, parts, depth)


def scan_output(env: Env, e: ast.AST) -> list[str]:
    if isinstance(e, ast.JoinedStr):
        return scan_fstring(env, e)
    if isinstance(e, ast.BinOp) and isinstance(e.op, ast.Add):
        return scan_concat(env, e)
    if isinstance(e, ast.Constant) and isinstance(e.value, str):
        return scan_parts(env, [("text", e.value)], 0)
    k = env.classify(e)
    return [] if k in (CONST, QLIT, ALT, RULENAME, RULEALT, FRAG) else [f"`{ast.unparse(e)}` ({k}) is emitted as grammar text"]


# ----------------------------------------------------------------------------- constant rules
RULE_DEF = re.compile(r"^([a-z][a-z0-9_-]*) ::= (.*)$")


def refs_of(body: str) -> set[str]:
    """rule references in a constant rule body (identifiers outside literals and classes)"""
    out = set()
    i = 0
    while i < len(body):
        c = body[i]
        if c == '"':
            i += 1
            while i < len(body) and body[i] != '"':
                i += 2 if body[i] == "\\" else 1
            i += 1
        elif c == "[":
            i += 1
            while i < len(body) and body[i] != "]":
                i += 2 if body[i] == "\\" else 1
            i += 1
        elif c.isalpha():
            j = i
            while j < len(body) and (body[j].isalnum() or body[j] in "_-"):
                j += 1
            out.add(body[i:j])
            i = j
        else:
            i += 1
    return out


def grammar_builder_view(gm: Module) -> tuple[FuncInfo, list[str]]:
    """compile_schema with the helpers it delegates parts of the grammar to inlined (octacheck.inline): helpers called in
    statement position whose result is not a string fragment (a tuple / list result, or no result)"""
    from ..inline import inline_helpers

    def select(h: FuncInfo, call: ast.Call, st: ast.stmt) -> bool:
        if h.cls != "GBNFCompiler" or h.name in ("compile_chain", "compile_constraint", "_escape_literal", "_sanitize_rule_name", "_unique_rule_name"):
            return False
        if isinstance(st, ast.Expr):
            return True
        tg = st.targets[0] if isinstance(st, ast.Assign) else None
        ret = getattr(h.node, "returns", None)
        return isinstance(tg, ast.Tuple) or (ret is not None and ast.unparse(ret).startswith(("list", "tuple", "List", "Tuple")))

    view, inlined = inline_helpers(gm.func("GBNFCompiler.compile_schema"), select)

    # the rules read compile_schema by the names of four locals; they are recognised by definition / use, whatever they are called
    def joined_with(sep: str):
        def find(fn: ast.AST) -> str | None:
            for n in walk_no_nested(fn):
                if isinstance(n, ast.Call) and isinstance(n.func, ast.Attribute) and n.func.attr == "join" and isinstance(n.func.value, ast.Constant) and n.func.value.value == sep and len(n.args) == 1 and isinstance(n.args[0], ast.Name):
                    return n.args[0].id
            return None
        return find

    from ..source import normalise_locals

    view = normalise_locals(view, [
        ("rule_name", lambda v: isinstance(v, ast.Call) and ast.unparse(v.func) == "self._unique_rule_name"),
    ], finders=[("rules", joined_with("\n")), ("field_rule_names", joined_with(" | "))])
    return view, inlined


def check(run: Run) -> None:
    gm = run.project.mod("core.gbnf_compiler")
    run.rule("R12.1", "taint into grammar text: every dynamic string reaches a \"...\" literal only through _escape_literal, a '#' comment only as one line, and rule position only as a sanitised rule name, an escaped quoted literal or a compiled fragment; REGEX text is kept only after a shape test whose language is GBNF-safe", 25)
    run.rule("R12.2", "rule-name namespace: every field rule name passes the uniquifier, whose initial set is the structural rule names compile_schema itself defines", 3)
    run.rule("R12.3", "every rule referenced by the constant part of the grammar is defined there (or is a field rule), root is defined on every path, and no structural rule is defined twice on a path", 12)
    run.rule("R12.4", "_escape_literal escapes backslash first, then the quote, and keeps line breaks out; the sanitiser's output alphabet is [a-z0-9_] and never empty", 2)

    cs, inlined = grammar_builder_view(gm)
    run.extra["compile_schema_inlined_helpers"] = inlined
    env = Env(cs, gm, run.project)
    # ---------------------------------------------------------------- R12.1 : compile_schema output sites
    n_sites = 0
    for n in walk_no_nested(cs.node):
        if isinstance(n, ast.Call) and isinstance(n.func, ast.Attribute) and n.func.attr in ("append", "extend", "insert") and is_name(n.func.value, "rules") and n.args:
            arg = n.args[-1]
            # rules.extend(<list built by appends>): every appended line is an output site
            lines = env.list_lines(arg) if n.func.attr == "extend" and isinstance(arg, ast.Name) else None
            for site, a in ([(n, arg)] if lines is None else lines):
                n_sites += 1
                probs = scan_output(env, a)
                run.instance("R12.1", gm.loc(site), f"compile_schema: `{norm(site)}`", ok=not probs)
                for p in probs:
                    run.violation("R12.1", gm, cs.qualname, site, f"grammar line built unsafely: {p}")
    if n_sites < 15:
        raise AnalysisError(f"compile_schema: only {n_sites} rules.append sites found")
    # fragments returned by the per-kind compilers
    for fi in gm.functions.values():
        if not (fi.cls == "GBNFCompiler" and (fi.name.startswith("_compile_") or fi.name in ("compile_constraint", "compile_chain"))):
            continue
        if fi.qualname in inlined:
            continue  # not a fragment maker: a part of compile_schema, analysed there
        fenv = Env(fi, gm, run.project)
        for n in walk_no_nested(fi.node):
            if isinstance(n, ast.Return) and n.value is not None:
                if fi.name == "_compile_regex":
                    continue  # judged below with its shape tests
                probs = scan_output(fenv, n.value)
                run.instance("R12.1", gm.loc(n), f"{fi.qualname}: `{norm(n)}`", ok=not probs)
                for p in probs:
                    run.violation("R12.1", gm, fi.qualname, n, f"grammar fragment built unsafely: {p}")
    _regex_fragments(run, gm)

    # ---------------------------------------------------------------- R12.2
    structural_defined = set()
    for n in walk_no_nested(cs.node):
        for c in ast.walk(n) if isinstance(n, ast.Call) and isinstance(n.func, ast.Attribute) and n.func.attr == "append" and is_name(n.func.value, "rules") else []:
            text = None
            if isinstance(c, ast.Constant) and isinstance(c.value, str):
                text = c.value
            elif isinstance(c, ast.JoinedStr) and c.values and isinstance(c.values[0], ast.Constant):
                text = str(c.values[0].value)
            if text:
                m = re.match(r"^([a-z][a-z0-9_-]*) ::=", text)
                if m:
                    structural_defined.add(m.group(1))
    run.extra["structural_rule_names"] = sorted(structural_defined)
    rn_defs = [d for d in env.defs.get("rule_name", [])]
    ok = False
    detail = "no `rule_name = self._unique_rule_name(self._sanitize_rule_name(field_name), <used>)`"
    for d in rn_defs:
        if isinstance(d, ast.Call) and ast.unparse(d.func) == "self._unique_rule_name" and len(d.args) == 2 and isinstance(d.args[0], ast.Call) and ast.unparse(d.args[0].func) == "self._sanitize_rule_name" and isinstance(d.args[1], ast.Name):
            used = d.args[1].id
            inits = env.defs.get(used, [])
            init_names = set()
            for i in inits:
                v = run.project.try_fold(gm, i)
                if isinstance(v, (set, frozenset, list, tuple)):
                    init_names |= set(v)
            missing = structural_defined - init_names
            ok = not missing and len(rn_defs) == 1
            detail = f"uniquifier seeded with {sorted(init_names)}; structural names not in the seed: {sorted(missing)}"
    run.instance("R12.2", gm.loc(cs.node), f"compile_schema: field rule names pass the uniquifier ({detail})", ok=ok)
    if not ok:
        run.violation("R12.2", gm, cs.qualname, "rule_name = uniquifier(sanitiser(field_name), structural names)", f"field rule names are not made unique against each other and against the grammar's own rule names: {detail} (a field called CONTENT, or A.B next to A_DOT_B, defines a rule twice)")
    uq = gm.func("GBNFCompiler._unique_rule_name")
    # the uniquifier loops while the name is taken and records the result
    has_loop = any(isinstance(n, ast.While) and isinstance(n.test, ast.Compare) and isinstance(n.test.ops[0], ast.In) for n in walk_no_nested(uq.node))
    records = any(isinstance(n, ast.Call) and isinstance(n.func, ast.Attribute) and n.func.attr == "add" for n in walk_no_nested(uq.node))
    run.instance("R12.2", gm.loc(uq.node), "_unique_rule_name: loops while the candidate is taken and records the result", ok=has_loop and records)
    if not (has_loop and records):
        run.violation("R12.2", gm, uq.qualname, "while name in used: ... ; used.add(name)", f"the uniquifier does not (loop while taken={has_loop}, record the name={records})")
    # the field alternation references exactly the uniquified names
    fr = env.classify_list(ast.Name(id="field_rule_names", ctx=ast.Load()), 0)
    run.instance("R12.2", gm.loc(cs.node), f"compile_schema: the `field` alternation lists the same (uniquified) rule names that were defined ({fr})", ok=fr == RULENAME)
    if fr != RULENAME:
        run.violation("R12.2", gm, cs.qualname, "field_rule_names", "the names referenced by the `field` rule are not the names under which the field rules were defined")

    # ---------------------------------------------------------------- R12.3
    _constant_rules(run, gm, cs)

    _grammar_reaches_caller_intact(run)
    _no_empty_alternation(run)

    # ---------------------------------------------------------------- R12.4
    el = gm.func("GBNFCompiler._escape_literal")
    from .c04 import function_replace_chain

    chain = function_replace_chain(el, run.project)
    srcs = [a for a, _ in chain]
    ok = srcs[:2] == ["\\", '"'] and dict(chain).get("\\") == "\\\\" and dict(chain).get('"') == '\\"' and "\n" in srcs
    run.instance("R12.4", gm.loc(el.node), f"_escape_literal chain {chain}", ok=ok)
    if not ok:
        run.violation("R12.4", gm, el.qualname, "escape chain of _escape_literal", f"_escape_literal's chain {chain} is not `backslash, then quote, then line breaks`: an escaped literal could still be terminated early or span lines")
    sz = gm.func("GBNFCompiler._sanitize_rule_name")
    # appended pieces: the character itself under isascii and (isalnum or '_'), or an f-string over [a-z0-9_]
    ok = True
    # the accumulator: the local list whose join is the name (whatever it is called)
    joined = {c.args[0].id for c in walk_no_nested(sz.node) if isinstance(c, ast.Call) and isinstance(c.func, ast.Attribute) and c.func.attr == "join" and len(c.args) == 1 and isinstance(c.args[0], ast.Name)}
    n_pieces = 0
    for n in walk_no_nested(sz.node):
        if isinstance(n, ast.Call) and isinstance(n.func, ast.Attribute) and n.func.attr == "append" and isinstance(n.func.value, ast.Name) and n.func.value.id in (joined | {"sanitized"}) and n.args:
            a = n.args[0]
            n_pieces += 1
            if isinstance(a, ast.Subscript) and isinstance(a.value, ast.Name) and gm.has_const(a.value.id):
                # a spelling taken from a constant table: every spelling is over [a-z0-9_]
                tbl = run.project.try_fold(gm, a.value)
                ok = ok and isinstance(tbl, dict) and all(isinstance(v, str) and re.fullmatch(r"[a-z0-9_]*", v) is not None for v in tbl.values())
            elif isinstance(a, ast.Name):
                cfg = CFG(sz.node)
                tests = [t for x in cfg.node_for_stmt_containing(n) for t, val in branch_conditions(cfg, x) if val is True and a.id in names_in(t)]
                # evaluate the guarding test on every ASCII character: what it lets through must be inside [A-Za-z0-9_]
                pe = rx.PredicateEval({}, {})
                allowed = set()
                # (and on letters / digits outside ASCII: `isalnum()` alone is true for ö, 名, ², ٣)
                for code in list(range(128)) + [0xB2, 0xDF, 0xE9, 0xF6, 0x3A9, 0x416, 0x663, 0x540D, 0x2192, 0x1F600]:
                    ch = chr(code)
                    try:
                        if tests and all(pe._expr(t, {a.id: ch}, 0) for t in tests):
                            allowed.add(ch)
                    except AnalysisError:
                        allowed.add(ch)
                good = set("abcdefghijklmnopqrstuvwxyzABCDEFGHIJKLMNOPQRSTUVWXYZ0123456789_")
                ok = ok and bool(tests) and allowed <= good
                run.extra["sanitiser_ascii_passthrough"] = "".join(sorted(allowed))
            elif isinstance(a, ast.JoinedStr):
                consts = "".join(str(v.value) for v in a.values if isinstance(v, ast.Constant))
                fmts = [v for v in a.values if isinstance(v, ast.FormattedValue)]
                ok = ok and re.fullmatch(r"[a-z0-9_]*", consts) is not None and all(v.format_spec is not None and "x" in ast.unparse(v.format_spec) for v in fmts)
            else:
                ok = False
    if n_pieces == 0:
        # the other spelling of the same filter: re.sub(<negated class>, <callback>, name.lower()) - what the class does not
        # match passes through, everything else is what the callback returns
        for c in walk_no_nested(sz.node):
            if isinstance(c, ast.Call) and ast.unparse(c.func) == "re.sub" and len(c.args) == 3 and isinstance(c.args[0], ast.Constant) and isinstance(c.args[0].value, str) and isinstance(c.args[1], ast.Name) and gm.has_func(c.args[1].id):
                m_ = re.fullmatch(r"\[\^((?:[A-Za-z0-9_]|[A-Za-z0-9]-[A-Za-z0-9])+)\]", c.args[0].value)
                if m_ is None:
                    continue
                passed = set()
                body_ = m_.group(1)
                i_ = 0
                while i_ < len(body_):
                    if i_ + 2 < len(body_) and body_[i_ + 1] == "-":
                        passed |= {chr(k_) for k_ in range(ord(body_[i_]), ord(body_[i_ + 2]) + 1)}
                        i_ += 3
                    else:
                        passed.add(body_[i_])
                        i_ += 1
                good = set("abcdefghijklmnopqrstuvwxyzABCDEFGHIJKLMNOPQRSTUVWXYZ0123456789_")
                cb = gm.func(c.args[1].id)
                rets = [r.value for r in walk_no_nested(cb.node) if isinstance(r, ast.Return)]

                def piece_ok(v: ast.AST | None) -> bool:
                    if isinstance(v, ast.Constant) and isinstance(v.value, str):
                        return re.fullmatch(r"[a-z0-9_]*", v.value) is not None
                    if isinstance(v, ast.IfExp):
                        return piece_ok(v.body) and piece_ok(v.orelse)
                    if isinstance(v, ast.JoinedStr):
                        consts = "".join(str(x.value) for x in v.values if isinstance(x, ast.Constant))
                        fmts = [x for x in v.values if isinstance(x, ast.FormattedValue)]
                        return re.fullmatch(r"[a-z0-9_]*", consts) is not None and all(x.format_spec is not None and "x" in ast.unparse(x.format_spec) for x in fmts)
                    if isinstance(v, ast.Subscript) and isinstance(v.value, ast.Name) and gm.has_const(v.value.id):
                        tbl = run.project.try_fold(gm, v.value)
                        return isinstance(tbl, dict) and all(isinstance(x, str) and re.fullmatch(r"[a-z0-9_]*", x) is not None for x in tbl.values())
                    return False

                n_pieces += 1 + len(rets)
                ok = ok and passed <= good and bool(rets) and all(piece_ok(r) for r in rets)
                run.extra["sanitiser_ascii_passthrough"] = "".join(sorted(passed))
    if n_pieces == 0:
        raise AnalysisError("_sanitize_rule_name: no piece appended to the list that is joined into the name was found (the sanitiser is not in a form this rule reads); its output alphabet is not decided")
    lowered = any(isinstance(n, ast.Call) and isinstance(n.func, ast.Attribute) and n.func.attr == "lower" for n in walk_no_nested(sz.node))
    nonempty = any(isinstance(n, ast.Return) and isinstance(n.value, ast.BoolOp) and isinstance(n.value.op, ast.Or) and isinstance(n.value.values[-1], ast.Constant) and n.value.values[-1].value for n in walk_no_nested(sz.node))
    digit_guard = any(isinstance(n, ast.If) and "isdigit()" in ast.unparse(n.test) for n in walk_no_nested(sz.node))
    run.instance("R12.4", gm.loc(sz.node), "_sanitize_rule_name: lower-cases, keeps only [a-z0-9_] (non-ASCII as _u<hex>_), prefixes a leading digit, never returns an empty name", ok=ok and lowered and nonempty and digit_guard)
    if not (ok and lowered and nonempty and digit_guard):
        run.violation("R12.4", gm, sz.qualname, "sanitiser alphabet", f"the rule-name sanitiser can produce characters outside [a-z0-9_] / an empty or digit-initial name (filter ok={ok}, lower={lowered}, non-empty fallback={nonempty}, digit guard={digit_guard})")


def _use_is_storage(par: ast.AST | None, u: ast.AST) -> bool:
    return isinstance(par, (ast.Dict, ast.Return, ast.Compare)) or (isinstance(par, ast.Assign) and par.value is u) or (isinstance(par, ast.Call) and isinstance(par.func, ast.Name) and par.func.id in ("len", "str", "print")) or (isinstance(par, ast.Call) and ast.unparse(par.func).endswith(("echo", "append")))


def _passes_through(fi: FuncInfo, call: ast.Call, arg: ast.AST, depth: int) -> bool:
    """`call` hands `arg` to a function of the same module (plain name or self.<method>) in which the receiving parameter is
    only stored in a dict, returned, compared or measured (or handed on the same way)"""
    if depth > 3:
        return False
    f = call.func
    if isinstance(f, ast.Name):
        cands = [x for x in fi.module.functions.values() if x.name == f.id and x.cls is None]
    elif isinstance(f, ast.Attribute) and isinstance(f.value, ast.Name) and f.value.id in ("self", "cls"):
        cands = [x for x in fi.module.functions.values() if x.name == f.attr and x.cls == fi.cls]
    else:
        return False
    if len(cands) != 1:
        return False
    h = cands[0]
    params = [a.arg for a in h.node.args.args if a.arg not in ("self", "cls")]  # type: ignore[attr-defined]
    if arg in call.args:
        i = call.args.index(arg)
        if i >= len(params):
            return False
        p = params[i]
    else:
        kws = [k.arg for k in call.keywords if k.value is arg]
        if not kws or kws[0] is None or kws[0] not in params + [a.arg for a in h.node.args.kwonlyargs]:  # type: ignore[attr-defined]
            return False
        p = kws[0]
    if any(isinstance(n, ast.Name) and n.id == p and isinstance(n.ctx, ast.Store) for n in walk_no_nested(h.node)):
        return False
    for u in walk_no_nested(h.node):
        if isinstance(u, ast.Name) and u.id == p and isinstance(u.ctx, ast.Load):
            par = getattr(u, "_parent", None)
            if _use_is_storage(par, u):
                continue
            if isinstance(par, ast.Call) and _passes_through(h, par, u, depth + 1):
                continue
            return False
    return True


def _no_empty_alternation(run: Run) -> None:
    """R12.6: `( a | b | ... )` built by joining a list has at least one alternative"""
    run.rule("R12.6", "no empty alternative: every group the compiler builds by joining a list with ' | ' is built only where that list is known to be non-empty - a truthiness test of the list on the way, or (ENUM) a list that is non-empty by construction: the schema reader makes EnumConstraint.allowed_values with a filter-free comprehension over str.split(), which always has at least one element", 2)
    gm = run.project.mod("core.gbnf_compiler")
    cm = run.project.mod("core.constraints")
    from ..cfg import CFG, atomic_conditions

    def enum_values_nonempty() -> tuple[bool, str, ast.AST | None]:
        fi = cm.func("ConstraintChain.parse")
        cfg = CFG(fi.node)
        sites = [c for c in walk_no_nested(fi.node) if isinstance(c, ast.Call) and isinstance(c.func, ast.Name) and c.func.id == "EnumConstraint"]
        if not sites:
            raise AnalysisError("ConstraintChain.parse: no EnumConstraint(...) construction found")
        for c in sites:
            v = next((k.value for k in c.keywords if k.arg == "allowed_values"), c.args[0] if c.args else None)
            if isinstance(v, ast.Name):
                defs = [a.value for a in walk_no_nested(fi.node) if isinstance(a, ast.Assign) and len(a.targets) == 1 and isinstance(a.targets[0], ast.Name) and a.targets[0].id == v.id]
                holder = next((n for n in cfg.nodes if n.ast is not None and any(x is c for x in ast.walk(n.ast))), None)
                guarded = holder is not None and any(val and ast.unparse(t) == v.id for t, val in atomic_conditions(cfg, holder.id))
            else:
                defs, guarded = ([v] if v is not None else []), False
            for d in defs:
                ok = isinstance(d, (ast.List, ast.Tuple)) and bool(d.elts)
                if isinstance(d, ast.ListComp) and len(d.generators) == 1 and not d.generators[0].ifs:
                    it = d.generators[0].iter
                    # over <text>.split(<sep>) (never empty), possibly through a name bound once to it
                    if isinstance(it, ast.Name):
                        idefs = [a.value for a in walk_no_nested(fi.node) if isinstance(a, ast.Assign) and len(a.targets) == 1 and isinstance(a.targets[0], ast.Name) and a.targets[0].id == it.id]
                        it = idefs[0] if len(idefs) == 1 else it
                    ok = isinstance(it, ast.Call) and isinstance(it.func, ast.Attribute) and it.func.attr in ("split", "rsplit") and len(it.args) >= 1
                if not ok and not guarded:
                    return False, f"`{norm(d)[:90]}` can be empty (a filtered comprehension / a list that is not split() of text)", c
        return True, "", None

    n = 0
    for fi in gm.functions.values():
        if fi.cls != "GBNFCompiler":
            continue
        cfg = None
        for c in walk_no_nested(fi.node):
            if not (isinstance(c, ast.Call) and isinstance(c.func, ast.Attribute) and c.func.attr == "join" and isinstance(c.func.value, ast.Constant) and isinstance(c.func.value.value, str) and c.func.value.value.strip() == "|" and len(c.args) == 1):
                continue
            n += 1
            cfg = cfg or CFG(fi.node)
            arg = c.args[0]
            names = {x.id for x in ast.walk(arg) if isinstance(x, ast.Name)}
            holder = next((nd for nd in cfg.nodes if nd.ast is not None and any(x is c for x in ast.walk(nd.ast))), None)
            guarded = holder is not None and any(val and isinstance(t, ast.Name) and t.id in names for t, val in atomic_conditions(cfg, holder.id))
            why = "a truthiness test of the list is on the way"
            ok = guarded
            if not ok:
                # the joined list derives, length-preserving, from <constraint>.allowed_values
                src = arg
                for _ in range(4):
                    if isinstance(src, ast.Name):
                        defs = [a.value for a in walk_no_nested(fi.node) if isinstance(a, ast.Assign) and len(a.targets) == 1 and isinstance(a.targets[0], ast.Name) and a.targets[0].id == src.id]
                        if len(defs) != 1:
                            break
                        src = defs[0]
                    elif isinstance(src, (ast.ListComp, ast.GeneratorExp)) and len(src.generators) == 1 and not src.generators[0].ifs:
                        src = src.generators[0].iter
                    else:
                        break
                if isinstance(src, ast.Attribute) and src.attr == "allowed_values":
                    ok, why2, site = enum_values_nonempty()
                    why = "the list is <ENUM>.allowed_values mapped one to one, and the schema reader never builds an empty one" if ok else why2
                    if not ok:
                        run.instance("R12.6", gm.loc(c), f"{fi.qualname}: `{norm(c)[:70]}`", ok=False)
                        run.violation("R12.6", cm, "ConstraintChain.parse", site or "EnumConstraint(...)", f"the schema reader can build an ENUM with no allowed value: {why2}; {fi.qualname} joins the values into a group without testing for emptiness, so `ENUM[]` compiles to `()` - an empty alternative, not well-formed GBNF")
                        continue
                else:
                    why = f"`{norm(arg)[:60]}` is neither tested for emptiness nor derived one to one from an ENUM's values"
            run.instance("R12.6", gm.loc(c), f"{fi.qualname}: `{norm(c)[:70]}`: {why}", ok=ok)
            if not ok:
                run.violation("R12.6", gm, fi.qualname, c, f"a group of alternatives is built by `{norm(c)[:80]}` although the list may be empty: the grammar then contains `()` (an empty alternative)")
    if n < 2:
        raise AnalysisError(f"only {n} ' | '.join(...) site(s) found in GBNFCompiler")


def _grammar_reaches_caller_intact(run: Run) -> None:
    """R12.5: what compile_schema / compile_gbnf_from_meta return is handed to the caller as is (no cutting, no post-editing)"""
    run.rule("R12.5", "the compiled grammar reaches the response unmodified: the value returned by compile_schema / compile_gbnf_from_meta is only stored, returned or measured, never sliced, split, concatenated or passed through a rewriting helper", 4)
    n = 0
    for fi in run.project.all_functions():
        # scope: the MCP tools and core.grammar (the surfaces the property names); the integrations' format_for_* helpers
        # re-space lines around '::=' (whitespace only) and are outside this rule
        if not (fi.module.name.startswith("octave_mcp.mcp") or fi.module.name.endswith("core.grammar") or fi.module.name.endswith("cli.main")):
            continue
        gvars: dict[str, ast.AST] = {}
        for a in walk_no_nested(fi.node):
            if isinstance(a, ast.Assign) and isinstance(a.value, ast.Call) and (ast.unparse(a.value.func).endswith("compile_schema") or ast.unparse(a.value.func).endswith("compile_gbnf_from_meta")) and isinstance(a.targets[0], ast.Name):
                gvars[a.targets[0].id] = a
        # the call's value stored or returned on the spot (`env["output"] = compile_...(..)`, `return compile_...(..)`, a dict entry)
        for c in walk_no_nested(fi.node):
            if isinstance(c, ast.Call) and (ast.unparse(c.func).endswith("compile_schema") or ast.unparse(c.func).endswith("compile_gbnf_from_meta")):
                par = getattr(c, "_parent", None)
                direct = (isinstance(par, ast.Assign) and par.value is c and len(par.targets) == 1 and isinstance(par.targets[0], ast.Subscript)) or (isinstance(par, ast.Return) and par.value is c) or (isinstance(par, ast.Dict) and c in par.values) or (isinstance(par, ast.keyword) and par.value is c and isinstance(getattr(par, "_parent", None), ast.Call) and ast.unparse(par._parent.func).split(".")[-1] in ("update", "dict"))  # type: ignore[attr-defined]
                if direct:
                    n += 1
                    run.instance("R12.5", fi.module.loc(c), f"{fi.qualname}: the value of `{norm(c)}` is stored / returned as it is", ok=True)
        for var, a in gvars.items():
            n += 1
            bad = []
            for u in walk_no_nested(fi.node):
                if isinstance(u, ast.Name) and u.id == var and isinstance(u.ctx, ast.Load):
                    par = getattr(u, "_parent", None)
                    ok = isinstance(par, (ast.Dict, ast.Return, ast.Compare)) or (isinstance(par, ast.Assign) and par.value is u) or (isinstance(par, ast.Call) and isinstance(par.func, ast.Name) and par.func.id in ("len", "str", "print") ) or (isinstance(par, ast.Call) and ast.unparse(par.func).endswith(("echo", "append")))
                    if not ok and isinstance(par, ast.Call) and _passes_through(fi, par, u, 0):
                        ok = True  # handed to a helper of the same module that only stores / returns it
                    if not ok:
                        bad.append(par if par is not None else u)
            run.instance("R12.5", fi.module.loc(a), f"{fi.qualname}: grammar `{var}` from `{norm(a.value)}` is only stored / returned / measured", ok=not bad)
            for b in bad:
                run.violation("R12.5", fi.module, fi.qualname, b, f"the compiled grammar `{var}` is cut, rewritten or passed through another function before it reaches the caller: rules appended last (field, content, document, root) can be lost")
    if n < 4:
        raise AnalysisError(f"only {n} grammar-producing call sites found in the tools")


def _regex_fragments(run: Run, gm: Module) -> None:
    fi = gm.func("GBNFCompiler._compile_regex")
    cfg = CFG(fi.node)
    tainted = {"pattern", "constraint"}
    changed = True
    while changed:
        changed = False
        for n in walk_no_nested(fi.node):
            if isinstance(n, ast.Assign) and isinstance(n.targets[0], ast.Name) and n.targets[0].id not in tainted and names_in(n.value) & tainted:
                tainted.add(n.targets[0].id)
                changed = True
    from .. import lexmodel

    A = rx.Alphabet()
    safe_seq = r"(?:(?:\[(?:[^\]\\\n]|\\[^\n])+\]|\.)[+*?]?)+"  # what GBNF accepts as a body: classes (with backslash pairs, no raw newline) / dots, each with an optional + * ?
    for rn in [n for n in cfg.nodes if isinstance(n.ast, ast.Return) and n.ast.value is not None]:
        v = rn.ast.value  # type: ignore[union-attr]
        if not (names_in(v) & tainted):
            ok = isinstance(v, ast.Constant)
            run.instance("R12.1", gm.loc(rn.ast), f"_compile_regex: constant fallback `{norm(rn.ast)}`", ok=ok)
            if not ok:
                run.violation("R12.1", gm, fi.qualname, rn.ast, "non-constant fallback in _compile_regex")
            continue
        # a pattern-derived return must be dominated by a shape test with a constant regex
        shape = None
        shape_vars: dict[str, tuple[str, str]] = {}
        for n in walk_no_nested(fi.node):
            if isinstance(n, ast.Assign) and isinstance(n.value, ast.Call) and ast.unparse(n.value.func) in ("re.match", "re.fullmatch") and isinstance(n.value.args[0], ast.Constant) and isinstance(n.targets[0], ast.Name):
                shape_vars[n.targets[0].id] = (ast.unparse(n.value.func), n.value.args[0].value)
        for t, val in branch_conditions(cfg, rn.id):
            if val is True and isinstance(t, ast.Call) and ast.unparse(t.func) in ("re.fullmatch", "re.match") and isinstance(t.args[0], ast.Constant) and len(t.args) == 2 and names_in(t.args[1]) & tainted:
                shape = (ast.unparse(t.func), t.args[0].value)
            if val is True and isinstance(t, ast.Name) and t.id in shape_vars:
                shape = shape_vars[t.id]
        if shape is None:
            # the other proof: the atoms found by finditer tile the pattern - the first starts at 0, the last ends at len, and
            # consecutive atoms touch. That is re.fullmatch of (atom)+.
            for a_ in walk_no_nested(fi.node):
                if isinstance(a_, ast.Assign) and len(a_.targets) == 1 and isinstance(a_.targets[0], ast.Name) and isinstance(a_.value, ast.Call):
                    c_ = a_.value
                    if isinstance(c_.func, ast.Name) and c_.func.id in ("list", "tuple") and len(c_.args) == 1 and isinstance(c_.args[0], ast.Call):
                        c_ = c_.args[0]
                    if ast.unparse(c_.func) == "re.finditer" and len(c_.args) == 2 and isinstance(c_.args[1], ast.Name) and c_.args[1].id in tainted:
                        A_, P_ = a_.targets[0].id, c_.args[1].id
                        atom_rx = run.project.try_fold(gm, c_.args[0])
                        falses = {" ".join(ast.unparse(t).split()) for t, val in branch_conditions(cfg, rn.id) if val is False}
                        ends_ok = f"not {A_} or {A_}[0].start() != 0 or {A_}[-1].end() != len({P_})" in falses
                        gaps_ok = any(f_.startswith("any((") and f".end() != " in f_ and f".start() for " in f_ and f"in zip({A_}, {A_}[1:])))" in f_ for f_ in falses)
                        if isinstance(atom_rx, str) and ends_ok and gaps_ok:
                            shape = ("re.fullmatch", "(?:" + re.sub(r"\(\?P<[A-Za-z_][A-Za-z0-9_]*>", "(?:", atom_rx) + ")+")
        ok = False
        detail = "no dominating re.fullmatch/re.match shape test with a constant regex"
        if shape is not None:
            how, pat = shape
            whole = how == "re.fullmatch" or (pat.startswith("^") and pat.endswith("$"))
            try:
                b1 = rx.Builder(A)
                s1 = rx.Sim(b1.finish(b1.regex(pat)), A)
                b2 = rx.Builder(A)
                s2 = rx.Sim(b2.finish(b2.regex(safe_seq)), A)
                w = rx.not_included_witness(s1, s2, A)
            except rx.Unsupported as e:
                w = f"<untranslatable: {e}>"
            ok = whole and w is None
            detail = f"shape {pat!r} ({how}): whole-string={whole}; a pattern it admits that is not a GBNF-safe class sequence: {w!r}"
        run.instance("R12.1", gm.loc(rn.ast), f"_compile_regex: `{norm(rn.ast)}` only under a GBNF-safe shape test ({detail})", ok=ok)
        if not ok:
            run.violation("R12.1", gm, fi.qualname, rn.ast, f"regex text flows into the grammar without having been proved to be GBNF syntax: {detail} (REGEX[\"^abc$\"] would become the undefined rule reference abc)")


def _constant_rules(run: Run, gm: Module, cs: FuncInfo) -> None:
    cfg = CFG(cs.node)
    defs: dict[str, list[int]] = {}
    refs: dict[tuple[str, int], set[str]] = {}
    for node in cfg.nodes:
        if node.ast is None or node.kind != "stmt":
            continue
        for c in ast.walk(node.ast):
            if isinstance(c, ast.Call) and isinstance(c.func, ast.Attribute) and c.func.attr == "append" and is_name(c.func.value, "rules") and c.args:
                a = c.args[0]
                text = None
                if isinstance(a, ast.Constant) and isinstance(a.value, str):
                    text = a.value
                elif isinstance(a, ast.JoinedStr):
                    text = "".join(str(v.value) if isinstance(v, ast.Constant) else "\x00" for v in a.values)
                if not text:
                    continue
                m = RULE_DEF.match(text)
                if m and "\x00" not in m.group(1):
                    defs.setdefault(m.group(1), []).append(node.id)
                    refs.setdefault((m.group(1), node.id), set()).update(r for r in refs_of(m.group(2).replace("\x00", " ")))
    if "root" not in defs:
        run.instance("R12.3", gm.loc(cs.node), "root is defined", ok=False)
        run.violation("R12.3", gm, cs.qualname, "root ::= ...", "compile_schema never defines the root rule")
        return
    # root on every path
    root_nodes = set(defs["root"])
    w = cfg.all_paths_pass(cfg.entry, cfg.exit, lambda n: n.id in root_nodes, {"x"})
    run.instance("R12.3", gm.loc(cs.node), "root ::= ... is appended on every path to the return", ok=w is None)
    if w is not None:
        run.violation("R12.3", gm, cs.qualname, "root ::= document on every path", "there is a path through compile_schema that returns a grammar without a root rule", path=cfg.describe_path(w, gm.relpath))
    # references: each referenced name is defined on every path on which the referencing rule is defined
    for (name, dn0), rs in sorted(refs.items()):
        for r in sorted(rs):
            if r not in defs:
                run.instance("R12.3", gm.loc(cs.node), f"rule `{name}` references `{r}`", ok=False)
                run.violation("R12.3", gm, cs.qualname, f"{name} ::= ... {r} ...", f"the constant rule `{name}` references `{r}`, which compile_schema never defines")
                continue
            ok = True
            for dn in [dn0]:
                # some definition of r lies on every path entry->exit that passes dn
                rn = set(defs[r])
                before = cfg.all_paths_pass(cfg.entry, dn, lambda n: n.id in rn, {"x"}) is None
                after = cfg.all_paths_pass(dn, cfg.exit, lambda n: n.id in rn, {"x"}) is None
                ok = ok and (before or after)
            run.instance("R12.3", gm.loc(cs.node), f"rule `{name}` references `{r}`, defined on every path that defines `{name}`", ok=ok)
            if not ok:
                run.violation("R12.3", gm, cs.qualname, f"{name} ::= ... {r} ...", f"`{r}` is referenced by `{name}` but is not defined on every path on which `{name}` is")
    # no structural rule twice on one path
    for name, nodes in sorted(defs.items()):
        dup = False
        for a in nodes:
            for b in nodes:
                if a != b and cfg.path_exists(a, b, {"x"}):
                    dup = True
        run.instance("R12.3", gm.loc(cs.node), f"structural rule `{name}` is defined at most once per path ({len(nodes)} site(s))", ok=not dup)
        if dup:
            run.violation("R12.3", gm, cs.qualname, f"{name} ::= (twice)", f"the structural rule `{name}` can be defined twice in one grammar")
