"""C20 Any text is either read or cleanly refused; tools never raise.

Decided here (necessary structural conditions; see DESIGN.md for what is not decided):
  R20.1  scanner progress: every cycle of tokenize's main loop strictly increases `pos`
  R20.1b every other while loop of the package has a recognised termination argument; no for loop grows its own iterable
  R20.2  no token regex can match the empty string
  R20.3  parser progress: every cycle of every Parser loop consumes a token or leaves the loop
  R20.4  recursion: parser recursion passes a depth cap that raises ParserError; other recursions descend structurally
  R20.5  exception escape: only LexerError/ParserError leave the reader entry points, nothing leaves a tool execute()
  R20.5c values taken from a document's META are type-guarded before a type-specific operation
  R20.6  no input-proportional work per token inside the scanner's main loop; R20.6b the same for the Parser's token list
  R20.7  no token regex iterates ambiguously (exponential backtracking)
  R20.8  every single-character index into the scanned text is bounds-guarded
"""
from __future__ import annotations

import ast
import re._constants as sc  # type: ignore[import-not-found]
import re._parser as sp  # type: ignore[import-not-found]

from .. import rx
from ..cfg import CFG, branch_conditions
from ..excflow import ExcFlow, Origin
from ..fsmodel import is_name
from ..pathstate import Explorer, assigned as _assigned, conjuncts as _conjuncts, expression_context_facts, names_of_text as _names_of_text
from ..progress import ParserModel, counter_loop_ok
from ..report import Run
from ..resolve import Resolver
from ..source import AnalysisError, EnumRef, FuncInfo, Module, RegexConst, enum_members, norm, walk_no_nested

READER_ENTRIES = [("core.lexer", "tokenize"), ("core.parser", "parse"), ("core.parser", "parse_with_warnings"), ("core.parser", "parse_meta_only")]
TOOL_ENTRIES = [("mcp.validate", "ValidateTool.execute"), ("mcp.write", "WriteTool.execute"), ("mcp.eject", "EjectTool.execute"), ("mcp.compile_grammar", "CompileGrammarTool.execute")]
READER_ALLOWED = {"LexerError", "ParserError"}

# exception origins that cannot occur, one named construct each, with the reason (confirmed by reading)
ESCAPE_EXEMPT = {
    ("core.lexer:*", "content.index('\\n', span_start)"): "a fence span always covers an opening and a closing fence line joined by newlines (R20.1 fence-span obligation), so the newline is found",
    ("core.lexer:*", "content.rindex('\\n', span_start, span_end)"): "same: the span contains the newline before the closing fence line",
    ("core.schema_extractor:InheritanceResolver.resolve_target", "raise DepthLimitError"): "the path is '<section key>.<field name>' built by the validator from names of the packaged schema and block keys matched against it; it has 2 components plus the dots of a schema-declared name, far below MAX_DEPTH=100",
    ("mcp.eject:EjectTool.execute", "json.dumps(data"): "data is the result of _ast_to_dict, whose converters return only dict/list/str/int/float/bool/None for every node and value kind (C14 R14.1 decides the exhaustiveness); nesting is bounded by the parser caps (R20.4)",
    ("mcp.eject:EjectTool.execute", "yaml.dump(data"): "same data as the JSON format: plain JSON-typed containers of capped depth, which the YAML representer accepts",
    ("core.emitter:emit_value", "raise ValueError"): "raised only for the Absent sentinel, which emit()/emit_block filter before calling emit_value (C02/C15 rules); tool inputs never contain Absent (it is not constructible from OCTAVE text or JSON)",
}


def _stmt_text(n: ast.AST) -> str:
    return " ".join(ast.unparse(n).split())


# ======================================================================================= regex rules
def _collect_input_regexes(run: Run) -> list[tuple[Module, str, str, int]]:
    """(module, name, pattern, flags) of every regex the lexer and parser apply to input text"""
    out = []
    lx = run.project.mod("core.lexer")
    tp = run.project.const(lx, "TOKEN_PATTERNS")
    for i, entry in enumerate(tp):
        out.append((lx, f"TOKEN_PATTERNS[{i}] {entry[1].member if isinstance(entry[1], EnumRef) else entry[1]}", entry[0], 0))
    for short in ("core.lexer", "core.parser"):
        m = run.project.mod(short)
        for st in m.tree.body:
            if isinstance(st, (ast.Assign, ast.AnnAssign)):
                tgt = st.targets[0] if isinstance(st, ast.Assign) else st.target
                if isinstance(tgt, ast.Name) and st.value is not None:
                    v = run.project.try_fold(m, st.value)
                    if isinstance(v, RegexConst):
                        out.append((m, tgt.id, v.pattern, v.flags))
        # regexes written inline: re.match(r"...", x) etc.
        for fi in m.functions.values():
            for n in walk_no_nested(fi.node):
                if isinstance(n, ast.Call) and isinstance(n.func, ast.Attribute) and isinstance(n.func.value, ast.Name) and n.func.value.id == "re" and n.func.attr in ("match", "search", "fullmatch", "sub", "findall", "finditer", "split", "compile") and n.args:
                    v = run.project.try_fold(m, n.args[0])
                    if isinstance(v, str):
                        out.append((m, f"{fi.qualname}: re.{n.func.attr}", v, 0))
    return out


def _unbounded_repeats(items, path=""):
    """yield (description, body items) for every unbounded repeat in a parsed regex, recursively"""
    for i, (op, av) in enumerate(items):
        if op in (sc.MAX_REPEAT, sc.MIN_REPEAT):
            lo, hi, sub = av
            if hi is sc.MAXREPEAT:
                yield f"{path}/{i}", list(sub), lo
            yield from _unbounded_repeats(list(sub), f"{path}/{i}")
        elif op is sc.SUBPATTERN:
            yield from _unbounded_repeats(list(av[3]), f"{path}/{i}")
        elif op is sc.BRANCH:
            for j, alt in enumerate(av[1]):
                yield from _unbounded_repeats(list(alt), f"{path}/{i}|{j}")
        elif op in (sc.ASSERT, sc.ASSERT_NOT):
            yield from _unbounded_repeats(list(av[1]), f"{path}/{i}?")


def _contains_repeat_or_branch(items) -> bool:
    for op, av in items:
        if op in (sc.MAX_REPEAT, sc.MIN_REPEAT):
            lo, hi, sub = av
            if hi is sc.MAXREPEAT or hi > 1:
                return True
            if _contains_repeat_or_branch(list(sub)):
                return True
        elif op is sc.SUBPATTERN:
            if _contains_repeat_or_branch(list(av[3])):
                return True
        elif op is sc.BRANCH:
            return True
    return False


def ambiguous_iteration(alphabet: rx.Alphabet, body, flags: int) -> str | None:
    """a string that one iteration of `body` matches and two-or-more iterations match as well (None if there is none)"""
    b1 = rx.Builder(alphabet, ignore_lookaround=True)
    s1 = rx.Sim(b1.finish(b1._items(body, flags)), alphabet, begin_is_string_start=False)
    b2 = rx.Builder(alphabet, ignore_lookaround=True)
    fr = b2.seq(b2._items(body, flags), b2._items(body, flags), b2.star(b2._items(body, flags)))
    s2 = rx.Sim(b2.finish(fr), alphabet, begin_is_string_start=False)
    b3 = rx.Builder(alphabet)
    s3 = rx.Sim(b3.finish(b3.seq(b3.sym(b3.all), b3.star(b3.sym(b3.all)))), alphabet, begin_is_string_start=False)  # non-empty strings only
    return rx.search_n([s1, s2, s3], alphabet, lambda v: v[0] and v[1] and v[2], need=(0, 1, 2))


def check_regexes(run: Run) -> None:
    run.rule("R20.2", "no token regex matches the empty string (minimum width >= 1), so `pos = match.end()` after a successful match moves forward", 30)
    run.rule("R20.7", "no regex applied to input text has an unbounded repeat whose body can match one string both as one iteration and as several (exponential backtracking when the overall match fails)", 15)
    regs = _collect_input_regexes(run)
    extra = set()
    for _m, _n, pat, _f in regs:
        extra |= {c for c in pat if ord(c) >= 128}
    alphabet = rx.Alphabet(extra)
    for m, name, pat, flags in regs:
        try:
            tree = sp.parse(pat, flags)
        except Exception as e:  # noqa: BLE001
            run.violation("R20.2", m, name.split(":")[0], f"regex {name}", f"pattern does not parse: {e}")
            continue
        if name.startswith("TOKEN_PATTERNS"):
            lo, _hi = tree.getwidth()
            ok = lo >= 1
            run.instance("R20.2", f"{m.relpath}:{name}", f"minimum width {lo}", ok=ok)
            if not ok:
                run.violation("R20.2", m, "<module>", f"{name} regex", f"token pattern {pat!r} can match the empty string: `pos = match.end()` would not advance and tokenize() would loop forever", pattern=pat)
        for where, body, lo in _unbounded_repeats(list(tree)):
            trivially_fine = not _contains_repeat_or_branch(body) and sp.SubPattern(tree.state, body).getwidth() == (1, 1)
            if trivially_fine:
                run.instance("R20.7", f"{m.relpath}:{name}{where}", "single-width body without alternation", nontrivial=False)
                continue
            try:
                w = ambiguous_iteration(alphabet, body, flags)
            except rx.Unsupported as e:
                run.instance("R20.7", f"{m.relpath}:{name}{where}", f"not analysable: {e}", nontrivial=False)
                run.note(f"R20.7: {name}{where}: body not translatable ({e}); not decided")
                continue
            run.instance("R20.7", f"{m.relpath}:{name}{where}", "iteration unambiguous" if w is None else f"ambiguous on {rx.show(w, alphabet)!r}", ok=w is None)
            if w is not None:
                run.violation("R20.7", m, "<module>", f"{name.split(' ')[0] if name.startswith('TOKEN') else name} repeat{where}", f"in {pat!r} the repeated group matches {rx.show(w, alphabet)!r} both as one iteration and as several: on input where the rest of the pattern fails the regex engine tries every split (2^n steps) - tokenize() hangs instead of raising LexerError", pattern=pat, witness=rx.show(w, alphabet))
    # positive control: the textbook ambiguous iteration must be recognised
    ctl = sp.parse(r'"(?:[^"\\]+|\\.)*"')
    hits = [ambiguous_iteration(alphabet, body, 0) for _w, body, _lo in _unbounded_repeats(list(ctl)) if _contains_repeat_or_branch(body)]
    run.control("R20.7", 'control regex "(?:[^"\\\\]+|\\\\.)*" has an ambiguous iteration', any(h for h in hits))


# ======================================================================================= scanner progress
class ScanProgress:
    """DFS over the simple paths of tokenize's main loop body that do not strictly increase `pos`."""

    def __init__(self, run: Run, fi: FuncInfo, var: str = "pos"):
        self.run = run
        self.fi = fi
        self.var = var
        self.cfg = CFG(fi.node)
        self.fence_ok, self.fence_why = self._fence_reason()
        self.lockstep_ok, self.lockstep_why = self._lockstep_reason()
        self.unrecognised: list[ast.AST] = []

    # -- reasons for the two non-obvious updates ------------------------------------------------
    def _fence_reason(self) -> tuple[bool, str]:
        """`pos = span_end` under `pos == fence_spans[i][0]`: every recorded span (start, end, ...) has end > start.
        Decided on the offset arithmetic of _normalize_with_fence_detection: the offset variable only grows; `start` is a copy of
        it; `end` is the offset at the append minus a constant c (or plus a length); on every CFG path from the binding of
        `start` to the append the offset is strictly increased at least c + 1 times (0-1 shortest path over the CFG)."""
        lx = self.fi.module
        if not lx.has_func("_normalize_with_fence_detection"):
            return False, "_normalize_with_fence_detection not found"
        nf = lx.func("_normalize_with_fence_detection")
        cfg = CFG(nf.node)
        appends = [n for n in cfg.nodes if n.kind == "stmt" and n.ast is not None and any(isinstance(c, ast.Call) and isinstance(c.func, ast.Attribute) and c.func.attr == "append" and isinstance(c.func.value, ast.Name) and c.func.value.id == "fence_spans" for c in walk_no_nested(n.ast))]
        if not appends:
            return False, "no fence_spans.append"

        def single_def(name: str):
            ds = [n for n in walk_no_nested(nf.node) if isinstance(n, ast.Assign) and len(n.targets) == 1 and isinstance(n.targets[0], ast.Name) and n.targets[0].id == name and not isinstance(n.value, (ast.Constant, ast.UnaryOp))]
            return ds

        for ap in appends:
            call = next(c for c in walk_no_nested(ap.ast) if isinstance(c, ast.Call) and isinstance(c.func, ast.Attribute) and c.func.attr == "append")
            t = call.args[0] if call.args else None
            if not (isinstance(t, ast.Tuple) and len(t.elts) >= 2 and isinstance(t.elts[0], ast.Name)):
                return False, "appended span is not a tuple (start, end, ...)"
            start = t.elts[0].id
            end = t.elts[1]
            if isinstance(end, ast.Name):
                ds = single_def(end.id)
                if len(ds) != 1:
                    return False, f"span end `{end.id}` has {len(ds)} definitions"
                # the name stands for its defining expression only if that was evaluated in the same block as the append, with
                # the offset untouched in between (otherwise it is an older value of the offset, e.g. the span start itself)
                blk = _block_of(nf.node, ap.ast)
                if blk is None or ds[0] not in blk or blk.index(ds[0]) > blk.index(ap.ast) or any(isinstance(x, (ast.AugAssign, ast.Assign)) and any(isinstance(y, ast.Name) and isinstance(y.ctx, ast.Store) for y in ast.walk(x)) and "offset" in ast.unparse(x.targets[0] if isinstance(x, ast.Assign) else x.target) for x in blk[blk.index(ds[0]) + 1: blk.index(ap.ast)]):
                    return False, f"span end `{end.id}` is not computed from the offset at the time of the append"
                end = ds[0].value
            # end = OFF - c | OFF + <len or non-negative const> | OFF
            off, c = None, None
            if isinstance(end, ast.Name):
                off, c = end.id, 0
            elif isinstance(end, ast.BinOp) and isinstance(end.left, ast.Name) and isinstance(end.op, ast.Sub) and isinstance(end.right, ast.Constant) and isinstance(end.right.value, int):
                off, c = end.left.id, end.right.value
            elif isinstance(end, ast.BinOp) and isinstance(end.left, ast.Name) and isinstance(end.op, ast.Add) and ((isinstance(end.right, ast.Call) and ast.unparse(end.right.func) == "len") or (isinstance(end.right, ast.Constant) and isinstance(end.right.value, int) and end.right.value >= 0)):
                off, c = end.left.id, 0
            if off is None:
                return False, f"span end `{ast.unparse(end)}` is not the running offset plus/minus a constant or a length"

            def growth(st: ast.AST) -> int | None:
                """None: not a write of the offset; 0: grows by >= 0; 1: grows by >= 1; -1: anything else"""
                if isinstance(st, ast.AugAssign) and isinstance(st.target, ast.Name) and st.target.id == off:
                    v = st.value
                    if isinstance(st.op, ast.Add):
                        if isinstance(v, ast.BinOp) and isinstance(v.op, ast.Add) and any(isinstance(x, ast.Call) and ast.unparse(x.func) == "len" for x in (v.left, v.right)) and any(isinstance(x, ast.Constant) and isinstance(x.value, int) and x.value >= 1 for x in (v.left, v.right)):
                            return 1
                        if isinstance(v, ast.Constant) and isinstance(v.value, int) and v.value >= 1:
                            return 1
                        if isinstance(v, ast.Call) and ast.unparse(v.func) == "len":
                            return 0
                    return -1
                if isinstance(st, ast.Assign) and any(isinstance(x, ast.Name) and x.id == off for x in st.targets):
                    return 0 if (isinstance(st.value, ast.Constant) and st.value.value == 0 and not _inside_loop(st)) else -1
                return None

            weights: dict[int, int] = {}
            for n in cfg.nodes:
                if n.kind == "stmt" and n.ast is not None:
                    g = growth(n.ast)
                    if g == -1:
                        return False, f"`{_stmt_text(n.ast)}` does not only grow the offset"
                    if g is not None:
                        weights[n.id] = g
            binds = [n for n in cfg.nodes if n.kind == "stmt" and isinstance(n.ast, ast.Assign) and any(isinstance(x, ast.Name) and x.id == start for x in n.ast.targets) and not isinstance(n.ast.value, (ast.Constant, ast.UnaryOp))]
            if not binds:
                return False, "span start is never bound"
            for b in binds:
                if not (isinstance(b.ast.value, ast.Name) and b.ast.value.id == off):
                    return False, f"`{_stmt_text(b.ast)}`: span start is not a copy of the offset"
                # 0-1 shortest path b -> ap counting strict growths
                import heapq

                dist = {b.id: 0}
                heap = [(0, b.id)]
                while heap:
                    d, u = heapq.heappop(heap)
                    if d > dist.get(u, 1 << 30):
                        continue
                    for v2, lab in cfg.succ[u]:
                        if lab == "x":
                            continue
                        w = 1 if weights.get(v2, 0) == 1 and v2 != ap.id else 0
                        if d + w < dist.get(v2, 1 << 30):
                            dist[v2] = d + w
                            heapq.heappush(heap, (d + w, v2))
                if ap.id not in dist:
                    continue
                if dist[ap.id] <= c:
                    return False, f"a path from `{_stmt_text(b.ast)}` to the append grows the offset only {dist[ap.id]} time(s) by >= 1 while the end is offset - {c}: end > start is not guaranteed"
        return True, "spans are (copy of the running offset, offset -/+ a bound quantity) and every path between the two grows the offset strictly often enough: end > start"

    def _lockstep_reason(self) -> tuple[bool, str]:
        """`pos = suffix_pos`: suffix_pos - pos == len(suffix) >= 1 is maintained"""
        fn = self.fi.node
        tgt = None
        decremented = {n.target.id for n in walk_no_nested(fn) if isinstance(n, ast.AugAssign) and isinstance(n.target, ast.Name) and not isinstance(n.op, ast.Add)}
        for n in walk_no_nested(fn):
            if isinstance(n, ast.Assign) and len(n.targets) == 1 and isinstance(n.targets[0], ast.Name) and n.targets[0].id == self.var and isinstance(n.value, ast.Name) and n.value.id in decremented:
                tgt = n.value.id
        self.counter = tgt
        if tgt is None:
            return True, "no `pos = <counter>` update with a counter that is also decremented"
        P = tgt
        inits = [n for n in walk_no_nested(fn) if isinstance(n, ast.Assign) and len(n.targets) == 1 and isinstance(n.targets[0], ast.Name) and n.targets[0].id == P]
        if len(inits) != 1 or not (isinstance(inits[0].value, ast.BinOp) and isinstance(inits[0].value.op, ast.Add) and isinstance(inits[0].value.left, ast.Name) and inits[0].value.left.id == self.var and isinstance(inits[0].value.right, ast.Constant) and isinstance(inits[0].value.right.value, int) and inits[0].value.right.value >= 1):
            return False, f"`{P}` is not initialised as `{self.var} + k` (k >= 1) exactly once"
        k = inits[0].value.right.value
        decs = [n for n in walk_no_nested(fn) if isinstance(n, ast.AugAssign) and isinstance(n.target, ast.Name) and n.target.id == P and not isinstance(n.op, ast.Add)]
        incs = [n for n in walk_no_nested(fn) if isinstance(n, ast.AugAssign) and isinstance(n.target, ast.Name) and n.target.id == P and isinstance(n.op, ast.Add)]
        for n in incs:
            if not (isinstance(n.value, ast.Constant) and isinstance(n.value.value, int) and n.value.value >= 0):
                return False, f"`{_stmt_text(n)}` is not a constant increment"
        if not decs:
            return True, f"`{P}` starts at {self.var}+{k} and is only incremented"
        # decrements must be in lockstep with a string S: S starts with len k, grows by one char with each increment, shrinks by one
        # with each decrement, and the shrinking loop keeps len(S) > k - 1 >= 0  =>  P - pos == len(S) >= 1
        blk_init = _block_of(fn, inits[0])
        S = None
        if blk_init is not None:
            for s in blk_init:
                if isinstance(s, ast.Assign) and len(s.targets) == 1 and isinstance(s.targets[0], ast.Name) and isinstance(s.value, ast.Constant) and isinstance(s.value.value, str) and len(s.value.value) == k:
                    cand = s.targets[0].id
                    if any(isinstance(n, ast.Assign) and isinstance(n.targets[0], ast.Name) and n.targets[0].id == cand and isinstance(n.value, ast.Subscript) for n in walk_no_nested(fn)):
                        S = cand
        if S is None:
            return False, f"`{P}` is decremented but no string of initial length {k} moves in lockstep with it"
        for d in decs:
            if not (isinstance(d.op, ast.Sub) and isinstance(d.value, ast.Constant) and d.value.value == 1):
                return False, f"`{_stmt_text(d)}` is not `-= 1`"
            blk = _block_of(fn, d)
            shr = [s for s in (blk or []) if isinstance(s, ast.Assign) and isinstance(s.targets[0], ast.Name) and s.targets[0].id == S and ast.unparse(s.value) == f"{S}[:-1]"]
            if len(shr) != 1:
                return False, f"decrement of `{P}` is not paired with `{S} = {S}[:-1]`"
            loop = getattr(d, "_parent", None)
            if not isinstance(loop, ast.While):
                return False, f"decrement of `{P}` is not directly inside a while loop"
            conj = loop.test.values if isinstance(loop.test, ast.BoolOp) and isinstance(loop.test.op, ast.And) else [loop.test]
            if not any(ast.unparse(c) == f"len({S}) > {k}" for c in conj):
                return False, f"shrinking loop is not guarded by `len({S}) > {k}`"
        for n in walk_no_nested(fn):
            if isinstance(n, (ast.Assign, ast.AugAssign)):
                t = n.targets[0] if isinstance(n, ast.Assign) else n.target
                if isinstance(t, ast.Name) and t.id == S:
                    txt = _stmt_text(n)
                    if isinstance(n, ast.Assign) and (isinstance(n.value, ast.Constant) or ast.unparse(n.value) == f"{S}[:-1]"):
                        continue
                    if isinstance(n, ast.AugAssign) and isinstance(n.op, ast.Add) and isinstance(n.value, ast.Subscript) and not isinstance(n.value.slice, ast.Slice):
                        blk = _block_of(fn, n)
                        if any(s in incs and s.value.value == 1 for s in (blk or [])):
                            continue
                    return False, f"`{txt}` breaks the lockstep between `{S}` and `{P}`"
        for n in incs:
            blk = _block_of(fn, n)
            if not any(isinstance(s, ast.AugAssign) and isinstance(s.target, ast.Name) and s.target.id == S for s in (blk or [])):
                return False, f"`{_stmt_text(n)}` is not paired with a growth of `{S}`"
        return True, f"`{P} - {self.var} == len({S})` is maintained by paired updates and the shrinking loop keeps len({S}) > {k - 1}"

    # -- classification of one statement --------------------------------------------------------
    def progress(self, node_ast: ast.AST, facts: frozenset[str]) -> bool | None:
        """True: strictly increases pos; False: does not touch pos; None: touches pos in an unrecognised way"""
        v = self.var
        touched = False
        result = False
        for n in walk_no_nested(node_ast):
            if isinstance(n, ast.AugAssign) and isinstance(n.target, ast.Name) and n.target.id == v:
                touched = True
                if isinstance(n.op, ast.Add) and (self.nn(n.value, facts) or 0) >= 1:
                    result = True  # += k (k >= 1), += len(x) on a path where x is known to be non-empty, += <local known positive>
                else:
                    return None
            elif isinstance(n, ast.Assign) and len(n.targets) == 1 and isinstance(n.targets[0], ast.Tuple) and any(isinstance(t, ast.Name) and t.id == v for t in n.targets[0].elts) and isinstance(n.value, ast.Call) and isinstance(n.value.func, ast.Name):
                # pos, ... = helper(..., fence_spans[i], ...): the helper returns a position at or past the end of that span
                touched = True
                k = [i for i, t in enumerate(n.targets[0].elts) if isinstance(t, ast.Name) and t.id == v][0]
                if self.fence_ok and any(f.startswith(f"{v} == fence_spans[") and f.endswith("][0]") for f in facts) and self._helper_returns_past_span(n.value, k):
                    result = True
                else:
                    return None
            elif isinstance(n, ast.Assign) and any(isinstance(t, ast.Name) and t.id == v for t in n.targets):
                touched = True
                if (self.lb(n.value, facts) or 0) >= 1:
                    result = True  # pos = <expression known to exceed pos on this path>
                elif isinstance(n.value, ast.Name) and n.value.id == self.counter and self.lockstep_ok:
                    result = True
                else:
                    return None
            elif isinstance(n, (ast.NamedExpr,)) and isinstance(n.target, ast.Name) and n.target.id == v:
                return None
        return result if touched else False

    def _helper_returns_past_span(self, call: ast.Call, k: int) -> bool:
        """call = helper(..., fence_spans[i], ...); element k of every returned tuple is the span's end (index 1 of the span
        parameter, unpacked), only ever increased afterwards"""
        lx = self.fi.module
        if not lx.has_func(call.func.id):  # type: ignore[union-attr]
            return False
        h = lx.func(call.func.id).node  # type: ignore[union-attr]
        params = [a.arg for a in h.args.args]  # type: ignore[attr-defined]
        span_params = [params[i] for i, a in enumerate(call.args) if i < len(params) and ast.unparse(a).startswith("fence_spans[")]
        if len(span_params) != 1:
            return False
        sp = span_params[0]
        ends = set()
        for n in walk_no_nested(h):
            if isinstance(n, ast.Assign) and len(n.targets) == 1 and isinstance(n.targets[0], ast.Tuple) and isinstance(n.value, ast.Name) and n.value.id == sp and len(n.targets[0].elts) >= 2 and isinstance(n.targets[0].elts[1], ast.Name):
                ends.add(n.targets[0].elts[1].id)
        rets = [r for r in walk_no_nested(h) if isinstance(r, ast.Return)]
        if not rets or not ends:
            return False
        for r in rets:
            if not (isinstance(r.value, ast.Tuple) and k < len(r.value.elts) and isinstance(r.value.elts[k], ast.Name)):
                return False
            pv = r.value.elts[k].id
            if pv in ends:
                continue
            writes = [n for n in walk_no_nested(h) if (isinstance(n, ast.Assign) and any(isinstance(t, ast.Name) and t.id == pv for t in n.targets)) or (isinstance(n, ast.AugAssign) and isinstance(n.target, ast.Name) and n.target.id == pv)]
            if not writes:
                return False
            for w in writes:
                if isinstance(w, ast.Assign) and isinstance(w.value, ast.Name) and w.value.id in ends:
                    continue
                if isinstance(w, ast.AugAssign) and isinstance(w.op, ast.Add) and isinstance(w.value, ast.Constant) and isinstance(w.value.value, int) and w.value.value >= 0:
                    continue
                return False
        return True

    def _match_from_pos(self, m: str = "match") -> bool:
        """every binding of the match object is `<pattern>.match(content, pos)` (anchored at pos; the patterns' non-nullability is
        R20.2's obligation)"""
        cache = self.__dict__.setdefault("_mfp", {})
        if m not in cache:
            ds = [n.value for n in walk_no_nested(self.fi.node) if (isinstance(n, ast.Assign) and any(isinstance(t, ast.Name) and t.id == m for t in n.targets)) or (isinstance(n, ast.NamedExpr) and isinstance(n.target, ast.Name) and n.target.id == m)]
            cache[m] = bool(ds) and all(isinstance(d, ast.Call) and isinstance(d.func, ast.Attribute) and d.func.attr == "match" and ast.unparse(d.func.value) == "pattern" and len(d.args) == 2 and ast.unparse(d.args[0]) == "content" and ast.unparse(d.args[1]) == self.var and not d.keywords for d in ds)
            if not cache[m] and ds:
                # a module-level compiled regex applied at pos: `<RE>.match(content, pos)` with a pattern of minimum width >= 1
                def _const_re_at_pos(d: ast.AST) -> bool:
                    if not (isinstance(d, ast.Call) and isinstance(d.func, ast.Attribute) and d.func.attr == "match" and isinstance(d.func.value, ast.Name) and len(d.args) == 2 and ast.unparse(d.args[1]) == self.var):
                        return False
                    mod = self.fi.module
                    if not mod.has_const(d.func.value.id):
                        return False
                    cn = mod.const_node(d.func.value.id)
                    pat = self.run.project.try_fold(mod, cn.args[0]) if isinstance(cn, ast.Call) and ast.unparse(cn.func) == "re.compile" and len(cn.args) == 1 else None
                    if not isinstance(pat, str):
                        return False
                    try:
                        return sp.parse(pat).getwidth()[0] >= 1
                    except Exception:
                        return False

                cache[m] = all(_const_re_at_pos(d) for d in ds)
        return cache[m]

    # -- lower bounds relative to pos (facts `X > pos`, `X >= pos`, `X > 0` carried along the path) ----------------
    def nn(self, e: ast.AST, facts: frozenset[str]) -> int | None:
        """k such that the integer expression e >= k >= 0 on this path, None when unknown"""
        if isinstance(e, ast.Constant) and isinstance(e.value, int) and not isinstance(e.value, bool) and e.value >= 0:
            return e.value
        if isinstance(e, ast.Call) and ast.unparse(e.func) == "len" and len(e.args) == 1:
            a = ast.unparse(e.args[0])
            return 1 if a in facts or f"{a} != ''" in facts else 0
        if isinstance(e, ast.Name):
            return 1 if (f"{e.id} > 0" in facts or f"{e.id} >= 1" in facts) else (0 if f"{e.id} >= 0" in facts else None)
        if isinstance(e, ast.BinOp) and isinstance(e.op, ast.Add):
            a, b = self.nn(e.left, facts), self.nn(e.right, facts)
            return a + b if a is not None and b is not None else None
        if isinstance(e, ast.BinOp) and isinstance(e.op, ast.Sub) and isinstance(e.right, ast.Name) and e.right.id == self.var:
            return self.lb(e.left, facts)  # X - pos
        if isinstance(e, ast.IfExp):
            a, b = self.nn(e.body, facts | frozenset(_conjuncts(e.test, True))), self.nn(e.orelse, facts | frozenset(_conjuncts(e.test, False)))
            return min(a, b) if a is not None and b is not None else None
        if isinstance(e, ast.Call) and isinstance(e.func, ast.Name) and e.func.id == "max" and e.args and not e.keywords:
            ks = [k for k in (self.nn(a, facts) for a in e.args) if k is not None]
            return max(ks) if ks else None
        if isinstance(e, ast.NamedExpr):
            return self.nn(e.value, facts)
        return None

    def lb(self, e: ast.AST, facts: frozenset[str]) -> int | None:
        """k such that e >= pos + k on this path (pos not written since the facts were established), None when unknown"""
        v = self.var
        if isinstance(e, ast.Name):
            if e.id == v:
                return 0
            if f"{e.id} > {v}" in facts:
                return 1
            if f"{e.id} >= {v}" in facts:
                return 0
            # a local bound once, in the same block as its use and with no write of pos in between, stands for its definition
            defs = [a for a in walk_no_nested(self.fi.node) if isinstance(a, ast.Assign) and len(a.targets) == 1 and isinstance(a.targets[0], ast.Name) and a.targets[0].id == e.id]
            others = [a for a in walk_no_nested(self.fi.node) if isinstance(a, (ast.AugAssign, ast.AnnAssign, ast.NamedExpr)) and isinstance(a.target, ast.Name) and a.target.id == e.id]
            if len(defs) == 1 and not others and not self.__dict__.get("_lb_depth", 0):
                blk = _block_of(self.fi.node, defs[0])
                use = e
                while use is not None and not isinstance(use, ast.stmt):
                    use = getattr(use, "_parent", None)
                if blk is not None and use in blk and blk.index(defs[0]) < blk.index(use):
                    between = blk[blk.index(defs[0]) + 1: blk.index(use)]
                    if not any(isinstance(x, (ast.Assign, ast.AugAssign)) and any(isinstance(t, ast.Name) and t.id == v for t in ast.walk(x) if isinstance(getattr(t, "ctx", None), ast.Store)) for st in between for x in ast.walk(st)):
                        self.__dict__["_lb_depth"] = 1
                        try:
                            return self.lb(defs[0].value, facts)
                        finally:
                            self.__dict__["_lb_depth"] = 0
            return None
        if isinstance(e, ast.BinOp) and isinstance(e.op, ast.Add):
            for a, b in ((e.left, e.right), (e.right, e.left)):
                ka, kb = self.lb(a, facts), self.nn(b, facts)
                if ka is not None and kb is not None:
                    return ka + kb
            return None
        if isinstance(e, ast.IfExp):
            a, b = self.lb(e.body, facts | frozenset(_conjuncts(e.test, True))), self.lb(e.orelse, facts | frozenset(_conjuncts(e.test, False)))
            return min(a, b) if a is not None and b is not None else None
        if isinstance(e, ast.Call) and isinstance(e.func, ast.Name) and e.func.id == "max" and e.args and not e.keywords:
            ks = [k for k in (self.lb(a, facts) for a in e.args) if k is not None]
            return max(ks) if ks else None
        if isinstance(e, ast.Call) and isinstance(e.func, ast.Name) and e.func.id == "min" and e.args and not e.keywords:
            ks = [self.lb(a, facts) for a in e.args]
            return min(ks) if all(k is not None for k in ks) else None  # type: ignore[type-var]
        if isinstance(e, ast.NamedExpr):
            return self.lb(e.value, facts)
        if isinstance(e, ast.Call) and isinstance(e.func, ast.Attribute) and e.func.attr == "end" and not e.args and isinstance(e.func.value, ast.Name):
            m = e.func.value.id
            return 1 if (m in facts or f"{m} is not None" in facts) and self._match_from_pos(m) else None  # non-nullable match anchored at pos
        if isinstance(e, ast.Subscript) and isinstance(e.slice, ast.Constant) and e.slice.value == 1 and self._is_guarded_span(e.value, facts):
            return 1  # <span>[1] under pos == <span>[0]
        return None

    def _is_span(self, s: ast.AST) -> bool:
        """s denotes one of the recorded fence spans: fence_spans[...], or a local only ever bound to one (index, loop target,
        next() over iter(fence_spans))"""
        if isinstance(s, ast.Subscript) and isinstance(s.value, ast.Name) and s.value.id == "fence_spans" and not isinstance(s.slice, ast.Slice):
            return True
        if not isinstance(s, ast.Name):
            return False
        fn = self.fi.node
        defs = [a.value for a in walk_no_nested(fn) if isinstance(a, ast.Assign) and any(isinstance(t, ast.Name) and t.id == s.id for t in a.targets)]
        loops = [f for f in walk_no_nested(fn) if isinstance(f, ast.For) and isinstance(f.target, ast.Name) and f.target.id == s.id]
        others = [a for a in walk_no_nested(fn) if (isinstance(a, (ast.AugAssign, ast.AnnAssign, ast.NamedExpr)) and isinstance(a.target, ast.Name) and a.target.id == s.id) or (isinstance(a, ast.Assign) and any(isinstance(t, (ast.Tuple, ast.List)) and any(isinstance(x, ast.Name) and x.id == s.id for x in ast.walk(t)) for t in a.targets))]
        if others or not (defs or loops):
            return False

        def span_iter(it: ast.AST) -> bool:
            if isinstance(it, ast.Name) and it.id == "fence_spans":
                return True
            if isinstance(it, ast.Call) and isinstance(it.func, ast.Name) and it.func.id == "iter" and len(it.args) == 1:
                return span_iter(it.args[0])
            if isinstance(it, ast.Name):
                ds = [a.value for a in walk_no_nested(fn) if isinstance(a, ast.Assign) and any(isinstance(t, ast.Name) and t.id == it.id for t in a.targets)]
                return bool(ds) and all(span_iter(d) for d in ds if not isinstance(d, ast.Name) or d.id != it.id)
            return False

        for d in defs:
            if isinstance(d, ast.Constant) and d.value is None:
                continue
            if isinstance(d, ast.Subscript) and self._is_span(d) :
                continue
            if isinstance(d, ast.Call) and isinstance(d.func, ast.Name) and d.func.id == "next" and 1 <= len(d.args) <= 2 and span_iter(d.args[0]) and (len(d.args) == 1 or (isinstance(d.args[1], ast.Constant) and d.args[1].value is None)):
                continue
            return False
        return all(span_iter(f.iter) for f in loops)

    def _is_guarded_span(self, s: ast.AST, facts: frozenset[str]) -> bool:
        if not self.fence_ok:
            return False
        txt = ast.unparse(s)
        if not (f"{self.var} == {txt}[0]" in facts or f"{txt}[0] == {self.var}" in facts):
            return False
        return self._is_span(s)

    def gen(self, node, facts: frozenset[str]) -> set[str]:
        """facts established by one statement: `X > pos` / `X >= pos` / `X > 0` for the local X it writes"""
        out: set[str] = set()
        v = self.var
        a = node.ast
        if node.kind != "stmt" or a is None:
            return out
        if isinstance(a, ast.AnnAssign) and a.value is not None and isinstance(a.target, ast.Name):
            tgts, val = [a.target], a.value
        elif isinstance(a, ast.Assign):
            tgts, val = a.targets, a.value
        elif isinstance(a, ast.AugAssign) and isinstance(a.target, ast.Name) and a.target.id != v and isinstance(a.op, ast.Add):
            k = self.nn(a.value, facts)
            if k is not None:
                x = a.target.id
                if f"{x} > {v}" in facts or (f"{x} >= {v}" in facts and k >= 1):
                    out.add(f"{x} > {v}")
                elif f"{x} >= {v}" in facts:
                    out.add(f"{x} >= {v}")
                if f"{x} > 0" in facts or (f"{x} >= 0" in facts and k >= 1):
                    out.add(f"{x} > 0")
            return out
        else:
            return out
        for t in tgts:
            if isinstance(t, ast.Name) and t.id != v:
                k = self.lb(val, facts)
                if k is not None:
                    out.add(f"{t.id} > {v}" if k >= 1 else f"{t.id} >= {v}")
                k2 = self.nn(val, facts)
                if k2 is not None and not isinstance(val, ast.Constant):
                    out.add(f"{t.id} > 0" if k2 >= 1 else f"{t.id} >= 0")
            elif isinstance(t, (ast.Tuple, ast.List)) and len(t.elts) >= 2 and isinstance(t.elts[1], ast.Name) and t.elts[1].id != v and not any(isinstance(x, ast.Starred) for x in t.elts[:2]) and self._is_guarded_span(val, facts):
                out.add(f"{t.elts[1].id} > {v}")  # start, end, ... = <span> under pos == <span>[0]: end > start
        return out

    # -- path search ------------------------------------------------------------------------------
    def search(self, head: int) -> list[list[int]]:
        """paths (as node lists) from the loop head back to it on which pos is not strictly increased"""
        cfg = self.cfg
        hn = cfg.nodes[head]
        ex = Explorer(cfg, gen=self.gen)
        conj0 = frozenset(_conjuncts(hn.ast, True))
        starts = [(s, conj0, ()) for s, lab in cfg.succ[head] if lab == "t"]
        results = []

        def visit(st):
            n, facts, _flags = st
            if n == head:
                results.append(st)
                return "prune"
            node = cfg.nodes[n]
            if node.kind == "stmt" and node.ast is not None:
                pr = self.progress(node.ast, facts)
                if pr is None:
                    self.unrecognised.append(node.ast)
                    results.append(st)
                    return "prune"
                if pr:
                    return "prune"
            return None

        ex.explore(starts, visit)
        self.states = len(ex.parent)
        return [[head] + ex.path_to(st) for st in results]


def _inside_loop(st: ast.AST) -> bool:
    cur = getattr(st, "_parent", None)
    while cur is not None and not isinstance(cur, (ast.FunctionDef, ast.AsyncFunctionDef)):
        if isinstance(cur, (ast.For, ast.While)):
            return True
        cur = getattr(cur, "_parent", None)
    return False


def _block_of(fn: ast.AST, st: ast.AST) -> list[ast.stmt] | None:
    par = getattr(st, "_parent", None)
    if par is None:
        return None
    for f in ("body", "orelse", "finalbody"):
        v = getattr(par, f, None)
        if isinstance(v, list) and st in v:
            return v
    return None


def _stmt_of(fn: ast.AST, n: ast.AST) -> ast.stmt | None:
    cur = n
    while cur is not None and not isinstance(cur, ast.stmt):
        cur = getattr(cur, "_parent", None)
    return cur  # type: ignore[return-value]


def check_scanner(run: Run) -> None:
    run.rule("R20.1", "every path through tokenize's main loop back to its head strictly increases `pos` (`+= k`, `+= len(x)` with x non-empty, `= match.end()` after a non-nullable match at pos, the fence-span and %-suffix updates with their recorded invariants) or raises", 3)
    lx = run.project.mod("core.lexer")
    fi = lx.func("tokenize")
    sp_ = ScanProgress(run, fi)
    cfg = sp_.cfg
    heads = [n for n in cfg.nodes if n.kind == "test" and isinstance(n.owner, ast.While) and ast.unparse(n.ast) == "pos < len(content)" and not isinstance(getattr(n.owner, "_parent", None), (ast.While, ast.For, ast.If))]  # type: ignore[arg-type]
    if len(heads) != 1:
        raise AnalysisError(f"tokenize: expected one top-level `while pos < len(content)` loop, found {len(heads)}")
    head = heads[0]
    run.instance("R20.1", lx.loc(head.owner), f"fence-span update: {sp_.fence_why}", ok=sp_.fence_ok)  # type: ignore[arg-type]
    run.instance("R20.1", lx.loc(head.owner), f"counter update: {sp_.lockstep_why}", ok=sp_.lockstep_ok)  # type: ignore[arg-type]
    if not sp_.fence_ok and sp_.fence_why in ("_normalize_with_fence_detection not found", "no fence_spans.append", "appended span is not a tuple (start, end, ...)"):
        raise AnalysisError(f"_normalize_with_fence_detection: the construction of the fence spans is not in a form this check reads ({sp_.fence_why}); `end > start` for every span is not decided")
    if not sp_.fence_ok:
        run.violation("R20.1", lx, "_normalize_with_fence_detection", "fence span (start, end) with end > start", f"the invariant behind `pos = span_end` does not hold: {sp_.fence_why}")
    if not sp_.lockstep_ok:
        run.violation("R20.1", lx, "tokenize", "pos = <counter> keeps pos increasing", f"the invariant behind the counter update does not hold: {sp_.lockstep_why}")
    bad = list(sp_.search(head.id))
    n_updates = sum(1 for n in cfg.nodes if n.kind == "stmt" and n.ast is not None and sp_.progress(n.ast, frozenset(["match", "unicode_id", "pos == fence_spans[fence_span_idx][0]"])) is not False)
    run.instance("R20.1", lx.loc(head.owner), f"main loop: {n_updates} statements update pos; {len(bad)} cycle(s) without progress", ok=not bad)  # type: ignore[arg-type]
    run.extra["scanner_pos_updates"] = n_updates
    if n_updates < 6:
        raise AnalysisError(f"tokenize: only {n_updates} pos updates recognised (expected >= 6)")
    seen = set()
    for path in bad[:50]:
        last = cfg.nodes[path[-1]]
        # name the cycle by its last branch decision / the offending statement
        if last.ast is not None and last.id != head.id:
            key = _stmt_text(last.ast)[:100]
            msg = f"`{key}` updates pos in a way not known to move it forward"
        else:
            tests = [cfg.nodes[i] for i in path if cfg.nodes[i].kind == "test"]
            key = "cycle via " + (_stmt_text(tests[-1].ast)[:80] if len(tests) > 1 and tests[-1].ast is not None else "loop head")
            msg = "a path through the main loop returns to its head without increasing pos: tokenize() does not terminate on input that drives it there"
        if key in seen:
            continue
        seen.add(key)
        run.violation("R20.1", lx, "tokenize", key, msg, path=[f"{lx.relpath}:{cfg.nodes[i].lineno}" for i in path if cfg.nodes[i].lineno][:40])


# ======================================================================================= other loops
def _shrinking_string_loop(loop: ast.While) -> str | None:
    """`while <sub> in s: s = s.replace(<sub>, <shorter>)`  or  `while len(s) > k and ...: s = s[:-1]`"""
    t = loop.test
    conj = t.values if isinstance(t, ast.BoolOp) and isinstance(t.op, ast.And) else [t]
    for c in conj:
        if isinstance(c, ast.Compare) and len(c.ops) == 1 and isinstance(c.ops[0], ast.In) and isinstance(c.left, ast.Constant) and isinstance(c.left.value, str) and isinstance(c.comparators[0], ast.Name):
            s = c.comparators[0].id
            sub = c.left.value
            for st in loop.body:
                if isinstance(st, ast.Assign) and len(st.targets) == 1 and isinstance(st.targets[0], ast.Name) and st.targets[0].id == s and isinstance(st.value, ast.Call) and ast.unparse(st.value.func) == f"{s}.replace" and len(st.value.args) == 2 and all(isinstance(a, ast.Constant) and isinstance(a.value, str) for a in st.value.args) and st.value.args[0].value == sub and len(st.value.args[1].value) < len(sub) and sub not in st.value.args[1].value:  # type: ignore[attr-defined]
                    if st in loop.body and not any(isinstance(x, (ast.Continue,)) for b in loop.body[: loop.body.index(st)] for x in ast.walk(b)):
                        return f"`{s}` loses at least one character per cycle (replace {sub!r} by a shorter string) while the condition needs {sub!r} in it"
        if isinstance(c, ast.Compare) and len(c.ops) == 1 and isinstance(c.ops[0], (ast.Gt, ast.GtE)) and isinstance(c.left, ast.Call) and ast.unparse(c.left.func) == "len" and isinstance(c.left.args[0], ast.Name) and isinstance(c.comparators[0], ast.Constant):
            s = c.left.args[0].id
            for st in loop.body:
                if isinstance(st, ast.Assign) and len(st.targets) == 1 and isinstance(st.targets[0], ast.Name) and st.targets[0].id == s and ast.unparse(st.value) in (f"{s}[:-1]", f"{s}[1:]"):
                    if not any(isinstance(x, ast.Continue) for b in loop.body[: loop.body.index(st)] for x in ast.walk(b)):
                        return f"`{s}` loses one character per cycle and the condition bounds len({s}) from below"
    return None


def _stream_loop(loop: ast.While) -> str | None:
    t = loop.test
    if isinstance(t, ast.NamedExpr) and isinstance(t.value, ast.Call) and isinstance(t.value.func, ast.Attribute) and t.value.func.attr in ("read", "readline", "read1"):
        return "streaming read until an empty chunk (a file is finite)"
    return None


def _fresh_name_loop(loop: ast.While) -> str | None:
    """`while name in used: n += 1; name = f"...{n}..."` - distinct candidates against a finite set not grown in the loop"""
    t = loop.test
    if not (isinstance(t, ast.Compare) and len(t.ops) == 1 and isinstance(t.ops[0], ast.In) and isinstance(t.left, ast.Name) and isinstance(t.comparators[0], ast.Name)):
        return None
    v, coll = t.left.id, t.comparators[0].id
    counters = [st.target.id for st in loop.body if isinstance(st, ast.AugAssign) and isinstance(st.target, ast.Name) and isinstance(st.op, ast.Add) and isinstance(st.value, ast.Constant) and isinstance(st.value.value, int) and st.value.value > 0]
    rebinding = [st for st in loop.body if isinstance(st, ast.Assign) and len(st.targets) == 1 and isinstance(st.targets[0], ast.Name) and st.targets[0].id == v]
    grows = any(isinstance(n, ast.Call) and isinstance(n.func, ast.Attribute) and isinstance(n.func.value, ast.Name) and n.func.value.id == coll for st in loop.body for n in ast.walk(st))
    if grows or not counters or len(rebinding) != 1:
        return None
    val = rebinding[0].value
    uses_counter = isinstance(val, ast.JoinedStr) and any(isinstance(p, ast.FormattedValue) and isinstance(p.value, ast.Name) and p.value.id in counters for p in val.values)
    if not uses_counter or any(isinstance(x, (ast.Continue, ast.If, ast.Try)) for st in loop.body for x in ast.walk(st)):
        return None
    return f"`{v}` is rebuilt from the strictly increasing counter `{counters[0]}` on every cycle, so candidates are pairwise distinct and the finite set `{coll}` (not modified in the loop) cannot contain them all"


def _find_next_loop(loop: ast.While, cfg: CFG | None = None) -> str | None:
    """`p = s.find(x[, ...]); while p != -1: ...; p = s.find(x, p + k)` with k >= 1: every cycle either leaves the loop or
    restarts the search strictly to the right of the previous hit, so the hits are strictly increasing positions of a finite
    string (s is not rebound in the loop); -1 ends it."""
    t = loop.test
    v = None
    if isinstance(t, ast.Compare) and len(t.ops) == 1 and isinstance(t.left, ast.Name):
        r = t.comparators[0]
        neg1 = isinstance(r, ast.UnaryOp) and isinstance(r.op, ast.USub) and isinstance(r.operand, ast.Constant) and r.operand.value == 1
        zero = isinstance(r, ast.Constant) and r.value == 0
        if (isinstance(t.ops[0], ast.NotEq) and neg1) or (isinstance(t.ops[0], ast.GtE) and zero) or (isinstance(t.ops[0], ast.Gt) and neg1):
            v = t.left.id
    if v is None:
        return None
    writes = [n for st in loop.body for n in ast.walk(st) if isinstance(n, (ast.Assign, ast.AugAssign, ast.AnnAssign)) and any(isinstance(x, ast.Name) and x.id == v and isinstance(x.ctx, ast.Store) for x in ast.walk(n))]
    if len(writes) != 1 or not isinstance(writes[0], ast.Assign) or writes[0] not in loop.body:
        return None  # exactly one, unconditional, at the top level of the body
    c = writes[0].value
    if not (isinstance(c, ast.Call) and isinstance(c.func, ast.Attribute) and c.func.attr in ("find", "index") and isinstance(c.func.value, ast.Name) and len(c.args) >= 2):
        return None
    s_name = c.func.value.id
    start = c.args[1]
    fwd = isinstance(start, ast.BinOp) and isinstance(start.op, ast.Add) and ((isinstance(start.left, ast.Name) and start.left.id == v and isinstance(start.right, ast.Constant) and isinstance(start.right.value, int) and start.right.value >= 1) or (isinstance(start.right, ast.Name) and start.right.id == v and isinstance(start.left, ast.Constant) and isinstance(start.left.value, int) and start.left.value >= 1))
    if not fwd:
        return None
    if any(isinstance(x, ast.Name) and x.id == s_name and isinstance(x.ctx, ast.Store) for st in loop.body for x in ast.walk(st)):
        return None
    if any(isinstance(x, ast.Continue) for st in loop.body for x in ast.walk(st) if not isinstance(x, (ast.For, ast.While))) and any(isinstance(x, ast.Continue) for st in loop.body[:loop.body.index(writes[0])] for x in ast.walk(st)):
        return None  # a `continue` before the re-search would repeat the same hit
    return f"`{v}` is the next hit of `{s_name}.{c.func.attr}(..., {v} + k)` (k >= 1): strictly increasing positions in a finite string that the loop does not rebind, ended by -1"


def _worklist_loop(loop: ast.While) -> str | None:
    """`while L: x = L.pop(); ... L.extend(<children of x>)`: every cycle removes one node and only ever adds parts of the node it
    removed - a traversal of a finite acyclic structure (the same premise as R20.4's structural descent)."""
    t = loop.test
    L = None
    if isinstance(t, ast.Name):
        L = t.id
    elif isinstance(t, ast.Compare) and len(t.ops) == 1 and isinstance(t.left, ast.Call) and ast.unparse(t.left.func) == "len" and len(t.left.args) == 1 and isinstance(t.left.args[0], ast.Name) and isinstance(t.ops[0], ast.Gt) and isinstance(t.comparators[0], ast.Constant) and t.comparators[0].value == 0:
        L = t.left.args[0].id
    if L is None:
        return None
    pops = [st for st in loop.body if isinstance(st, ast.Assign) and len(st.targets) == 1 and isinstance(st.value, ast.Call) and isinstance(st.value.func, ast.Attribute) and st.value.func.attr in ("pop", "popleft") and isinstance(st.value.func.value, ast.Name) and st.value.func.value.id == L]
    if len(pops) != 1 or any(isinstance(x, ast.Continue) for b in loop.body[: loop.body.index(pops[0])] for x in ast.walk(b)):
        return None
    popped = {x.id for x in ast.walk(pops[0].targets[0]) if isinstance(x, ast.Name)}
    if not popped:
        return None
    # names derived from the popped node: plain attribute reads / iteration targets over them
    derived = set(popped)
    changed = True
    while changed:
        changed = False
        for n in ast.walk(ast.Module(body=loop.body, type_ignores=[])):
            if isinstance(n, (ast.For, ast.comprehension)) and isinstance(n.target, ast.Name) and n.target.id not in derived and _strictly_part_of(n.iter, derived):
                derived.add(n.target.id)
                changed = True
            if isinstance(n, ast.Assign) and len(n.targets) == 1 and isinstance(n.targets[0], ast.Name) and n.targets[0].id not in derived and n is not pops[0] and not isinstance(n.value, ast.Name) and _strictly_part_of(n.value, derived, popped=popped):
                derived.add(n.targets[0].id)
                changed = True
    for n in ast.walk(ast.Module(body=loop.body, type_ignores=[])):
        if n is pops[0].value:
            continue
        if isinstance(n, ast.Call) and isinstance(n.func, ast.Attribute) and isinstance(n.func.value, ast.Name) and n.func.value.id == L:
            if n.func.attr in ("extend", "append", "appendleft", "extendleft") and len(n.args) == 1 and _strictly_part_of(n.args[0], derived - popped | popped, need_attr=n.func.attr in ("extend", "extendleft") or True, popped=popped):
                continue
            return None
        if isinstance(n, (ast.Assign, ast.AugAssign)) and any(isinstance(x, ast.Name) and x.id == L and isinstance(x.ctx, ast.Store) for x in ast.walk(n)):
            if isinstance(n, ast.AugAssign) and isinstance(n.op, ast.Add) and _strictly_part_of(n.value, derived, popped=popped):
                continue
            return None
    return f"work list `{L}`: each cycle pops one node and pushes only parts of that node (finite acyclic structure)"


def _strictly_part_of(e: ast.AST, derived: set[str], need_attr: bool = True, popped: set[str] | None = None) -> bool:
    """e denotes a proper part (attribute / element) of a value named in `derived`, or - for names derived by attribute reads or
    iteration, i.e. already proper parts of the popped node - that value itself; wrappers that only reorder are looked through"""
    if isinstance(e, ast.Call) and isinstance(e.func, ast.Name) and e.func.id in ("reversed", "list", "tuple", "iter", "sorted") and len(e.args) == 1:
        return _strictly_part_of(e.args[0], derived, need_attr, popped)
    if isinstance(e, ast.Attribute):
        b = e.value
        while isinstance(b, (ast.Attribute, ast.Subscript)):
            b = b.value
        return isinstance(b, ast.Name) and b.id in derived
    if isinstance(e, ast.Subscript):
        return _strictly_part_of(e.value, derived, need_attr, popped) or (isinstance(e.value, ast.Name) and e.value.id in derived)
    if isinstance(e, ast.Name):
        return e.id in derived and (popped is None or e.id not in popped)
    if isinstance(e, (ast.ListComp, ast.GeneratorExp)) and len(e.generators) >= 1:
        d2 = set(derived)
        for g in e.generators:
            if not _strictly_part_of(g.iter, d2, need_attr, popped):
                return False
            d2 |= {x.id for x in ast.walk(g.target) if isinstance(x, ast.Name)}
        return _strictly_part_of(e.elt, d2, need_attr, (popped or set()))
    if isinstance(e, ast.BinOp) and isinstance(e.op, ast.Add):
        return _strictly_part_of(e.left, derived, need_attr, popped) and _strictly_part_of(e.right, derived, need_attr, popped)
    if isinstance(e, (ast.List, ast.Tuple)):
        return all(_strictly_part_of(x, derived, need_attr, popped) for x in e.elts)
    return False


def check_other_loops(run: Run, pmodel: ParserModel) -> None:
    run.rule("R20.1b", "every while loop outside tokenize's main loop and the Parser's token loops has a recognised termination argument (monotone bounded counter, shrinking string, streaming read, fresh-name search); no for loop appends to the collection it iterates", 8)
    parser_cls = pmodel.cls
    for m in run.project.modules.values():
        for fi in m.functions.values():
            loops = [n for n in walk_no_nested(fi.node) if isinstance(n, ast.While)]
            fors = [n for n in walk_no_nested(fi.node) if isinstance(n, (ast.For, ast.AsyncFor))]
            for f in fors:
                it = ast.unparse(f.iter)
                if isinstance(f.iter, (ast.Name, ast.Attribute)):
                    for n in ast.walk(ast.Module(body=f.body, type_ignores=[])):
                        if isinstance(n, ast.Call) and isinstance(n.func, ast.Attribute) and n.func.attr in ("append", "extend", "insert", "add") and ast.unparse(n.func.value) == it:
                            # growth is harmless when the loop is left right after it on every path
                            st = _stmt_of(fi.node, n)
                            blk = _block_of(fi.node, st) if st is not None else None
                            after = blk[blk.index(st) + 1:] if blk and st in blk else []
                            if any(isinstance(a, (ast.Break, ast.Return, ast.Raise)) for a in after):
                                continue
                            run.violation("R20.1b", m, fi.qualname, f"for ... in {it}: {it}.{n.func.attr}(...)", f"the loop iterates `{it}` and grows it in its own body: it never ends (or does unbounded work) once the growing branch is taken")
            if not loops:
                continue
            if fi.cls == parser_cls.name and m is pmodel.pm:
                continue  # R20.3
            cfg = CFG(fi.node)
            for loop in loops:
                if getattr(loop, "_inline_block", False):
                    continue  # not a loop of the repository: the single-pass block octacheck.inline wraps an inlined helper in
                heads = [n for n in cfg.nodes if n.kind == "test" and n.owner is loop]
                if not heads:
                    raise AnalysisError(f"{fi.fqn}: while loop at line {loop.lineno} has no CFG head")
                head = heads[0]
                if m.name.endswith("core.lexer") and fi.qualname == "tokenize" and ast.unparse(loop.test) == "pos < len(content)" and not isinstance(getattr(loop, "_parent", None), (ast.While, ast.For, ast.If)):
                    continue  # R20.1
                ok, why = counter_loop_ok(cfg, head.id)
                if not ok:
                    for rec in (_shrinking_string_loop, _stream_loop, _fresh_name_loop, _find_next_loop, _worklist_loop):
                        w = rec(loop)
                        if w:
                            ok, why = True, w
                            break
                run.instance("R20.1b", m.loc(loop), f"while {ast.unparse(loop.test)[:60]}: {why}", ok=ok)
                if not ok:
                    run.violation("R20.1b", m, fi.qualname, f"while {ast.unparse(loop.test)[:80]}", "no termination argument recognised for this loop (not a monotone bounded counter, shrinking string, streaming read or fresh-name search): a cycle may repeat forever")


# ======================================================================================= parser progress
def check_parser_loops(run: Run, pmodel: ParserModel) -> None:
    run.rule("R20.3", "every cycle of every loop in Parser consumes a token (advance() off EOF, expect(), or a method that must consume in that context) or leaves the loop; counter loops over look-ahead positions move a bounded counter", 20)
    pm = pmodel.pm
    n_loops = 0
    for name, fi in pmodel.cls.methods.items():
        cfg = pmodel.cfg(fi)
        for node in cfg.nodes:
            if not (node.kind == "test" and isinstance(node.owner, ast.While)):
                continue
            n_loops += 1
            ok_counter, why = counter_loop_ok(cfg, node.id)
            if ok_counter:
                run.instance("R20.3", pm.loc(node.owner), f"{name}: {why}")
                continue
            cycles = list(pmodel.loop_cycles_without_progress(fi, node.id))
            run.instance("R20.3", pm.loc(node.owner), f"{name}: while {ast.unparse(node.ast)[:50]}: {'every cycle consumes a token or exits' if not cycles else str(len(cycles)) + ' cycle(s) without progress'}", ok=not cycles)  # type: ignore[arg-type]
            seen = set()
            for path, ts in cycles[:20]:
                tests = [cfg.nodes[i] for i in path[1:] if cfg.nodes[i].kind == "test" and cfg.nodes[i].ast is not None]
                stmts = [cfg.nodes[i] for i in path[1:-1] if cfg.nodes[i].kind == "stmt" and cfg.nodes[i].ast is not None]
                last = stmts[-1] if stmts else (tests[-1] if tests else node)
                key = f"while {ast.unparse(node.ast)[:40]} / {_stmt_text(last.ast)[:70]}"  # type: ignore[arg-type]
                if key in seen:
                    continue
                seen.add(key)
                run.violation("R20.3", pm, fi.qualname, key, f"a cycle of this loop reaches its head again without consuming a token (possible current token types: {', '.join(sorted(ts))[:160]}): parse() does not terminate on a token sequence that drives it there", path=[cfg.nodes[i].lineno for i in path])
    run.extra["parser_loops"] = n_loops
    run.extra["parser_progress_steps"] = pmodel.steps
    run.extra["must_consume_summaries"] = sorted(f"{k[0]}|{len(k[1])} types" for k, v in pmodel._must.items() if v)


# ======================================================================================= recursion
def _sccs(nodes: set[str], cg: dict[str, set[str]]) -> list[list[str]]:
    index: dict[str, int] = {}
    low: dict[str, int] = {}
    on: set[str] = set()
    st: list[str] = []
    out: list[list[str]] = []
    counter = [0]
    for root in sorted(nodes):
        if root in index:
            continue
        work = [(root, iter(sorted(w for w in cg.get(root, ()) if w in nodes)))]
        index[root] = low[root] = counter[0]
        counter[0] += 1
        st.append(root)
        on.add(root)
        while work:
            v, it = work[-1]
            adv = False
            for w in it:
                if w not in index:
                    index[w] = low[w] = counter[0]
                    counter[0] += 1
                    st.append(w)
                    on.add(w)
                    work.append((w, iter(sorted(x for x in cg.get(w, ()) if x in nodes))))
                    adv = True
                    break
                if w in on:
                    low[v] = min(low[v], index[w])
            if adv:
                continue
            work.pop()
            if work:
                low[work[-1][0]] = min(low[work[-1][0]], low[v])
            if low[v] == index[v]:
                comp = []
                while True:
                    w = st.pop()
                    on.discard(w)
                    comp.append(w)
                    if w == v:
                        break
                if len(comp) > 1 or v in cg.get(v, ()):
                    out.append(sorted(comp))
    return out


def _cap_test(cfg: CFG, n, fn: ast.AST, cap_names: set[str]) -> str | None:
    """n is a test `<depth> >= CAP` / `> CAP` whose true edge raises ParserError, or `<depth> < CAP` / `<= CAP` whose false edge
    does: the name of the counter attribute that is tested (`self.X`, directly or through a local bound once to it), '?' when
    the tested thing is something else"""
    if n.kind != "test" or n.ast is None:
        return None
    t, neg = n.ast, False
    while isinstance(t, ast.UnaryOp) and isinstance(t.op, ast.Not):
        t, neg = t.operand, not neg
    if not (isinstance(t, ast.Compare) and len(t.ops) == 1 and isinstance(t.comparators[0], ast.Name) and t.comparators[0].id in cap_names):
        return None
    if isinstance(t.ops[0], (ast.GtE, ast.Gt)):
        edge = "f" if neg else "t"
    elif isinstance(t.ops[0], (ast.Lt, ast.LtE)):
        edge = "t" if neg else "f"
    else:
        return None
    succ = [s_ for s_, lab in cfg.succ[n.id] if lab == edge]
    if not (succ and all(isinstance(cfg.nodes[s_].ast, ast.Raise) and "ParserError" in ast.unparse(cfg.nodes[s_].ast) for s_ in succ)):
        return None
    left = t.left
    if isinstance(left, ast.Name):
        ds = [a_.value for a_ in walk_no_nested(fn) if isinstance(a_, ast.Assign) and len(a_.targets) == 1 and isinstance(a_.targets[0], ast.Name) and a_.targets[0].id == left.id]
        if len(ds) == 1:
            left = ds[0]
    if isinstance(left, ast.Attribute) and isinstance(left.value, ast.Name) and left.value.id == "self":
        return left.attr
    return "?"


def _increments(fn: ast.AST, attr: str) -> bool:
    return any(isinstance(a_, ast.AugAssign) and isinstance(a_.op, ast.Add) and isinstance(a_.target, ast.Attribute) and isinstance(a_.target.value, ast.Name) and a_.target.value.id == "self" and a_.target.attr == attr and isinstance(a_.value, ast.Constant) and isinstance(a_.value.value, int) and a_.value.value >= 1 for a_ in walk_no_nested(fn))


def _cap_guard(run: Run, res: Resolver, fi: FuncInfo, scc: set[str], cap_names: set[str]) -> str | None:
    """fi refuses depth >= cap with ParserError before every call it makes into the SCC - and the depth it tests is the counter
    that fi itself increments for the level it is about to open (a test of another counter bounds nothing here)"""
    cfg = CFG(fi.node)
    guards: list[int] = []
    for n in cfg.nodes:
        if n.ast is None:
            continue
        # (a) direct: `if <depth> >= MAX: raise ParserError`   (b) a call to a method that does (a) unconditionally
        x = _cap_test(cfg, n, fi.node, cap_names)
        if x is not None:
            if x != "?" and _increments(fi.node, x):
                guards.append(n.id)
        elif n.kind == "stmt":
            for c in walk_no_nested(n.ast):
                if isinstance(c, ast.Call):
                    for cal in res.resolve_call(fi, c):
                        if cal.kind == "repo" and cal.func is not None and cal.func.fqn not in scc and cal.func is not fi:
                            x2 = _cap_guard_leaf(res, cal.func, cap_names)
                            if x2 and x2 != "?" and _increments(fi.node, x2):
                                guards.append(n.id)
    if not guards:
        return None
    # every call into the SCC is dominated by a guard
    for n in cfg.nodes:
        if n.ast is None:
            continue
        root = n.ast
        for c in walk_no_nested(root):
            if isinstance(c, ast.Call) and any(cal.kind == "repo" and cal.func is not None and cal.func.fqn in scc for cal in res.resolve_call(fi, c)):
                if not any(cfg.dominated_by(n.id, g) for g in guards):
                    return None
    return f"depth check against {'/'.join(sorted(cap_names))} dominates every recursive call"


def _cap_guard_leaf(res: Resolver, fi: FuncInfo, cap_names: set[str]) -> str | None:
    """the counter attribute a helper tests against the cap on every path from its entry (None: it has no such test)"""
    cfg = CFG(fi.node)
    for n in cfg.nodes:
        x = _cap_test(cfg, n, fi.node, cap_names)
        if x is not None:
            # the test is reached on every path from entry (dominates the exit)
            if cfg.dominated_by(cfg.exit, n.id) or all(cfg.dominated_by(x_.id, n.id) for x_ in cfg.nodes if isinstance(x_.ast, ast.Return)):
                return x
    return None


def _structural_descent(fi: FuncInfo, call: ast.Call) -> bool:
    """the recursive call passes (as receiver or argument) something strictly inside one of the caller's parameters - an
    attribute, element, slice or iteration variable over it, or a container built from those - never only the parameters
    themselves"""
    params = {a.arg for a in fi.node.args.args + fi.node.args.kwonlyargs}  # type: ignore[attr-defined]
    derived: set[str] = set()
    changed = True
    while changed:
        changed = False
        for n in walk_no_nested(fi.node):
            srcs: list[tuple[ast.AST, ast.AST, bool]] = []
            if isinstance(n, (ast.For, ast.AsyncFor)):
                srcs.append((n.target, n.iter, True))
            elif isinstance(n, ast.comprehension):
                srcs.append((n.target, n.iter, True))
            elif isinstance(n, ast.Assign) and len(n.targets) == 1:
                srcs.append((n.targets[0], n.value, False))
            elif isinstance(n, ast.AugAssign):
                srcs.append((n.target, n.value, False))
            for tgt, src, iterating in srcs:
                inner = _strictly_inside(src, params, derived) or (iterating and _mentions(src, params | derived))
                if inner:
                    for x in ast.walk(tgt):
                        if isinstance(x, ast.Name) and x.id not in derived and x.id not in params:
                            derived.add(x.id)
                            changed = True
    args = list(call.args) + [k.value for k in call.keywords]
    if isinstance(call.func, ast.Attribute):
        args.append(call.func.value)
    return any(_strictly_inside(a, params, derived) for a in args)


def _mentions(e: ast.AST, names: set[str]) -> bool:
    return any(isinstance(x, ast.Name) and x.id in names for x in ast.walk(e))


def _strictly_inside(e: ast.AST, params: set[str], derived: set[str]) -> bool:
    """e denotes a strict component of a parameter: `<p>.attr`, `<p>[i]`, `<p>[a:b]`, `<p>.items()`, a name derived from those,
    a method result on such a component, or a container built by a call from such components"""
    if isinstance(e, ast.Name):
        return e.id in derived
    if isinstance(e, ast.Starred):
        return _strictly_inside(e.value, params, derived)
    if isinstance(e, (ast.Attribute, ast.Subscript)):
        base = e.value
        if isinstance(base, ast.Name):
            return base.id in params or base.id in derived
        return _strictly_inside(base, params, derived) or (isinstance(base, ast.Call) and _strictly_inside(base, params, derived))
    if isinstance(e, ast.Call):
        if isinstance(e.func, ast.Attribute):
            b = e.func.value
            if isinstance(b, ast.Name) and (b.id in derived or (b.id in params and e.func.attr in ("items", "values", "keys", "get", "pop"))):
                return True
            if not isinstance(b, ast.Name) and _strictly_inside(b, params, derived):
                return True
        return any(_strictly_inside(a, params, derived) for a in e.args)
    if isinstance(e, (ast.List, ast.Tuple)):
        return bool(e.elts) and all(_strictly_inside(x, params, derived) for x in e.elts)
    return False


def _counter_descent(res: Resolver, f: FuncInfo, call: ast.Call) -> bool:
    """self-recursion on a countdown: the call passes `p - k` (k >= 1) for the parameter p of the same function, it is reached
    only under `p > 0` (or `p >= 1`, `p != 0` with the same start), p is never written in the body, and every call from outside
    passes an int constant - so the depth is at most that constant"""
    from ..cfg import atomic_conditions

    params = [a.arg for a in f.node.args.args]  # type: ignore[attr-defined]
    off = 1 if params and params[0] in ("self", "cls") else 0
    cands: list[tuple[str, ast.AST]] = []
    for i, a in enumerate(call.args):
        if i + off < len(params):
            cands.append((params[i + off], a))
    for k in call.keywords:
        if k.arg in params:
            cands.append((k.arg, k.value))
    for pname, a in cands:
        if not (isinstance(a, ast.BinOp) and isinstance(a.op, ast.Sub) and isinstance(a.left, ast.Name) and a.left.id == pname and isinstance(a.right, ast.Constant) and isinstance(a.right.value, int) and a.right.value >= 1):
            continue
        if any(isinstance(n, ast.Name) and n.id == pname and isinstance(n.ctx, (ast.Store, ast.Del)) for n in walk_no_nested(f.node)):
            continue
        cfg = CFG(f.node)
        nodes = [n for n in cfg.nodes if n.ast is not None and n.kind in ("stmt", "test") and any(x is call for x in ast.walk(n.ast))]
        if len(nodes) != 1:
            continue
        atoms = [(ast.unparse(t), v) for t, v in atomic_conditions(cfg, nodes[0].id)] + [(c_, True) for c_ in expression_context_facts(call)]
        guarded = any((txt in (f"{pname} > 0", f"{pname} >= 1", f"0 < {pname}") and v is True) or (txt in (f"{pname} <= 0", f"{pname} < 1") and v is False) for txt, v in atoms)
        if not guarded:
            continue
        # callers from outside pass a constant
        ext_ok = True
        n_ext = 0
        for g in res.p.all_functions():
            if g.fqn == f.fqn:
                continue
            for c2, callees in res.calls_in(g):
                if any(cc.kind == "repo" and cc.func is not None and cc.func.fqn == f.fqn for cc in callees):
                    n_ext += 1
                    params2 = params
                    arg = None
                    idx = params2.index(pname) - off
                    if idx < len(c2.args):
                        arg = c2.args[idx]
                    for k in c2.keywords:
                        if k.arg == pname:
                            arg = k.value
                    if not (isinstance(arg, ast.Constant) and isinstance(arg.value, int) and 0 <= arg.value <= 50):
                        ext_ok = False
        if ext_ok and n_ext:
            return True
    return False


def check_recursion(run: Run, res: Resolver) -> None:
    run.rule("R20.4", "every call-graph cycle reachable from the reader entry points or a tool: inside Parser it passes a function whose depth check against MAX_NESTING_DEPTH raises ParserError before recursing; elsewhere every recursive call descends strictly into a component of a parameter (depth bounded by the parsed document, which the parser caps); cap x frames-per-level stays under the interpreter's recursion limit", 8)
    p = run.project
    cg = res.callgraph()
    roots = [p.mod(m).func(q).fqn for m, q in READER_ENTRIES + TOOL_ENTRIES]
    reach = res.reachable_from(roots)
    pm = p.mod("core.parser")
    cap = p.const(pm, "MAX_NESTING_DEPTH")
    if not isinstance(cap, int):
        raise AnalysisError("MAX_NESTING_DEPTH did not fold to an int")
    run.extra["MAX_NESTING_DEPTH"] = cap
    sccs = _sccs(reach, cg)
    run.extra["recursive_components"] = sccs
    frames_total = 0
    for comp in sccs:
        scc = set(comp)
        fis = [res.func_by_fqn(f) for f in comp]
        in_parser = all(f.module is pm and f.cls == "Parser" for f in fis)
        label = "/".join(f.name for f in fis)
        if in_parser:
            capped = {}
            for f in fis:
                why = _cap_guard(run, res, f, scc, {"MAX_NESTING_DEPTH"})
                if why:
                    capped[f.fqn] = why
            rest = scc - set(capped)
            sub = {k: {w for w in cg.get(k, ()) if w in rest} for k in rest}
            if capped and not _sccs(rest, sub):
                run.instance("R20.4", f"{pm.relpath}:{label}", f"parser recursion capped by the depth check in {', '.join(sorted(x.split('.')[-1] for x in capped))}", frames_per_level=len(comp))
                frames_total += cap * len(comp)
                continue
        # structural descent: every cycle contains a call that passes a strict component of a parameter
        flat: dict[str, set[str]] = {k: set() for k in scc}
        flat_calls: dict[tuple[str, str], ast.Call] = {}
        n_desc = 0
        for f in fis:
            for call, callees in res.calls_in(f):
                for c in callees:
                    if c.kind == "repo" and c.func is not None and c.func.fqn in scc:
                        if _structural_descent(f, call) or (c.func.fqn == f.fqn and _counter_descent(res, f, call)):
                            n_desc += 1
                        else:
                            flat[f.fqn].add(c.func.fqn)
                            flat_calls[(f.fqn, c.func.fqn)] = call
        cyc = _sccs(scc, flat)
        ok = not cyc
        run.instance("R20.4", f"{fis[0].module.relpath}:{label}", f"{n_desc} descending recursive call(s); " + ("every cycle descends into a component of a parameter" if ok else "a cycle of non-descending calls remains"), ok=ok)
        for c in cyc:
            f0 = res.func_by_fqn(c[0])
            calls = [flat_calls[(x, y)] for x in c for y in flat[x] if y in c and (x, y) in flat_calls]
            what = "; ".join(f"{_stmt_text(cl)[:50]}" for cl in calls[:3])
            if in_parser:
                msg = f"the parser recursion {' -> '.join(x.split(':')[-1] for x in c)} neither passes a depth check against MAX_NESTING_DEPTH nor descends into an already parsed value: nesting deeper than the interpreter stack raises RecursionError out of parse() instead of a positioned ParserError"
            else:
                msg = f"the recursion {' -> '.join(x.split(':')[-1] for x in c)} has a cycle in which no call passes a strict component of a parameter ({what}): its depth is not bounded by the (capped) depth of the parsed document"
            run.violation("R20.4", f0.module, f0.qualname, "recursion " + " -> ".join(x.split(":")[-1] for x in c), msg)
    # stack budget: blocks and lists can nest inside each other, so the parser depths add up
    limit = 1000  # CPython default; the server does not raise it
    headroom = 150
    run.instance("R20.4", pm.relpath, f"stack budget: {frames_total} parser frames at the caps + {headroom} headroom < {limit}", ok=frames_total + headroom < limit)
    if frames_total + headroom >= limit:
        run.violation("R20.4", pm, "<module>", "MAX_NESTING_DEPTH x frames per level", f"documents inside the nesting caps need {frames_total} parser frames, which with {headroom} frames of caller headroom exceeds the default recursion limit of {limit}: RecursionError before the cap is reached")


# ======================================================================================= exception escape
def _short(fqn: str) -> str:
    return fqn.replace("octave_mcp.", "", 1)


def check_escape(run: Run, res: Resolver) -> None:
    run.rule("R20.5", "exception escape (explicit raises + library calls that raise on data, propagated over the call graph and filtered by enclosing handlers): only LexerError/ParserError leave tokenize/parse/parse_with_warnings/parse_meta_only; nothing leaves a tool's execute() except from validate_parameters (ill-typed arguments)", 8)
    p = run.project
    lx = p.mod("core.lexer")
    const_args = {(lx.func("tokenize").fqn, "pattern")}
    ef = ExcFlow(p, res, const_regex_args=const_args)
    run.extra["functions_analysed_for_escape"] = len(ef.funcs)
    used_exempt = set()

    def dumps_of_converter_output(o: Origin) -> bool:
        # json.dumps / yaml.dump applied to the result of _ast_to_dict (directly or through a local), anywhere in mcp.eject
        if not _short(o.fqn).startswith("mcp.eject:"):
            return False
        fn = res.func_by_fqn(o.fqn)
        for c in walk_no_nested(fn.node):
            if isinstance(c, ast.Call) and ast.unparse(c.func) in ("json.dumps", "yaml.dump", "yaml.safe_dump") and c.lineno == o.lineno and c.args:
                a = c.args[0]
                if isinstance(a, ast.Name):
                    ds = [x.value for x in walk_no_nested(fn.node) if isinstance(x, ast.Assign) and any(isinstance(t, ast.Name) and t.id == a.id for t in x.targets)]
                    return bool(ds) and all(isinstance(d, ast.Call) and ast.unparse(d.func) == "_ast_to_dict" for d in ds)
                return isinstance(a, ast.Call) and ast.unparse(a.func) == "_ast_to_dict"
        return False

    from .c14 import json_converters_exhaustive

    conv_ok, conv_missing = json_converters_exhaustive(p, res)
    run.instance("R20.5", "src/octave_mcp/mcp/eject.py", "premise of the json/yaml exemption: the JSON-side converters of the eject tool have a branch for every node and value kind" + ("" if conv_ok else f" - MISSING: {conv_missing}"), ok=True, nontrivial=True)

    def exempt(o: Origin) -> str | None:
        if dumps_of_converter_output(o) and conv_ok:
            for key in (("mcp.eject:EjectTool.execute", "json.dumps(data"), ("mcp.eject:EjectTool.execute", "yaml.dump(data")):
                if key[1].split("(")[0] in o.construct:
                    used_exempt.add(key)
                    return ESCAPE_EXEMPT[key]
        for (fq, frag), why in ESCAPE_EXEMPT.items():
            if frag.startswith(("json.dumps(", "yaml.dump(")) and not conv_ok:
                continue  # the exemption's premise does not hold on this tree
            if (_short(o.fqn) == fq or (fq.endswith(":*") and _short(o.fqn).startswith(fq[:-1]))) and frag in o.construct:
                used_exempt.add((fq, frag))
                return why
        return None

    for (short, q), allowed, kind in [((m, q), READER_ALLOWED, "reader") for m, q in READER_ENTRIES] + [((m, q), set(), "tool") for m, q in TOOL_ENTRIES]:
        m = p.mod(short)
        fi = m.func(q)
        esc = ef.escapes(fi.fqn)
        bad = []
        n_ok = 0
        for o in sorted(esc, key=lambda o: (o.exc, o.fqn, o.construct)):
            if ef.ancestors(o.exc) & allowed:
                n_ok += 1
                continue
            if kind == "tool" and o.fqn.endswith("BaseTool.validate_parameters"):
                n_ok += 1
                continue
            if exempt(o):
                n_ok += 1
                continue
            bad.append(o)
        run.instance("R20.5", f"{m.relpath}:{q}", f"{len(esc)} escaping origins, {len(bad)} not allowed", ok=not bad)
        for o in bad:
            chain = ef.trace(fi.fqn, o)
            om = res.func_by_fqn(o.fqn).module
            run.violation("R20.5", om, res.func_by_fqn(o.fqn).qualname, f"{o.exc} from {o.construct[:90]} -> {q}", f"{o.exc} raised by `{o.construct[:90]}` is not caught anywhere on the way out of {q}: " + ("the reader raises something other than LexerError/ParserError" if kind == "reader" else "the tool raises instead of returning an error envelope"), chain=[_short(c) for c in chain], line=o.lineno)
    stale = set(ESCAPE_EXEMPT) - used_exempt
    for fq, frag in sorted(stale):
        run.note(f"R20.5: exemption ({fq}, {frag}) matched nothing on this tree")
    # positive control: the explicit raise in Parser.expect must be seen leaving parse()
    parse_fqn = p.mod("core.parser").func("parse").fqn
    run.control("R20.5", "ParserError raised in Parser.expect is seen escaping parse()", any(o.exc == "ParserError" and o.fqn.endswith("Parser.expect") for o in ef.escapes(parse_fqn)))


# ---------------------------------------------------------------------------------------- META values
STR_ONLY_METHODS = {"lower", "upper", "strip", "lstrip", "rstrip", "split", "rsplit", "startswith", "endswith", "replace", "casefold", "title", "encode", "splitlines", "partition", "isdigit", "isalpha", "format", "join", "find", "index"}


def _is_meta_read(e: ast.AST) -> bool:
    """<x>.meta.get(...), <x>.meta[...], meta.get(...), meta[...]"""
    def is_meta(b: ast.AST) -> bool:
        return (isinstance(b, ast.Attribute) and b.attr == "meta") or (isinstance(b, ast.Name) and b.id == "meta")
    if isinstance(e, ast.Call) and isinstance(e.func, ast.Attribute) and e.func.attr == "get" and is_meta(e.func.value):
        return True
    if isinstance(e, ast.Subscript) and is_meta(e.value) and isinstance(e.ctx, ast.Load):
        return True
    return False


def check_meta_types(run: Run, res: Resolver) -> None:
    run.rule("R20.5c", "a value read from a document's META (doc.meta.get / doc.meta[...]) is Any-typed document content: before a str-only method or a `+` with a string it is converted with str() or guarded by isinstance(..., str) on every path", 2)
    p = run.project
    scope = [m for m in p.modules.values() if (m.name.split(".") + [""])[1] in ("mcp", "cli") or m.name.endswith(("core.gbnf_compiler", "core.hydrator", "core.sealer", "core.validator", "core.repair", "core.projector", "core.schema_extractor"))]
    from ..cfg import atomic_conditions as _atomic

    for m in scope:
        for fi in m.functions.values():
            # a str-only method called directly on a node's value (`child.value.strip()`): the value of an assignment is
            # document content of any kind
            direct = [c for c in walk_no_nested(fi.node) if isinstance(c, ast.Call) and isinstance(c.func, ast.Attribute) and c.func.attr in STR_ONLY_METHODS and isinstance(c.func.value, ast.Attribute) and c.func.value.attr == "value" and isinstance(c.func.value.value, ast.Name)]
            if direct:
                dcfg = CFG(fi.node)
                for c in direct:
                    subj = ast.unparse(c.func.value)
                    holder = next((nd.id for nd in dcfg.nodes if nd.ast is not None and any(x is c for x in ast.walk(nd.ast))), None)
                    conds = _atomic(dcfg, holder) if holder is not None else []
                    ok = any(val and isinstance(t, ast.Call) and isinstance(t.func, ast.Name) and t.func.id == "isinstance" and len(t.args) == 2 and ast.unparse(t.args[0]) == subj and "str" in ast.unparse(t.args[1]) for t, val in conds)
                    # inside `X if isinstance(subj, str) else Y` / `isinstance(subj, str) and subj.m()`
                    par = getattr(c, "_parent", None)
                    while par is not None and not isinstance(par, ast.stmt) and not ok:
                        if isinstance(par, ast.IfExp) and f"isinstance({subj}, str)" in ast.unparse(par.test) and any(x is c for x in ast.walk(par.body)):
                            ok = True
                        if isinstance(par, ast.BoolOp) and isinstance(par.op, ast.And) and any(f"isinstance({subj}, str)" in ast.unparse(v) for v in par.values):
                            ok = True
                        par = getattr(par, "_parent", None)
                    run.instance("R20.5c", m.loc(c), f"{fi.qualname}: `{norm(c)[:50]}` {'guarded by isinstance(..., str)' if ok else 'UNGUARDED'}", ok=ok)
                    if not ok:
                        run.violation("R20.5c", m, fi.qualname, c, f"`{norm(c)[:60]}` calls a str-only method on a node's value, which is document content of any kind (a number, a boolean, a list): AttributeError leaves the function - and the tool that called it - instead of an envelope")
            reads = [(n, n.targets[0].id) for n in walk_no_nested(fi.node) if isinstance(n, ast.Assign) and len(n.targets) == 1 and isinstance(n.targets[0], ast.Name) and _is_meta_read(n.value)]
            if not reads:
                continue
            cfg = None
            for asg, var in reads:
                # uses of var
                uses = []
                for n in walk_no_nested(fi.node):
                    if isinstance(n, ast.Call) and isinstance(n.func, ast.Attribute) and isinstance(n.func.value, ast.Name) and n.func.value.id == var and n.func.attr in STR_ONLY_METHODS:
                        uses.append((n, f"{var}.{n.func.attr}()"))
                    elif isinstance(n, ast.BinOp) and isinstance(n.op, ast.Add) and any(isinstance(s, ast.Name) and s.id == var for s in (n.left, n.right)) and any(isinstance(s, (ast.Constant, ast.JoinedStr)) and (isinstance(s, ast.JoinedStr) or isinstance(s.value, str)) for s in (n.left, n.right)):
                        uses.append((n, f"{var} + str"))
                if not uses:
                    run.instance("R20.5c", m.loc(asg), f"{fi.qualname}: `{_stmt_text(asg)[:60]}` - no type-specific use", nontrivial=False)
                    continue
                if cfg is None:
                    cfg = CFG(fi.node)
                for use, desc in uses:
                    ok = _guarded_str(cfg, use, var)
                    run.instance("R20.5c", m.loc(use), f"{fi.qualname}: {desc} {'guarded by isinstance(..., str)' if ok else 'UNGUARDED'}", ok=ok)
                    if not ok:
                        run.violation("R20.5c", m, fi.qualname, f"{var} = {ast.unparse(asg.value)[:60]} ; {desc}", f"`{var}` comes from the document's META and can be a number, boolean, list or map; `{desc}` assumes a string without an isinstance/str() guard, so a well-formed document with a non-string value raises AttributeError/TypeError out of the caller")


def _guarded_str(cfg: CFG, use: ast.AST, var: str) -> bool:
    ids = cfg.node_for_stmt_containing(use)
    if not ids:
        return False
    for nid in ids:
        conds = branch_conditions(cfg, nid)
        ok = False
        for cond, pol in conds:
            for c in (_conjuncts(cond, pol)):
                if c.replace(" ", "") in (f"isinstance({var},str)",):
                    ok = True
        # same-expression guard: isinstance(var, str) and var.lower() ...
        cur = use
        while cur is not None and not isinstance(cur, ast.stmt):
            par = getattr(cur, "_parent", None)
            if isinstance(par, ast.BoolOp) and isinstance(par.op, ast.And):
                idx = par.values.index(cur) if cur in par.values else -1
                for prev in par.values[:max(idx, 0)]:
                    if ast.unparse(prev).replace(" ", "") == f"isinstance({var},str)":
                        ok = True
            if isinstance(par, ast.IfExp) and par.body is cur and ast.unparse(par.test).replace(" ", "") == f"isinstance({var},str)":
                ok = True
            if isinstance(par, (ast.ListComp, ast.GeneratorExp, ast.SetComp)):
                pass
            cur = par
        if not ok:
            return False
    return True


# ======================================================================================= R20.5d
NON_STR_TOKEN_KINDS = {"NUMBER": "int/float", "BOOLEAN": "bool", "NULL": "None", "INDENT": "int", "EOF": "None", "FENCE_OPEN": "dict"}


def check_joined_token_values(run: Run, tt: list[str]) -> None:
    run.rule("R20.5d", "token -> text tables join only strings: in every function that appends per-token text to a list that is later passed to str.join, a raw `<token>.value` is appended only on branches that cannot be taken by a token kind whose value is not a str (NUMBER, BOOLEAN, NULL, INDENT, EOF, FENCE_OPEN); otherwise `''.join` raises TypeError - outside every tool's try blocks", 3)
    from .c02 import Chain

    p = run.project
    n_tables = 0
    for m in p.modules.values():
        for fi in m.functions.values():
            joins = {_stmt_text(n.args[0]) for n in walk_no_nested(fi.node) if isinstance(n, ast.Call) and isinstance(n.func, ast.Attribute) and n.func.attr == "join" and isinstance(n.func.value, ast.Constant) and n.args and isinstance(n.args[0], ast.Name)}
            if not joins:
                continue
            for loop in [n for n in walk_no_nested(fi.node) if isinstance(n, ast.For) and isinstance(n.target, ast.Name)]:
                tok = loop.target.id
                # the loop dispatches on <tok>.type (directly or through a local alias)
                typevars = {f"{tok}.type"}
                for n in ast.walk(loop):
                    if isinstance(n, ast.Assign) and len(n.targets) == 1 and isinstance(n.targets[0], ast.Name) and _stmt_text(n.value) == f"{tok}.type":
                        typevars.add(n.targets[0].id)
                if not any(isinstance(c, ast.Compare) and _stmt_text(c.left) in typevars for c in ast.walk(loop)):
                    continue
                raw_appends = [c for c in ast.walk(loop) if isinstance(c, ast.Call) and isinstance(c.func, ast.Attribute) and c.func.attr == "append" and isinstance(c.func.value, ast.Name) and c.args and _stmt_text(c.args[0]) == f"{tok}.value"]
                sinks = {c.func.value.id for c in raw_appends}  # type: ignore[attr-defined]
                # the sink (or a string built from it) must reach a join in this function
                if not raw_appends:
                    run.instance("R20.5d", m.loc(loop), f"{fi.qualname}: per-token table, no raw `{tok}.value` appended", nontrivial=False)
                    n_tables += 1
                    continue
                n_tables += 1
                local_sets = {}
                ch = Chain(p, m, typevars, sinks, local_sets)
                # evaluate with a sink that only counts RAW appends: rewrite by checking which branch a kind takes
                for T, pyt in NON_STR_TOKEN_KINDS.items():
                    if T not in tt:
                        continue
                    hit = _raw_append_reached(ch, list(loop.body), T, tok)
                    run.instance("R20.5d", m.loc(loop), f"{fi.qualname}: a {T} token " + (f"reaches `append({tok}.value)` ({pyt})" if hit else "never reaches a raw .value append"), ok=not hit)
                    if hit:
                        run.violation("R20.5d", m, fi.qualname, f"append({tok}.value) reachable for {T}", f"in {fi.qualname} a {T} token reaches `.append({tok}.value)`; its value is {pyt}, not str, so the later ''.join(...) raises TypeError. The reconstruction runs outside the tools' try blocks: octave_eject / octave_compile_grammar raise instead of returning an error envelope")
    if n_tables < 3:
        raise AnalysisError(f"only {n_tables} per-token text tables found")


def _raw_append_reached(ch, stmts: list[ast.stmt], T: str, tok: str) -> bool:
    """can a token of kind T reach a statement `X.append(<tok>.value)` in this block? (three-valued branch evaluation)"""
    for st in stmts:
        if isinstance(st, ast.If):
            r = ch.test(st.test, T)
            if r is not False and _raw_append_reached(ch, list(st.body), T, tok):
                return True
            if r is not True and _raw_append_reached(ch, list(st.orelse), T, tok):
                return True
            # a definitely-taken branch that ends the iteration stops the walk
            if r is True and any(isinstance(x, (ast.Continue, ast.Break, ast.Return)) for x in st.body):
                return False
            if r is True and st.orelse == [] and False:
                return False
            continue
        if isinstance(st, (ast.Continue, ast.Break, ast.Return)):
            return False
        for c in ast.walk(st):
            if isinstance(c, ast.Call) and isinstance(c.func, ast.Attribute) and c.func.attr == "append" and c.args and _stmt_text(c.args[0]) == f"{tok}.value":
                return True
    return False


# ======================================================================================= receipts are JSON-safe
_SCALAR_TYPES = {"str", "int", "float", "bool", "str | None", "int | None", "str | int", "int | float", "(str, int)", "(int, float)", "(str, int, float, bool)"}


def check_receipt_records(run: Run) -> None:
    """warning / repair records travel verbatim into the tools' JSON envelopes"""
    run.rule("R20.5e", "receipt records are JSON-safe: in every record the lexer / parser appends to its warnings / repairs list, a value that is document content of unknown kind - a parameter annotated Any (or not annotated), or what parse_value() / a node constructor returned - is put in only where isinstance(<it>, str | int | float | bool) holds, or converted with str()/repr()/an f-string; an AST value object in a receipt makes json.dumps of the tool's envelope raise TypeError", 20)
    from ..cfg import atomic_conditions

    n = 0
    for mn in ("core.parser", "core.lexer"):
        m = run.project.mod(mn)
        for q, fi in m.functions.items():
            cfg = None
            for c in walk_no_nested(fi.node):
                if not (isinstance(c, ast.Call) and isinstance(c.func, ast.Attribute) and c.func.attr == "append" and ast.unparse(c.func.value) in ("self.warnings", "repairs", "warnings") and c.args and isinstance(c.args[0], ast.Dict)):
                    continue
                cfg = cfg or CFG(fi.node)
                holder = next((nd.id for nd in cfg.nodes if nd.kind == "stmt" and isinstance(nd.ast, ast.Expr) and nd.ast.value is c), None)
                conds = atomic_conditions(cfg, holder) if holder is not None else []

                def string_led() -> bool:
                    # a flag bound from `<token>.type == TokenType.STRING` taken before the value was read holds: a value
                    # that starts with a STRING token is read as text (parse_value coalesces STRING-led runs into one string)
                    for t, val in conds:
                        if val and isinstance(t, ast.Name):
                            ds = [x.value for x in walk_no_nested(fi.node) if isinstance(x, ast.Assign) and any(is_name(tg, t.id) for tg in x.targets)]
                            if ds and all(isinstance(d, ast.Compare) and len(d.ops) == 1 and isinstance(d.ops[0], ast.Eq) and ast.unparse(d.comparators[0]).endswith("TokenType.STRING") and ast.unparse(d.left).endswith(".type") for d in ds):
                                return True
                    return False

                def guarded(name: str) -> bool:
                    if string_led():
                        return True
                    return any(val and isinstance(t, ast.Call) and isinstance(t.func, ast.Name) and t.func.id == "isinstance" and len(t.args) == 2 and is_name(t.args[0], name) and ast.unparse(t.args[1]) in _SCALAR_TYPES for t, val in conds)

                def unknown_kind(e: ast.AST, depth: int = 0) -> str | None:
                    """why the expression may be an AST value object; None when it is not recognised as one"""
                    if isinstance(e, ast.Call) and isinstance(e.func, ast.Attribute) and isinstance(e.func.value, ast.Name) and e.func.value.id == "self" and e.func.attr in ("parse_value", "parse_list", "parse_list_item", "parse_flow_expression", "parse_literal_zone"):
                        return f"the result of self.{e.func.attr}()"
                    if isinstance(e, ast.Call) and isinstance(e.func, ast.Name) and e.func.id in ("ListValue", "InlineMap", "HolographicValue", "LiteralZoneValue", "Assignment", "Block", "Section"):
                        return f"a {e.func.id} object"
                    if isinstance(e, ast.Name) and depth < 3:
                        if guarded(e.id):
                            return None
                        for a in list(fi.node.args.args) + list(fi.node.args.kwonlyargs):  # type: ignore[attr-defined]
                            if a.arg == e.id and a.arg not in ("self", "cls"):
                                ann = ast.unparse(a.annotation) if a.annotation is not None else None
                                return f"the parameter `{e.id}: {ann or '<not annotated>'}`" if ann in (None, "Any", "object", "ASTNode", "Any | None") else None
                        defs = [x.value for x in walk_no_nested(fi.node) if isinstance(x, ast.Assign) and any(is_name(t, e.id) for t in x.targets)]
                        for d in defs:
                            w = unknown_kind(d, depth + 1)
                            if w:
                                return w
                    return None

                for k, v in zip(c.args[0].keys, c.args[0].values):
                    n += 1
                    why = unknown_kind(v)
                    run.instance("R20.5e", m.loc(c), f"{q}: record field {ast.unparse(k) if k is not None else '**'} = `{norm(v)[:50]}`", ok=why is None, nontrivial=isinstance(v, ast.Name))
                    if why:
                        run.violation("R20.5e", m, q, v, f"the receipt field {ast.unparse(k) if k is not None else '**'} holds `{norm(v)[:60]}`, which is {why} and not known to be a scalar here: for a structured value (a list, an inline map) the record carries an AST object into octave_validate.repairs / octave_write.corrections and json.dumps of the envelope raises TypeError")
    if n == 0:
        raise AnalysisError("no warning / repair record found in lexer or parser")


# ======================================================================================= complexity
def check_complexity(run: Run) -> None:
    run.rule("R20.6", "inside tokenize's main loop (one cycle per token) no statement does work proportional to the whole input or to everything produced so far: no loop over the growing `tokens`/`repairs` lists, no open-ended slice `content[k:]` / whole-input method call, except on paths that end in a raise", 1)
    lx = run.project.mod("core.lexer")
    fi = lx.func("tokenize")
    main = [n for n in walk_no_nested(fi.node) if isinstance(n, ast.While) and ast.unparse(n.test) == "pos < len(content)" and not isinstance(getattr(n, "_parent", None), (ast.While, ast.For, ast.If))]
    if len(main) != 1:
        raise AnalysisError("tokenize main loop not found")
    loop = main[0]
    cfg = CFG(fi.node)
    head = [n.id for n in cfg.nodes if n.kind == "test" and n.owner is loop][0]
    grown = set()
    for n in ast.walk(loop):
        if isinstance(n, ast.Call) and isinstance(n.func, ast.Attribute) and n.func.attr in ("append", "extend") and isinstance(n.func.value, ast.Name):
            grown.add(n.func.value.id)
    # lists handed to helpers that append to them
    grown |= {"repairs", "tokens"} & {a.arg for a in []} | grown
    n_checked = 0
    for n in ast.walk(loop):
        if isinstance(n, (ast.For, ast.comprehension)) and isinstance(n.iter, ast.Name) and n.iter.id in grown | {"content"}:
            n_checked += 1
            st = n if isinstance(n, ast.For) else _stmt_of(fi.node, n)
            if _ends_in_raise(cfg, head, st):
                continue
            run.instance("R20.6", lx.loc(st), f"loop over `{n.iter.id}` inside the per-token loop", ok=False)
            run.violation("R20.6", lx, "tokenize", f"for ... in {n.iter.id} (per token)", f"every token re-walks `{n.iter.id}`, which grows with the input: tokenize() is quadratic on inputs that keep this branch busy")
        if isinstance(n, ast.Subscript) and isinstance(n.value, ast.Name) and n.value.id == "content" and isinstance(n.slice, ast.Slice) and (n.slice.upper is None or n.slice.lower is None):
            n_checked += 1
            st = _stmt_of(fi.node, n)
            if _ends_in_raise(cfg, head, st):
                continue
            run.instance("R20.6", lx.loc(n), f"open-ended slice `{ast.unparse(n)}` inside the per-token loop", ok=False)
            run.violation("R20.6", lx, "tokenize", f"{ast.unparse(n)} (per token)", f"`{ast.unparse(n)}` copies the rest of the input on every occurrence of this branch: tokenize() is quadratic on inputs that repeat it")
        if isinstance(n, ast.Call) and isinstance(n.func, ast.Attribute) and isinstance(n.func.value, ast.Name) and n.func.value.id == "content" and n.func.attr in ("count", "find", "rfind", "index", "rindex", "split", "splitlines", "replace", "strip", "lstrip") and len(n.args) < 2:
            n_checked += 1
            st = _stmt_of(fi.node, n)
            if _ends_in_raise(cfg, head, st):
                continue
            run.instance("R20.6", lx.loc(n), f"whole-input call `{ast.unparse(n)[:50]}` inside the per-token loop", ok=False)
            run.violation("R20.6", lx, "tokenize", f"{ast.unparse(n)[:60]} (per token)", f"`{ast.unparse(n)[:60]}` scans the whole input for every token that takes this branch")
    n_stmts = sum(1 for n in ast.walk(loop) if isinstance(n, ast.stmt))
    run.instance("R20.6", lx.loc(loop), f"main loop: {n_stmts} statements scanned, {n_checked} candidate constructs examined")
    run.extra["scanner_grown_collections"] = sorted(grown)
    _parser_token_list_work(run)


def _parser_token_list_work(run: Run) -> None:
    """the Parser is called once per construct; any whole-list operation on its token list is input-proportional work per construct"""
    run.rule("R20.6b", "no Parser method outside __init__ does work proportional to the whole token list: `self.tokens` is only indexed, measured with len() or sliced between two computed bounds - no open-ended slice, no iteration / comprehension / membership test over it, no .index/.count/.copy/list()/sorted()/reversed() of it, no insert/pop(0)/del at the front", 6)
    pm = run.project.mod("core.parser")
    n = 0
    for q, fi in pm.functions.items():
        if not q.startswith("Parser.") or q == "Parser.__init__":
            continue
        parents: dict[int, ast.AST] = {}
        for a in ast.walk(fi.node):
            for c in ast.iter_child_nodes(a):
                parents[id(c)] = a
        for a in walk_no_nested(fi.node):
            if not (isinstance(a, ast.Attribute) and a.attr == "tokens" and is_name(a.value, "self")):
                continue
            n += 1
            par = parents.get(id(a))
            bad = None
            if isinstance(par, ast.Subscript) and par.value is a:
                if isinstance(par.slice, ast.Slice) and (par.slice.lower is None or par.slice.upper is None):
                    bad = f"open-ended slice `{ast.unparse(par)}` copies the rest of the token list"
                gp = parents.get(id(par))
                if isinstance(gp, ast.Delete):
                    bad = f"`{ast.unparse(gp)}` shifts the token list"
            elif isinstance(par, ast.Call) and par.func is not a and a in par.args:
                fn = ast.unparse(par.func)
                if fn != "len":
                    bad = f"`{fn}(self.tokens)` walks the whole token list"
            elif isinstance(par, ast.Attribute) and par.value is a:
                if par.attr in ("index", "count", "copy", "insert", "remove", "sort", "reverse", "extend") or (par.attr == "pop" and isinstance(parents.get(id(par)), ast.Call) and parents[id(par)].args):  # type: ignore[union-attr]
                    bad = f"`self.tokens.{par.attr}(...)` is linear in the token list"
            elif isinstance(par, (ast.For, ast.comprehension)) and par.iter is a:
                bad = "iteration over the whole token list"
            elif isinstance(par, ast.Compare) and a in par.comparators and any(isinstance(o, (ast.In, ast.NotIn)) for o in par.ops):
                bad = "membership test on the whole token list"
            elif isinstance(par, (ast.Assign, ast.AugAssign, ast.Return, ast.Starred, ast.keyword)) or (isinstance(par, ast.Call) and a in par.args):
                bad = None if isinstance(par, ast.Assign) and par.value is a and all(isinstance(t, ast.Name) for t in par.targets) else bad
            run.instance("R20.6b", pm.loc(a), f"{q}: `{norm(par) if par is not None else 'self.tokens'}`"[:160], ok=bad is None)
            if bad:
                run.violation("R20.6b", pm, q, par if par is not None else a, f"{q}: {bad}; the method runs once per construct, so reading grows quadratically with the input")
    if n == 0:
        raise AnalysisError("Parser no longer keeps its tokens in self.tokens: per-construct work on the token list is not decided")


def _ends_in_raise(cfg: CFG, head: int, st: ast.AST | None) -> bool:
    """no path leads from the statement back to the loop head: whatever it costs is paid at most once"""
    if st is None:
        return False
    ids = cfg.node_for_stmt_containing(st) or [n.id for n in cfg.nodes if n.owner is st or n.ast is st]
    if not ids:
        return False
    return not any(cfg.path_exists(i, head, {"x"}) for i in ids)


# ======================================================================================= index bounds
def _index_uses(node_ast: ast.AST, text_var: str):
    for n in walk_no_nested(node_ast):
        if isinstance(n, ast.Subscript) and isinstance(n.value, ast.Name) and n.value.id == text_var and not isinstance(n.slice, ast.Slice) and isinstance(n.ctx, ast.Load):
            yield n


def _range_bounded(idx: ast.AST, text_var: str) -> bool:
    """the index is the target of an enclosing `for i in range([a,] len(text)[, step>0])` (statement or comprehension) that does
    not write i itself"""
    if not isinstance(idx, ast.Name):
        return False

    def rng(it: ast.AST) -> bool:
        if not (isinstance(it, ast.Call) and isinstance(it.func, ast.Name) and it.func.id == "range" and 1 <= len(it.args) <= 3 and not it.keywords):
            return False
        stop = it.args[0] if len(it.args) == 1 else it.args[1]
        if ast.unparse(stop) != f"len({text_var})":
            return False
        return len(it.args) < 3 or (isinstance(it.args[2], ast.Constant) and isinstance(it.args[2].value, int) and it.args[2].value > 0)

    cur = getattr(idx, "_parent", None)
    while cur is not None and not isinstance(cur, (ast.FunctionDef, ast.AsyncFunctionDef, ast.Lambda)):
        if isinstance(cur, (ast.ListComp, ast.GeneratorExp, ast.SetComp, ast.DictComp)):
            for g in cur.generators:
                if isinstance(g.target, ast.Name) and g.target.id == idx.id:
                    return rng(g.iter)
        if isinstance(cur, ast.For) and isinstance(cur.target, ast.Name) and cur.target.id == idx.id:
            return rng(cur.iter) and not any(idx.id in _assigned(s) for s in cur.body)
        cur = getattr(cur, "_parent", None)
    return False


def _bounded(idx: ast.AST, facts: set[str], text_var: str) -> bool:
    itxt = ast.unparse(idx)
    if _range_bounded(idx, text_var):
        return True
    if f"{itxt} < len({text_var})" in facts or f"len({text_var}) > {itxt}" in facts:
        return True
    # `v - 1` below a position that was itself reached by guarded increments: needs a lower bound `v > ...` on the path
    if isinstance(idx, ast.BinOp) and isinstance(idx.op, ast.Sub) and isinstance(idx.left, ast.Name) and isinstance(idx.right, ast.Constant) and idx.right.value == 1:
        v = idx.left.id
        return any(f.startswith(f"{v} > ") for f in facts)
    if isinstance(idx, ast.UnaryOp) and isinstance(idx.op, ast.USub) and isinstance(idx.operand, ast.Constant):
        return any(f in facts for f in (text_var, f"len({text_var}) > 0")) or any(f.startswith(f"len({text_var}) > ") for f in facts)
    return False


def check_bounds(run: Run) -> None:
    run.rule("R20.8", "in the lexer every single-character index `content[i]` into the scanned text is preceded on every path by a test establishing `i < len(content)` (or, for `i - 1`, a lower bound on i) with no write to i in between; a helper that indexes at a position it receives states that as a precondition which every call site establishes", 15)
    lx = run.project.mod("core.lexer")
    tv = "content"
    funcs = [fi for fi in lx.functions.values() if tv in {a.arg for a in fi.node.args.args}]  # type: ignore[attr-defined]
    cfgs = {fi.qualname: CFG(fi.node) for fi in funcs}
    need: dict[str, set[str]] = {}

    def analyse(fi: FuncInfo, pre: frozenset[str], call_check: bool):
        cfg = cfgs[fi.qualname]
        ex = Explorer(cfg, relevant=lambda f: tv in f or " > " in f or " < " in f or " >= " in f or " <= " in f)
        failing: dict[int, tuple[ast.AST, tuple]] = {}
        seen_uses: set[int] = set()
        call_fail: dict[int, tuple[ast.Call, str, tuple]] = {}

        def visit(st):
            n, facts, _fl = st
            node = cfg.nodes[n]
            if node.ast is None:
                return None
            roots = [node.ast] if node.kind != "with" else [i.context_expr for i in node.ast.items]  # type: ignore[attr-defined]
            for r in roots:
                for use in _index_uses(r, tv):
                    seen_uses.add(id(use))
                    f = set(facts) | expression_context_facts(use)
                    if not _bounded(use.slice, f, tv) and id(use) not in failing:
                        failing[id(use)] = (use, st)
                if call_check:
                    for c in walk_no_nested(r):
                        if isinstance(c, ast.Call) and isinstance(c.func, ast.Name) and c.func.id in need and need[c.func.id]:
                            callee = lx.func(c.func.id)
                            params = [a.arg for a in callee.node.args.args]  # type: ignore[attr-defined]
                            for i, a in enumerate(c.args):
                                if i < len(params) and params[i] in need[c.func.id]:
                                    f = set(facts) | expression_context_facts(c)
                                    if f"{ast.unparse(a)} < len({tv})" not in f and id(c) not in call_fail:
                                        call_fail[id(c)] = (c, params[i], st)
            return None

        ex.explore([(cfg.entry, pre, ())], visit)
        return failing, seen_uses, call_fail, ex

    # pass 1: which helpers need `p < len(content)` for a parameter p at entry
    for fi in funcs:
        failing, _seen, _cf, _ex = analyse(fi, frozenset(), False)
        params = {a.arg for a in fi.node.args.args} - {tv}  # type: ignore[attr-defined]
        wanted = set()
        for use, _st in failing.values():
            wanted |= {x.id for x in ast.walk(use.slice) if isinstance(x, ast.Name)} & params
        need[fi.qualname] = wanted
    run.extra["index_preconditions"] = {k: sorted(v) for k, v in need.items() if v}
    # pass 2
    total = 0
    for fi in funcs:
        pre = frozenset(f"{p} < len({tv})" for p in need[fi.qualname])
        failing, seen, call_fail, ex = analyse(fi, pre, True)
        cfg = cfgs[fi.qualname]
        uses = [u for n in cfg.nodes if n.ast is not None for u in _index_uses(n.ast, tv)]
        total += len(uses)
        for u in uses:
            bad = id(u) in failing
            run.instance("R20.8", lx.loc(u), f"{fi.qualname}: {ast.unparse(u)} {'UNGUARDED on some path' if bad else 'guarded on every path'}", ok=not bad)
        for use, st in failing.values():
            path = ex.path_to(st)
            run.violation("R20.8", lx, fi.qualname, f"{ast.unparse(use)}", f"`{ast.unparse(use)}` can be reached without a test establishing `{ast.unparse(use.slice)} < len({tv})` since the index was last written: on input that ends there the scanner raises IndexError instead of LexerError", path=[cfg.nodes[i].lineno for i in path if cfg.nodes[i].lineno][-25:])
        for c, prm, st in call_fail.values():
            run.violation("R20.8", lx, fi.qualname, f"{ast.unparse(c.func)}(... {prm}=...) precondition", f"`{ast.unparse(c.func)}` indexes the text at its parameter `{prm}` and relies on the caller for `{prm} < len({tv})`; this call does not establish it", line=c.lineno)
    run.extra["index_uses"] = total


# ======================================================================================= entry
def check(run: Run) -> None:
    res = Resolver(run.project)
    tt = enum_members(run.project, "core.lexer", "TokenType")
    pmodel = ParserModel(run.project, tt)
    check_regexes(run)
    check_scanner(run)
    check_other_loops(run, pmodel)
    check_parser_loops(run, pmodel)
    check_recursion(run, res)
    check_escape(run, res)
    check_meta_types(run, res)
    check_joined_token_values(run, tt)
    check_receipt_records(run)
    check_complexity(run)
    check_bounds(run)
    run.assume("IndexError/KeyError/AttributeError/TypeError of ordinary subscripts and attribute access are modelled only where a rule names them (R20.5c META values, R20.8 scanner indexes); JSON-serialisability of envelope values and measured running time are not decided")
